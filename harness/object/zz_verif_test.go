//go:build verif

package object

import (
	"sync"
	"servitor/mime"
	"encoding/json"
	"errors"
	"fmt"
	"math/big"
	"math/rand"
	"net/url"
	"servitor/verifkit"
	"strconv"
	"strings"
	"testing"
	"time"
	"unicode"
)

/*
	C17 driver: for every cell (accessor, value class) of Values.tla - enumerated by TLC - draw
	concrete JSON texts of that class, decode them exactly as the fetcher does (encoding/json
	into map[string]any) and call the accessor.  The outcome and, for values, the canonical
	renderings of what was returned and of what the JSON holds are recorded; T_Values.tla judges.
*/

type verifDraw struct {
	text string // JSON text of the value ("" = key missing)
	want string // canonical rendering of the faithful value for the accessor family
	aux  string // class-specific: essence of a media type, RFC3339Nano of a time
}

func verifSanitise(s string) string {
	/* the statement: control characters removed, tab expanded, newline kept */
	var b strings.Builder
	for _, r := range s {
		switch {
		case r == '\t':
			b.WriteString("    ")
		case r == '\n':
			b.WriteRune(r)
		case unicode.IsControl(r):
		default:
			b.WriteRune(r)
		}
	}
	return b.String()
}

func verifQuote(s string) string {
	data, _ := json.Marshal(s)
	return string(data)
}

func verifExact(text string) string {
	f, err := strconv.ParseFloat(text, 64)
	if err != nil {
		return "unparseable"
	}
	bf := new(big.Float).SetFloat64(f)
	if !bf.IsInt() {
		return bf.Text('g', 40)
	}
	i, _ := bf.Int(nil)
	return i.String()
}

var verifTimeDraws int

func verifDrawClass(rng *rand.Rand, class string) verifDraw {
	pick := func(xs ...string) string { return xs[rng.Intn(len(xs))] }
	str := func(s string) verifDraw { return verifDraw{text: verifQuote(s), want: verifSanitise(s)} }
	word := func() string {
		letters := "abcdefghijklmnopqrstuvwxyzäöüßжщ世界-_"
		rs := []rune(letters)
		n := 1 + rng.Intn(8)
		out := make([]rune, n)
		for i := range out {
			out[i] = rs[rng.Intn(len(rs))]
		}
		return "w" + string(out)
	}
	switch class {
	case "missing":
		return verifDraw{text: ""}
	case "null":
		return verifDraw{text: "null"}
	case "bool":
		return verifDraw{text: pick("true", "false")}
	case "arr_empty":
		return verifDraw{text: pick("[]", "[ ]")}
	case "arr_one":
		return verifDraw{text: pick(`["x"]`, `[1]`, `[{"a":1}]`, `[null]`, `[[]]`, `[false]`)}
	case "arr_many":
		return verifDraw{text: pick(`["x","y"]`, `[1,"two",{"three":3},null]`, `[[],[]]`, `[0,0,0,0,0,0,0,0]`)}
	case "obj":
		return verifDraw{text: pick(`{"a":1}`, `{}`, `{"type":"Link","href":"https://x.example/"}`, `{"nested":{"deep":[1,2]}}`)}
	case "str_empty":
		return str("")
	case "str_plain":
		return str(word())
	case "str_format":
		/* invisible, but no control characters: they are part of the value */
		return str(pick("\U0001F468\u200d\U0001F469\u200d\U0001F467", "\u0645\u06cc\u200c\u062e\u0648\u0627\u0647\u0645", "co\u00adoperate", "\u200d", "\u200eabc\u200f",
			word()+"\u2028"+word(), word()+"\u2029", "\ue000"+word(), "\u2764\ufe0f", "e\u0301", "\ufeff"+word(), "a\u2060b", "\U000E0041"+word()))
	case "str_ctl_only":
		return str(pick("\x01\x02\x7f", "\x1b", "\u0080\u009b", "\r", "\x00\x00\x00"))
	case "str_ctl_mixed":
		return str(word() + pick("\x07", "\x1b[31m", "\u009b2J", "\r", "\x7f", "\x00") + word())
	case "str_tab_nl":
		return str(word() + pick("\t", "\n", "\t\n", "\n\n\t") + word())
	case "str_time":
		t := time.Date(1990+rng.Intn(60), time.Month(1+rng.Intn(12)), 1+rng.Intn(28), rng.Intn(24), rng.Intn(60), rng.Intn(60), 0, time.UTC)
		verifTimeDraws++
		if verifTimeDraws%3 == 0 {
			/* the ends of what the format can say: year 1 (Go's zero instant), year 9999, the Unix epoch */
			t = []time.Time{time.Date(1, 1, 1, 0, 0, 0, 0, time.UTC), time.Date(9999, 12, 31, 23, 59, 59, 0, time.UTC), time.Unix(0, 0).UTC(), time.Date(1, 1, 1, 0, 0, 1, 0, time.UTC)}[(verifTimeDraws/3)%4]
		}
		text := t.Format("2006-01-02T15:04:05Z")
		switch rng.Intn(3) {
		case 0:
			off := rng.Intn(14)
			if t.Add(time.Duration(off)*time.Hour).Year() > 9999 {
				off = 0 /* the local time would be in the year 10000, which the format cannot say */
			}
			text = t.Add(time.Duration(off)*time.Hour).Format("2006-01-02T15:04:05") + fmt.Sprintf("+%02d:00", off)
		case 1:
			if verifTimeDraws%3 != 0 { /* (the ends of the range are drawn as they are: to the second) */
				t = t.Add(123 * time.Millisecond)
				text = t.Format("2006-01-02T15:04:05.000Z")
			}
		}
		d := str(text)
		d.aux = t.UTC().Format(time.RFC3339Nano)
		return d
	case "str_url":
		return str(pick("https://example.org/users/alice", "https://xn--bcher-kva.example/a?b=c#d", "http://h:8080/", "https://user@h.example/p%20q", "/relative/path", "mailto:someone@example.org",
			"https://Social.Example/Users/Alice", "//CDN.Example/Videos/X.mp4", "https://BÜCHER.example/ü", "HTTPS://Example.ORG:8443/A?B=C#D"))
	case "str_url_bad":
		return str(pick("http://[::1", "%zz", "http://a b.example/", ":foo", "https://h.example/%", "http://h.example:port/"))
	case "str_mime":
		essence := pick("text/html", "image/png", "application/activity+json", "video/mp4", "x-y/z.w+v")
		d := str(essence + pick("", "; charset=utf-8", ";q=0.5", " ; profile=\"x\""))
		d.aux = essence
		return d
	case "str_mime_bad":
		return str(pick("texthtml", "/html", "text/", "text html/plain", "(text)/html", "text/[html]", "a,b/c", ",text/html"))
	case "str_mime_junk":
		essence := pick("text/html", "text/plain", "image/png", "application/activity+json")
		d := str(essence + pick(",text/html", ", text/markdown", " x", ")", ",", "\\", "\"", "<b>"))
		d.aux = essence
		return d
	case "num_zero":
		t := pick("0", "0.0", "-0", "0e5", "-0.0", "0E-3")
		return verifDraw{text: t, want: "0"}
	case "num_small":
		t := pick(strconv.Itoa(1+rng.Intn(1000000)), strconv.FormatInt(rng.Int63n(1<<53-1)+1, 10), "1e3", "12.0", "1.5e1", "9007199254740991", "4294967296")
		return verifDraw{text: t, want: verifExact(t)}
	case "num_2_53":
		t := pick("9007199254740992", "9007199254740993", "9007199254740994", "9.007199254740992e15", "9007199254740991.5") /* the last one is integral as a double */
		return verifDraw{text: t, want: verifExact(t)}
	case "num_big_in_range":
		t := pick("18446744073709549568", "1e19", "9223372036854775808", "9223372036854775807", "18446744073709550000", "1.2345e17")
		return verifDraw{text: t, want: verifExact(t)}
	case "num_neg":
		return verifDraw{text: pick("-1", "-5", "-1e300", "-9007199254740992", "-18446744073709551616", "-0.5", "-1e-9")}
	case "num_frac":
		return verifDraw{text: pick("0.5", "1.0000001", "1e-9", "12345.678", "4.9e-324", "4503599627370495.5", "0.1")}
	case "num_ge_2_64":
		return verifDraw{text: pick("18446744073709551616", "18446744073709551615", "2e19", "36893488147419103232", "18446744073709552000")}
	case "num_huge":
		return verifDraw{text: pick("1e300", "1.7e308", "1e100", "123456789012345678901234567890")}
	}
	panic("unknown class " + class)
}

func verifCanon(v any) string {
	data, err := json.Marshal(v)
	if err != nil {
		return "unmarshalable"
	}
	return string(data)
}

func TestVerifAccessors(t *testing.T) {
	var in struct {
		Cells []struct {
			Acc   string `json:"acc"`
			Class string `json:"class"`
		} `json:"cells"`
		Draws int `json:"draws"`
	}
	verifkit.In(&in)
	out := verifkit.Out()
	defer out.Close()
	rng := verifkit.Rand()
	for _, cell := range in.Cells {
		for d := 0; d < in.Draws; d++ {
			draw := verifDrawClass(rng, cell.Class)
			key := []string{"k", "name", "totalItems", "id", "published"}[rng.Intn(5)]
			doc := "{}"
			if draw.text != "" {
				doc = `{"other":1,` + verifQuote(key) + `:` + draw.text + `}`
			}
			var decoded map[string]any
			if err := json.NewDecoder(strings.NewReader(doc)).Decode(&decoded); err != nil {
				continue
			}
			if cell.Acc == "GetMarkup" {
				decoded["content"] = "<p>some <b>text</b></p>"
			}
			if cell.Acc == "GetMarkupNoBody" {
				switch d % 4 {
				case 1:
					decoded["content"] = nil
				case 2:
					decoded["content"] = ""
				case 3:
					decoded["content"] = "\x1b\x07"
				}
			}
			o := Object(decoded)
			raw := decoded[key]
			before := verifCanon(decoded)
			var got, want string
			var err error
			again := ""
			/* an independent copy of the same document, read after the holder of the first value has scribbled over it */
			var second map[string]any
			json.NewDecoder(strings.NewReader(doc)).Decode(&second)
			if cell.Acc == "GetMarkup" {
				second["content"] = "<p>some <b>text</b></p>"
			}
			if key == "content" && cell.Acc == "GetMarkupNoBody" {
				continue
			}
			panicked, what := verifkit.Try(func() {
				switch cell.Acc {
				case "GetAny":
					var v any
					v, err = o.GetAny(key)
					got, want = verifCanon(v), verifCanon(raw)
				case "GetString":
					got, err = o.GetString(key)
					want = draw.want
				case "GetNumber":
					var n uint64
					n, err = o.GetNumber(key)
					got, want = strconv.FormatUint(n, 10), draw.want
				case "GetObject":
					var v Object
					v, err = o.GetObject(key)
					got, want = verifCanon(map[string]any(v)), verifCanon(raw)
				case "GetList":
					var v []any
					v, err = o.GetList(key)
					got = verifCanon(v)
					if list, isList := raw.([]any); isList {
						want = verifCanon(list)
					} else {
						want = verifCanon([]any{raw})
					}
				case "GetTime":
					var v time.Time
					v, err = o.GetTime(key)
					got, want = v.UTC().Format(time.RFC3339Nano), draw.aux
				case "GetURL":
					v, e := o.GetURL(key)
					err = e
					if e == nil {
						got = v.String()
						v.Host, v.Path, v.Scheme = "scribbled.example", "/scribbled", "gopher"
						if v2, e2 := Object(second).GetURL(key); e2 == nil {
							again = v2.String()
						} else {
							again = "error: " + e2.Error()
						}
					}
					/* faithful = the URL denoted by the sanitised string */
					if ref, perr := url.Parse(draw.want); perr == nil {
						want = ref.String()
					} else {
						want = "unparseable"
					}
				case "GetMarkup", "GetMarkupNoBody":
					_, _, e := o.GetMarkup("content", key)
					err = e
					got, want = "rendered", "rendered"
				case "GetMediaType":
					v, e := o.GetMediaType(key)
					err = e
					if e == nil {
						got = v.Essence
						v.Essence, v.Supertype, v.Subtype = "scribbled/over", "scribbled", "over"
						if v2, e2 := Object(second).GetMediaType(key); e2 == nil {
							again = v2.Essence
						} else {
							again = "error: " + e2.Error()
						}
					}
					want = draw.aux
				}
			})
			outcome := "value"
			if panicked {
				outcome = "panic"
			} else if errors.Is(err, ErrKeyNotPresent) {
				outcome = "absent"
			} else if err != nil {
				outcome = "error"
			}
			if outcome != "value" {
				got, want = "", ""
			}
			if outcome != "value" || (cell.Acc != "GetURL" && cell.Acc != "GetMediaType") {
				again = want
			}
			/* a second reader of the same document (they are shared through the cache) must find it as it was */
			mutated := verifCanon(decoded) != before
			ev := verifkit.M{"ev": "accessor", "acc": cell.Acc, "class": cell.Class, "json": verifkit.Clip(draw.text, 80), "outcome": outcome,
				"got": got, "want": want, "again": again, "panic": panicked, "mutated": mutated}
			if panicked {
				ev["what"] = what
			}
			out.Emit(ev)
		}
	}
}

/*
	Objects read side by side, as the constructors of pub do (creators, recipients, attachments and replies of one
	post are built by goroutines of their own): every goroutine reads objects of its own, each with a media type
	nobody has seen before.  A fault here ends the process; the check reads that off the exit.
*/
func TestVerifAccessorsSideBySide(t *testing.T) {
	out := verifkit.Out()
	defer out.Close()
	rounds := 40
	if verifkit.Thorough() {
		rounds = 400
	}
	out.Emit(verifkit.M{"ev": "begin", "what": "side by side", "rounds": rounds})
	out.Flush()
	var mu sync.Mutex
	var wg sync.WaitGroup
	for g := 0; g < 8; g++ {
		wg.Add(1)
		g := g
		go func() {
			defer wg.Done()
			for i := 0; i < rounds; i++ {
				essence := fmt.Sprintf("text/x-g%d-r%d-%d", g, i, verifkit.Seed())
				decoded := map[string]any{"mediaType": essence + "; charset=utf-8", "content": "plain", "published": "2020-01-02T03:04:05Z",
					"id": fmt.Sprintf("https://h.example/%d/%d", g, i), "totalItems": float64(i), "name": fmt.Sprintf("n%d", i)}
				o := Object(decoded)
				var got string
				var err error
				panicked, what := verifkit.Try(func() {
					o.GetString("name")
					o.GetNumber("totalItems")
					o.GetTime("published")
					o.GetURL("id")
					o.GetMarkup("content", "mediaType")
					var v *mime.MediaType
					v, err = o.GetMediaType("mediaType")
					if err == nil {
						got = v.Essence
					}
				})
				outcome := "value"
				if panicked {
					outcome = "panic"
				} else if err != nil {
					outcome = "error"
				}
				ev := verifkit.M{"ev": "accessor", "acc": "GetMediaType", "class": "str_mime", "json": essence, "outcome": outcome, "got": got, "want": essence,
					"again": essence, "panic": panicked, "mutated": false}
				if outcome != "value" {
					ev["got"], ev["want"], ev["again"] = "", "", ""
				}
				if panicked {
					ev["what"] = what
				}
				mu.Lock()
				out.Emit(ev)
				mu.Unlock()
			}
		}()
	}
	wg.Wait()
	out.Emit(verifkit.M{"ev": "end", "what": "side by side"})
}
