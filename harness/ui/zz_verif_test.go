//go:build verif

package ui

import (
	"reflect"
	"encoding/json"
	"fmt"
	"io"
	"math/rand"
	"net/url"
	"os"
	"regexp"
	"servitor/config"
	"servitor/jtp"
	"servitor/pub"
	"servitor/verifkit"
	"servitor/verifsim"
	"runtime"
	"strings"
	"sync"
	"sync/atomic"
	"testing"
	"time"
)

/*
	UI driver (C07, C16, C20, and the sequential part of C08).

	A fixed content world (UI.tla's tables) is served by the simulator.  Key sequences - from TLC
	(Gen_UI) as tokens, or seeded random bytes - are fed to a real ui.State one Update call at a
	time; after each key the driver waits for exact quiescence and records the observable
	projection (mode, history, highlighted item, cursor position, buffer length), the hook calls
	(argv and stdin, recorded by this very binary re-executed as the media hook) and every frame
	handed to the output callback.  T_UI.tla / T_Term.tla / T_Hook.tla judge.
*/

func TestMain(m *testing.M) {
	if dump := os.Getenv("VERIF_DUMP"); dump != "" && len(os.Args) > 1 && os.Args[1] == "--verif-hook" {
		stdin, _ := io.ReadAll(os.Stdin)
		data, _ := json.Marshal(map[string]any{"argv": os.Args[2:], "argv0": os.Args[0], "stdin": string(stdin)})
		f, err := os.OpenFile(dump, os.O_CREATE|os.O_WRONLY|os.O_APPEND, 0o644)
		if err == nil {
			f.Write(append(data, '\n'))
			f.Close()
		}
		if gate := os.Getenv("VERIF_HOOK_GATE"); gate != "" {
			/* held back until the driver opens the gate */
			for waited := 0; waited < 3000; waited++ {
				if _, err := os.Stat(gate); err == nil {
					break
				}
				time.Sleep(10 * time.Millisecond)
			}
		}
		if ms := os.Getenv("VERIF_HOOK_SLEEP_MS"); ms != "" {
			var n int
			fmt.Sscanf(ms, "%d", &n)
			time.Sleep(time.Duration(n) * time.Millisecond)
		}
		/* tell the driver that the hook is about to exit */
		if f, err := os.OpenFile(dump+".done", os.O_CREATE|os.O_WRONLY|os.O_APPEND, 0o644); err == nil {
			f.Write([]byte("x\n"))
			f.Close()
		}
		if os.Getenv("VERIF_HOOK_FAIL") != "" {
			if text := os.Getenv("VERIF_HOOK_OUTPUT"); text != "" {
				os.Stdout.WriteString(text)
			} else {
				os.Stdout.WriteString("hook failed on purpose\n")
			}
			os.Exit(7)
		}
		os.Exit(0)
	}
	os.Exit(m.Run())
}

type verifWorld struct {
	sim        *verifsim.Sim
	h          *verifsim.Host
	name       map[string]string // URL -> abstract name of a hook target
	id         string            // "w1" / "w2" (UI.tla's World)
	actors     []string
	activityOf map[string]string // target title -> activity name
	startA     string            // address of the actor page / the post page sessions start on
	startP     string
}

func (w *verifWorld) put(target string, doc map[string]any) {
	doc["id"] = w.h.URL(target)
	data, _ := json.Marshal(doc)
	w.h.Set(target, &verifsim.Route{Raw: []byte("HTTP/1.1 200 OK\r\nContent-Type: application/activity+json\r\n\r\n" + string(data))})
}

func verifBuildWorld(sim *verifsim.Sim) *verifWorld {
	w := &verifWorld{sim: sim, h: sim.Host("u1"), name: map[string]string{}}
	u := w.h.URL
	w.put("/users/alice", map[string]any{"type": "Person", "name": "alice", "preferredUsername": "alice",
		"summary": `<p>bio of alice, see <a href="` + u("/notes/n3") + `">this</a></p>`, "published": "2020-01-01T00:00:00Z",
		"icon": map[string]any{"type": "Image", "url": u("/media/alice.png"), "mediaType": "image/png"},
		"outbox": u("/users/alice/outbox")})
	w.put("/users/alice/outbox", map[string]any{"type": "OrderedCollection", "totalItems": 2, "orderedItems": []any{
		map[string]any{"id": u("/acts/a1"), "type": "Create", "actor": u("/users/alice"), "object": u("/notes/n1"), "published": "2024-03-01T00:00:00Z"},
		u("/acts/a2")}})
	w.put("/users/bob", map[string]any{"type": "Person", "name": "bob", "preferredUsername": "bob", "published": "2020-01-02T00:00:00Z",
		"outbox": u("/users/bob/outbox")})
	w.put("/users/bob/outbox", map[string]any{"type": "OrderedCollection", "totalItems": 0, "orderedItems": []any{}})
	w.put("/acts/a1", map[string]any{"type": "Create", "actor": u("/users/alice"), "object": u("/notes/n1"), "published": "2024-03-01T00:00:00Z"})
	w.put("/acts/a2", map[string]any{"type": "Announce", "actor": u("/users/alice"), "object": u("/notes/n3"), "published": "2024-02-01T00:00:00Z"})
	w.put("/notes/n1", map[string]any{"type": "Note", "name": "n1", "attributedTo": u("/users/alice"), "published": "2024-01-01T00:00:00Z",
		"content": `<p>first post, see <a href="` + u("/notes/n3") + `">one</a> and <a href="` + u("/missing") + `">two</a></p>`,
		"replies": map[string]any{"id": u("/notes/n1/replies"), "type": "Collection", "items": []any{u("/notes/n2"), u("/notes/nf")}},
		/* attachments are numbered on from the links of the text: 3 and 4 */
		"attachment": []any{map[string]any{"type": "Document", "url": u("/files/first.pdf"), "name": "first"}, map[string]any{"type": "Link", "href": u("/files/second.pdf"), "name": "second", "mediaType": "application/pdf"}}})
	w.name[u("/files/first.pdf")], w.name[u("/files/second.pdf")] = "fo", "fo"
	w.put("/notes/n2", map[string]any{"type": "Note", "name": "n2", "attributedTo": u("/users/alice"), "published": "2024-01-02T00:00:00Z",
		"content": "<p>second post</p>", "inReplyTo": u("/notes/n1"),
		"replies": map[string]any{"id": u("/notes/n2/replies"), "type": "Collection", "items": []any{u("/notes/n3")}}})
	w.put("/notes/n3", map[string]any{"type": "Note", "name": "n3", "attributedTo": []any{u("/users/alice"), u("/users/bob")}, "published": "2024-01-03T00:00:00Z",
		"content": "<p>third post</p>", "inReplyTo": u("/notes/n2"), "url": map[string]any{"type": "Link", "href": u("/media/n3.mp4"), "mediaType": "video/mp4"}})
	w.name[u("/media/n3.mp4")] = "media_n3"
	w.name[u("/media/alice.png")] = "pic_alice"
	w.name[u("/notes/n3")] = "n3"
	w.name[u("/missing")] = "fo"
	w.put("/empty", map[string]any{"type": "OrderedCollection", "totalItems": 0, "orderedItems": []any{}})
	w.put("/notes/uni", map[string]any{"type": "Note", "name": "uni", "content": `<p>see <a href="https://⛄☃⛄.example/⛄⛄⛄⛄⛄⛄/☃☃☃☃☃☃☃☃/雪雪雪雪雪雪雪雪雪雪">snow</a></p>`})
	/* a page of Markdown notes (built side by side when the page is harvested), outside the model's world */
	mdNotes := []any{}
	for k := 0; k < 10; k++ {
		mdNotes = append(mdNotes, map[string]any{"id": u(fmt.Sprintf("/md/n%d", k)), "type": "Note", "mediaType": "text/markdown",
			"content": fmt.Sprintf("# heading %d\n\nsome *text* number %d with a [link](https://x.example/%d) and `code`\n\n> quote %d", k, k, k, k)})
	}
	w.put("/md", map[string]any{"type": "OrderedCollection", "totalItems": len(mdNotes), "orderedItems": mdNotes})
	/* a Lemmy-style thread (replies filed under "comments"), outside the model's world */
	w.put("/notes/lp", map[string]any{"type": "Page", "name": "lp", "content": "<p>lemmy post</p>",
		"comments": map[string]any{"id": u("/notes/lp/comments"), "type": "Collection", "items": []any{u("/notes/lc")}}})
	w.put("/notes/lc", map[string]any{"type": "Note", "name": "lc", "content": "<p>lemmy comment</p>", "inReplyTo": u("/notes/lp")})
	/* outside the model's world: a post whose replies and author cannot be obtained (C08 liveness scenario) */
	w.put("/notes/x1", map[string]any{"type": "Note", "name": "x1", "content": "<p>x</p>", "replies": u("/missing-replies"), "attributedTo": u("/missing-author")})
	w.id, w.actors, w.activityOf = "w1", []string{"alice", "bob"}, map[string]string{"n1": "a1", "n3": "a2"}
	w.startA, w.startP = "/users/alice", "/notes/n2"
	return w
}

/* UI.tla's world "w2": a paged outbox, a long ancestor chain, a broken parent, a group recipient, a banner */
func verifBuildWorld2(sim *verifsim.Sim) *verifWorld {
	w := &verifWorld{sim: sim, h: sim.Host("u2"), name: map[string]string{}}
	u := w.h.URL
	create := func(k int) map[string]any {
		return map[string]any{"id": u(fmt.Sprintf("/acts/c%d", k)), "type": "Create", "actor": u("/users/carol"), "object": u(fmt.Sprintf("/notes/m%d", k)),
			"published": fmt.Sprintf("2024-03-%02dT00:00:00Z", 20-k)}
	}
	w.put("/users/carol", map[string]any{"type": "Person", "name": "carol", "preferredUsername": "carol", "published": "2020-01-01T00:00:00Z",
		"icon":  map[string]any{"type": "Image", "url": u("/media/carol.png"), "mediaType": "image/png"},
		"image": map[string]any{"type": "Image", "url": u("/media/carol-banner.jpg"), "mediaType": "image/jpeg"},
		"outbox": u("/users/carol/outbox")})
	w.put("/users/carol/outbox", map[string]any{"type": "OrderedCollection", "totalItems": 5, "first": u("/users/carol/outbox?page=1")})
	w.put("/users/carol/outbox?page=1", map[string]any{"type": "OrderedCollectionPage", "orderedItems": []any{create(1), u("/acts/c2")}, "next": u("/users/carol/outbox?page=2")})
	w.put("/users/carol/outbox?page=2", map[string]any{"type": "OrderedCollectionPage", "orderedItems": []any{create(3), u("/acts/c4"), create(5)}})
	for k := 1; k <= 5; k++ {
		w.put(fmt.Sprintf("/acts/c%d", k), create(k))
	}
	w.put("/groups/grp", map[string]any{"type": "Group", "name": "grp", "preferredUsername": "grp", "published": "2020-01-03T00:00:00Z"})
	note := func(name string, extra map[string]any) {
		doc := map[string]any{"type": "Note", "name": name, "attributedTo": u("/users/carol"), "published": "2024-01-05T00:00:00Z", "content": "<p>post " + name + "</p>"}
		for k, v := range extra {
			doc[k] = v
		}
		w.put("/notes/"+name, doc)
	}
	note("m1", map[string]any{"audience": u("/groups/grp"), "content": `<p>see <a href="` + u("/notes/q4") + `">the root</a></p>`})
	note("m2", map[string]any{"inReplyTo": u("/notes/q1"), "url": map[string]any{"type": "Link", "href": u("/media/m2.mp4"), "mediaType": "video/mp4"}})
	note("q1", map[string]any{"inReplyTo": u("/notes/q2")})
	note("q2", map[string]any{"inReplyTo": u("/notes/q3")})
	note("q3", map[string]any{"inReplyTo": u("/notes/q4")})
	q4 := "<p>the root, with twelve links:"
	for k := 1; k <= 12; k++ {
		target := u("/missing")
		if k == 8 {
			target = u("/notes/q1")
		}
		if k == 10 {
			target = u("/notes/q3")
		}
		if k == 5 || k == 11 {
			/* an address that spells the placeholders of the media hook: it is an address, nothing in it is replaced */
			odd := u("/missing") + []string{"?to=%subtype&of=%supertype", "?as=%mimetype&again=%url"}[k%2]
			w.name[odd] = "fo"
			target = strings.ReplaceAll(odd, "&", "&amp;")
		}
		q4 += fmt.Sprintf(` <a href="%s">l%d</a>`, target, k)
	}
	note("q4", map[string]any{"content": q4 + "</p>"})
	note("m3", map[string]any{"inReplyTo": u("/notes/gone")})
	note("m4", map[string]any{"replies": map[string]any{"id": u("/notes/m4/replies"), "type": "Collection", "items": []any{u("/notes/m5")}}})
	note("m5", map[string]any{"inReplyTo": u("/notes/m4")})
	w.name[u("/media/m2.mp4")] = "media_m2"
	w.name[u("/media/carol.png")] = "pic_carol"
	w.name[u("/media/carol-banner.jpg")] = "banner_carol"
	w.name[u("/notes/q4")] = "q4"
	w.name[u("/notes/q1")] = "q1"
	w.name[u("/notes/q3")] = "q3"
	w.name[u("/missing")] = "fo"
	w.put("/empty", map[string]any{"type": "OrderedCollection", "totalItems": 0, "orderedItems": []any{}})
	w.put("/notes/uni", map[string]any{"type": "Note", "name": "uni", "content": `<p>see <a href="https://⛄☃⛄.example/⛄⛄⛄⛄⛄⛄/☃☃☃☃☃☃☃☃/雪雪雪雪雪雪雪雪雪雪">snow</a></p>`})
	/* a page of Markdown notes (built side by side when the page is harvested), outside the model's world */
	mdNotes := []any{}
	for k := 0; k < 10; k++ {
		mdNotes = append(mdNotes, map[string]any{"id": u(fmt.Sprintf("/md/n%d", k)), "type": "Note", "mediaType": "text/markdown",
			"content": fmt.Sprintf("# heading %d\n\nsome *text* number %d with a [link](https://x.example/%d) and `code`\n\n> quote %d", k, k, k, k)})
	}
	w.put("/md", map[string]any{"type": "OrderedCollection", "totalItems": len(mdNotes), "orderedItems": mdNotes})
	/* a Lemmy-style thread (replies filed under "comments"), outside the model's world */
	w.put("/notes/lp", map[string]any{"type": "Page", "name": "lp", "content": "<p>lemmy post</p>",
		"comments": map[string]any{"id": u("/notes/lp/comments"), "type": "Collection", "items": []any{u("/notes/lc")}}})
	w.put("/notes/lc", map[string]any{"type": "Note", "name": "lc", "content": "<p>lemmy comment</p>", "inReplyTo": u("/notes/lp")})
	/* outside the model's world: a post whose replies and author cannot be obtained (C08 liveness scenario) */
	w.put("/notes/x1", map[string]any{"type": "Note", "name": "x1", "content": "<p>x</p>", "replies": u("/missing-replies"), "attributedTo": u("/missing-author")})
	w.id, w.actors = "w2", []string{"carol", "grp"}
	w.activityOf = map[string]string{"m1": "c1", "m2": "c2", "m3": "c3", "m4": "c4", "m5": "c5"}
	w.startA, w.startP = "/users/carol", "/notes/m2"
	return w
}

func (w *verifWorld) expand(tok string) []byte {
	u := w.h.URL
	switch tok {
	case "sp":
		return []byte{' '}
	case "dot":
		return []byte{'.'}
	case "colon":
		return []byte{':'}
	case "enter":
		return []byte{'\r'}
	case "esc":
		return []byte{27}
	case "bs":
		return []byte{127}
	case "x":
		return []byte{'z'}
	case "hi":
		return []byte{0xe9}
	case "open_a":
		return []byte("open " + u(w.startA))
	case "open_p":
		return []byte("open " + u(w.startP))
	case "open_c":
		return []byte("open " + u(w.startA+"/outbox"))
	case "open_bad":
		return []byte("open " + u("/missing"))
	case "open_empty":
		return []byte("open ")
	case "feed_f":
		return []byte("feed f")
	case "feed_u":
		return []byte("feed nosuchfeed")
	case "bad_cmd":
		return []byte("frobnicate now")
	}
	return []byte(tok)
}

var verifSGRre = regexp.MustCompile("\x1b\\[[0-9;]*m")

var verifCurrentWorld *verifWorld

func verifIdent(t pub.Tangible) string {
	w := verifCurrentWorld
	if t == nil {
		return "none"
	}
	switch x := t.(type) {
	case *pub.Failure:
		return "fail"
	case *pub.Actor:
		name := verifSGRre.ReplaceAllString(x.Name(), "")
		for _, n := range w.actors {
			if strings.HasPrefix(name, n) {
				return n
			}
		}
		return "actor?" + name
	case *pub.Post:
		return x.Name()
	case *pub.Activity:
		if a, ok := w.activityOf[x.Name()]; ok {
			return a
		}
		return "activity?" + x.Name()
	}
	return fmt.Sprintf("%T", t)
}

var verifModes = map[int]string{loading: "loading", normal: "normal", command: "command", selection: "selection", opening: "opening", problem: "problem"}

type verifSession struct {
	lastFrame string
	w       *verifWorld
	s       *State
	out     *verifkit.Trace
	sid     int
	frames  int64
	overlap int64
	inCb    int32
	unheld  int64
	dump    string
	termW   int32 // the terminal size as the driver last set it (after the call returned)
	termH   int32
	prevH   int32
	mu      sync.Mutex
	pending []verifkit.M
	emitFrames bool
	injecting  int32
	/* held sessions: media hooks do not end until the driver opens their gate ("hookexit") */
	held    bool
	gate    string
	epoch   int
	started int
}

/* hook completions in flight: goroutines started by openExternally that have not finished yet */
func verifHookGoroutines() int {
	buf := make([]byte, 1<<20)
	n := runtime.Stack(buf, true)
	return strings.Count(string(buf[:n]), "openExternally.func1(")
}

/* held sessions: the calls recorded so far by hook processes that are still waiting at their gate; waits
   until every hook whose goroutine exists has recorded itself */
func (v *verifSession) heldCalls() []verifkit.M {
	want := verifHookGoroutines()
	var lines []string
	for waited := 0; waited < 1500; waited++ {
		data, _ := os.ReadFile(v.dump)
		lines = strings.Split(strings.TrimSpace(string(data)), "\n")
		if len(lines) == 1 && lines[0] == "" {
			lines = nil
		}
		if len(lines) >= want {
			break
		}
		time.Sleep(2 * time.Millisecond)
	}
	fresh := lines[minInt(v.started, len(lines)):]
	v.started = len(lines)
	return v.parseCalls(fresh)
}

func minInt(a, b int) int {
	if a < b {
		return a
	}
	return b
}

/* a new gate for the hooks started from now on */
func (v *verifSession) newGate() {
	v.epoch++
	v.gate = fmt.Sprintf("%s/hookgate-%d-%d-%d", os.TempDir(), os.Getpid(), v.sid, v.epoch)
	os.Remove(v.gate)
	os.Setenv("VERIF_HOOK_GATE", v.gate)
}

/* let every held hook end, wait until they have ended and their exit has been noticed */
func (v *verifSession) releaseHooks(wait bool) {
	os.WriteFile(v.gate, []byte("open"), 0o644)
	if wait && v.started > 0 {
		for waited := 0; waited < 1000; waited++ {
			data, _ := os.ReadFile(v.dump + ".done")
			if strings.Count(string(data), "\n") >= v.started {
				break
			}
			time.Sleep(5 * time.Millisecond)
		}
		/* the processes have announced their exit; CombinedOutput returns and each completion takes the lock */
		for waited := 0; waited < 1500 && verifHookGoroutines() > 0; waited++ {
			time.Sleep(2 * time.Millisecond)
		}
	}
	os.Remove(v.dump)
	gate := v.gate
	time.AfterFunc(5*time.Second, func() { os.Remove(gate) })
	os.Remove(v.dump + ".done")
	v.started = 0
}

/* the pages of the history, through the public API of a value copy */
func verifPages(s *State) (pages []*Page, at int) {
	if s.h.IsEmpty() {
		return nil, 0
	}
	probe := s.h
	back := 0
	for {
		before := probe.Current()
		probe.Back()
		if probe.Current() == before {
			break
		}
		back++
	}
	pages = []*Page{probe.Current()}
	for {
		before := probe.Current()
		probe.Forward()
		if probe.Current() == before {
			break
		}
		pages = append(pages, probe.Current())
	}
	return pages, back + 1
}

func (v *verifSession) callback(frame string) {
	if atomic.AddInt32(&v.inCb, 1) > 1 {
		atomic.AddInt64(&v.overlap, 1)
	}
	/* the emitting goroutine must hold the UI mutex: then TryLock fails */
	if v.s != nil && v.s.m.TryLock() {
		atomic.AddInt64(&v.unheld, 1)
		v.s.m.Unlock()
		/* The mutex is free while this frame is on its way to the terminal, so the resize poller may run right
		   now: the driver plays that schedule.  The terminal changes size, the frame for the new size is
		   written (inside the nested call), and then the frame in hand - drawn for the old size - is
		   written over it.  When frames are only ever written under the mutex this never happens. */
		if v.emitFrames && atomic.CompareAndSwapInt32(&v.injecting, 0, 1) {
			done := make(chan struct{})
			go func() {
				defer close(done)
				v.resize(int(atomic.LoadInt32(&v.termW))+1, int(atomic.LoadInt32(&v.termH))+2)
			}()
			<-done
			atomic.StoreInt32(&v.injecting, 0)
		}
	}
	n := atomic.AddInt64(&v.frames, 1)
	v.mu.Lock()
	v.lastFrame = frame
	v.mu.Unlock()
	if v.emitFrames && v.s != nil {
		/* the height the terminal really has: what the driver set last; a frame racing with a resize may
		   still have the previous one (h2) */
		h, h2 := int(atomic.LoadInt32(&v.termH)), int(atomic.LoadInt32(&v.prevH))
		rows := strings.Split(frame, "\n")
		if len(rows) != h && len(rows) == h2 {
			h = h2
		}
		/* rows of the highlighted item: they start with the cursor bar */
		top, k := -1, 0
		for i, row := range rows {
			if strings.HasPrefix(verifSGRre.ReplaceAllString(row, ""), "┃") {
				if top < 0 {
					top = i
				}
				k++
			}
		}
		ev := verifkit.M{"ev": "out", "kind": "frame", "chk": []string{"noctl", "neutral", "lines", "centred"}, "w": int(atomic.LoadInt32(&v.termW)), "h": h,
			"toks": verifkit.Toks(frame, nil), "expect": verifkit.M{}, "sid": v.sid, "frame": n, "cursor_top": top, "cursor_rows": k}
		/* the status line of the mode the interface is in as this frame is drawn (the frame is handed over by the
		   goroutine that holds the state); judged when what was typed is plain text and the frame has the size asked for */
		status := ""
		switch v.s.mode {
		case selection:
			status = "Selecting " + v.s.buffer + " (press . to open internally, enter to open externally)"
		case command:
			status = ":" + v.s.buffer
		}
		plainText := status != ""
		for _, r := range v.s.buffer {
			plainText = plainText && r >= 0x20 && r < 0x7f
		}
		width := int(atomic.LoadInt32(&v.termW))
		if plainText && width >= 2 && len(rows) == h && v.s.width == width {
			want := []rune(status)
			if len(want) > width-1 {
				want = want[:width-1]
			}
			last := []rune(verifSGRre.ReplaceAllString(rows[len(rows)-1], ""))
			if len(last) > len(want) {
				last = last[:len(want)]
			}
			ev["chk"] = []string{"noctl", "neutral", "lines", "centred", "status"}
			ev["status"], ev["lastline"] = string(want), string(last)
		}
		v.mu.Lock()
		v.pending = append(v.pending, ev)
		v.mu.Unlock()
	}
	atomic.AddInt32(&v.inCb, -1)
}

/* what the terminal shows is the frame written last: after a resize that has returned, that frame is as tall as the
   terminal now is (only asked where nothing else resizes at the same time) */
func (v *verifSession) screenCheck(desc string) {
	v.mu.Lock()
	frame := v.lastFrame
	v.mu.Unlock()
	v.out.Emit(verifkit.M{"ev": "out", "kind": "frame", "chk": []string{"lines"}, "w": int(atomic.LoadInt32(&v.termW)), "h": int(atomic.LoadInt32(&v.termH)),
		"toks": verifkit.Toks(frame, nil), "expect": verifkit.M{}, "sid": v.sid, "frame": -1, "cursor_top": -1, "cursor_rows": 0, "src": "the screen after " + desc})
}

func (v *verifSession) flushFrames() {
	v.mu.Lock()
	evs := v.pending
	v.pending = nil
	v.mu.Unlock()
	for _, e := range evs {
		v.out.Emit(e)
	}
}

/* wait until nothing is in flight: not loading, no page loading up or down, no open connection, no hook running */
func (v *verifSession) settle(limit time.Duration) bool {
	deadline := time.Now().Add(limit)
	stable := 0
	for time.Now().Before(deadline) {
		quiet := v.w.sim.Open() == 0
		/* a mutex that is never released again must end in "wedged", not in a driver that waits for ever */
		if !v.s.m.TryLock() {
			stable = 0
			time.Sleep(300 * time.Microsecond)
			continue
		}
		if v.s.mode == loading || (v.s.mode == opening && !v.held) {
			quiet = false
		}
		pages, _ := verifPages(v.s)
		for _, p := range pages {
			if p.loadingUp || p.loadingDown {
				quiet = false
			}
		}
		v.s.m.Unlock()
		if quiet {
			stable++
			if stable >= 3 {
				return true
			}
		} else {
			stable = 0
		}
		time.Sleep(300 * time.Microsecond)
	}
	return false
}

func (v *verifSession) observe() verifkit.M {
	locked := false
	for waited := 0; waited < 4000 && !locked; waited++ {
		if locked = v.s.m.TryLock(); !locked {
			time.Sleep(500 * time.Microsecond)
		}
	}
	if !locked {
		return verifkit.M{"mode": "locked", "npages": 0, "at": 0, "hl": "none", "centre": "none", "pos": 0, "buflen": 0}
	}
	defer v.s.m.Unlock()
	s := v.s
	obs := verifkit.M{"mode": verifModes[s.mode], "npages": 0, "at": 0, "hl": "none", "centre": "none", "pos": 0, "buflen": len([]rune(s.buffer))}
	if s.mode == opening {
		obs["buflen"] = -1
	}
	pages, at := verifPages(s)
	obs["npages"], obs["at"] = len(pages), at
	if len(pages) == 0 {
		return obs
	}
	f := s.h.Current().feed
	obs["hl"] = verifIdent(f.Current())
	if !f.Contains(0) {
		obs["hl"] = "none"
	}
	/* position 0 (the opened item) is the offset that is neither parent nor child */
	centre, pos := "list", 0
	for d := -200; d <= 200; d++ {
		if !f.IsParent(d) && !f.IsChild(d) {
			if f.Contains(d) {
				centre, pos = verifIdent(f.Get(d)), -d
			}
			break
		}
	}
	if centre == "list" {
		pos = 1
		for d := -1; d >= -200 && f.Contains(d); d-- {
			pos++
		}
	}
	obs["centre"], obs["pos"] = centre, pos
	return obs
}

func (v *verifSession) hookCalls() []verifkit.M {
	data, err := os.ReadFile(v.dump)
	os.Remove(v.dump)
	if err != nil {
		return []verifkit.M{}
	}
	return v.parseCalls(strings.Split(strings.TrimSpace(string(data)), "\n"))
}

func (v *verifSession) parseCalls(lines []string) []verifkit.M {
	calls := []verifkit.M{}
	for _, line := range lines {
		var c struct {
			Argv  []string `json:"argv"`
			Argv0 string   `json:"argv0"`
			Stdin string   `json:"stdin"`
		}
		if json.Unmarshal([]byte(line), &c) != nil {
			continue
		}
		target := "unknown"
		for _, a := range c.Argv {
			if n, ok := v.w.name[a]; ok {
				target = n
			}
		}
		/* a hook without the address among its arguments gets it on standard input */
		if n, ok := v.w.name[c.Stdin]; ok && target == "unknown" {
			target = n
		}
		calls = append(calls, verifkit.M{"target": target, "argv": c.Argv, "argv0": c.Argv0, "stdin": c.Stdin})
	}
	return calls
}

func verifNewSession(w *verifWorld, out *verifkit.Trace, sid int, frames bool) *verifSession {
	v := &verifSession{w: w, out: out, sid: sid, emitFrames: frames}
	v.dump = fmt.Sprintf("%s/hook-%d-%d.ndjson", os.TempDir(), os.Getpid(), sid)
	os.Setenv("VERIF_DUMP", v.dump)
	os.Remove(v.dump)
	v.termW, v.termH, v.prevH = 80, 24, 24
	v.s = NewState(80, 24, v.callback)
	return v
}

func (v *verifSession) resize(w, h int) {
	/* while the call is in progress a frame may have the old or the new size */
	atomic.StoreInt32(&v.prevH, atomic.LoadInt32(&v.termH))
	atomic.StoreInt32(&v.termW, int32(w))
	atomic.StoreInt32(&v.termH, int32(h))
	v.s.SetWidthHeight(w, h)
	/* from here on every frame must have the new size */
	atomic.StoreInt32(&v.prevH, int32(h))
}

/* open a page while its document is withheld by the server, resize meanwhile, then let it load */
func (v *verifSession) openGated(target string, w, h int) error {
	host := v.w.h
	gate := make(chan struct{})
	held := host.Gated(target, gate)
	err := v.s.Subcommand("open", host.URL(target))
	if err == nil && held {
		time.Sleep(2 * time.Millisecond)
		v.resize(w, h)
	}
	close(gate)
	host.Ungate(target)
	return err
}

func (v *verifSession) press(tok string, bytes []byte) (panicked bool, what string, wedged bool) {
	/* a key that never returns (a mutex that was not released) must end in "wedged", not in a driver that hangs */
	type outcome struct {
		panicked bool
		what     string
	}
	done := make(chan outcome, 1)
	go func() {
		var o outcome
		o.panicked, o.what = verifkit.Try(func() {
			for _, b := range bytes {
				v.s.Update(b)
			}
		})
		done <- o
	}()
	select {
	case o := <-done:
		panicked, what = o.panicked, o.what
	case <-time.After(12 * time.Second):
		return false, "the key did not return", true
	}
	if panicked {
		return
	}
	wedged = !v.settle(8 * time.Second)
	return
}

/* every connection made while browsing, for the request monitor (C04) */
func verifEmitConns(out *verifkit.Trace, w *verifWorld, mark *int) {
	w.sim.Quiesce(time.Second)
	for _, ev := range w.sim.PlainConnEvents(*mark, func(*verifsim.ConnLog) string { return verifsim.AcceptActivity }) {
		out.Emit(ev)
	}
	*mark = w.sim.ConnCount()
}

/* the hook as start-up left it (before any driver overrides it) */
var verifConfiguredHook []string

func verifSetup(t *testing.T) (*verifWorld, *verifkit.Trace) {
	if verifConfiguredHook == nil {
		verifConfiguredHook = append([]string{}, config.Parsed.Media.Hook...)
	}
	sim := verifsim.Get()
	jtp.VerifSetTimeout(3 * time.Second)
	jtp.VerifSetCache(256)
	w := verifBuildWorld(sim)
	config.Parsed.Feeds = map[string][]string{"f": {w.h.URL("/users/alice"), w.h.URL("/users/bob")}}
	if os.Getenv("VERIF_WORLD") == "w2" {
		w = verifBuildWorld2(sim)
		config.Parsed.Feeds = map[string][]string{"f": {w.h.URL("/users/carol"), w.h.URL("/groups/grp")}}
	}
	verifCurrentWorld = w
	config.Parsed.Network.Context = 2
	config.Parsed.Media.Hook = []string{os.Args[0], "--verif-hook", "%url", "%mimetype"}
	return w, verifkit.Out()
}

func TestVerifKeys(t *testing.T) {
	var in struct {
		Sessions [][]string `json:"sessions"`
		Wild     int        `json:"wild"`
		Frames   bool       `json:"frames"`
		Every    int        `json:"frame_every"`
	}
	verifkit.In(&in)
	w, out := verifSetup(t)
	defer out.Close()
	defer w.sim.Cleanup()
	rng := verifkit.Rand()
	if in.Every < 1 {
		in.Every = 1
	}
	connMark := w.sim.ConnCount()
	sid := 0
	for _, toks := range in.Sessions {
		sid++
		/* every third session with a hook that names no %url: the address travels on standard input, whatever other
		   placeholders the hook has */
		if sid%3 == 1 {
			config.Parsed.Media.Hook = []string{os.Args[0], "--verif-hook", "--kind", "%supertype", "%subtype"}
		} else {
			config.Parsed.Media.Hook = []string{os.Args[0], "--verif-hook", "%url", "%mimetype"}
		}
		v := verifNewSession(w, out, sid, in.Frames && sid%in.Every == 0)
		v.held = strings.HasPrefix(toks[0], "hstart_")
		os.Unsetenv("VERIF_HOOK_GATE")
		os.Remove(v.dump + ".done")
		if v.held {
			v.newGate()
		}
		/* "gstart_": a document the page's background load needs is withheld by the server; the keys up to the token
		   "resync" arrive while that load is in flight and are not waited for */
		gated := strings.HasPrefix(toks[0], "gstart_")
		start := strings.TrimPrefix(strings.TrimPrefix(strings.TrimPrefix(toks[0], "h"), "g"), "start_")
		target := map[string]string{"a": w.startA, "p": w.startP}[start]
		lens := verifkit.M{}
		for _, macro := range []string{"open_a", "open_p", "open_c", "open_bad", "open_empty", "feed_f", "feed_u", "bad_cmd"} {
			lens[macro] = len(w.expand(macro))
		}
		out.Emit(verifkit.M{"ev": "reset", "sid": sid, "start": start, "keys": toks[1:], "lens": lens})
		var err error
		if gated {
			jtp.VerifSetCache(256)
			withheld := map[string]string{"w1": "/notes/n3", "w2": "/notes/q2"}[w.id]
			gate := make(chan struct{})
			w.h.Gated(withheld, gate)
			err = v.s.Subcommand("open", w.h.URL(target))
			for waited := 0; err == nil && waited < 600; waited++ {
				v.s.m.Lock()
				shown := v.s.mode != loading
				v.s.m.Unlock()
				if shown {
					break
				}
				time.Sleep(5 * time.Millisecond)
			}
			rest := toks[1:]
			for len(rest) > 0 && rest[0] != "resync" {
				tok := rest[0]
				rest = rest[1:]
				verifkit.Try(func() {
					for _, b := range w.expand(tok) {
						v.s.Update(b)
					}
				})
				time.Sleep(3 * time.Millisecond)
				out.Emit(verifkit.M{"ev": "unsettled", "k": tok})
			}
			close(gate)
			w.h.Ungate(withheld)
			wedged := !v.settle(8 * time.Second)
			out.Emit(verifkit.M{"ev": "resync", "obs": v.observe(), "wedged": wedged})
			v.flushFrames()
			if len(rest) > 0 {
				rest = rest[1:]
			}
			toks = append([]string{toks[0]}, rest...)
			if wedged {
				continue
			}
		} else if in.Frames && sid%2 == 0 {
			jtp.VerifSetCache(256) /* the page must really be fetched for the gate to hold it */
			err = v.openGated(target, 50+rng.Intn(60), 5+rng.Intn(40))
		} else {
			early := sid%3 == 0 && !v.held
			if early {
				jtp.VerifSetCache(256) /* the page must really be fetched: keys arrive while it is */
			}
			err = v.s.Subcommand("open", w.h.URL(target))
			if err == nil && early {
				/* keys typed while the first page is being fetched are dropped, Escape included; none of them may crash */
				dropped := false
				for _, b := range []byte{27, 'j', ':', 27, '1', '\r', 27} {
					fetching := false
					if v.s.m.TryLock() {
						fetching = v.s.mode == loading
						v.s.m.Unlock()
					}
					if !fetching {
						break
					}
					if panicked, what := verifkit.Try(func() { v.s.Update(b) }); panicked {
						out.Emit(verifkit.M{"ev": "key", "k": "esc", "hooks": []verifkit.M{}, "held": false, "panic": true, "wedged": false, "what": "a key typed while the first page was being fetched: " + what,
							"obs": verifkit.M{"mode": "panic", "npages": 0, "at": 0, "hl": "none", "centre": "none", "pos": 0, "buflen": 0}, "frames": 0, "unheld": 0, "overlap": 0})
						dropped = true
						break
					}
				}
				if dropped {
					continue
				}
			}
		}
		if err != nil || !v.settle(8*time.Second) {
			out.Emit(verifkit.M{"ev": "key", "k": "start", "obs": v.observe(), "hooks": []verifkit.M{}, "held": false, "panic": false, "wedged": true, "frames": v.frames, "unheld": v.unheld, "overlap": v.overlap})
			continue
		}
		v.hookCalls()
		for i, tok := range toks[1:] {
			if in.Frames && i%5 == 4 {
				/* a terminal resize between keys: no effect on the abstract state */
				if rng.Intn(6) == 0 {
					v.resize(1+rng.Intn(14), 2+rng.Intn(12))
				} else {
					v.resize(40+rng.Intn(80), 2+rng.Intn(40))
				}
			}
			if tok == "hookexit" {
				v.releaseHooks(true)
				wedged := !v.settle(8 * time.Second)
				v.newGate()
				out.Emit(verifkit.M{"ev": "hookexit", "obs": v.observe(), "wedged": wedged})
				v.flushFrames()
				if wedged {
					break
				}
				continue
			}
			panicked, what, wedged := v.press(tok, w.expand(tok))
			var calls []verifkit.M
			if v.held {
				calls = v.heldCalls()
			} else {
				calls = v.hookCalls()
			}
			ev := verifkit.M{"ev": "key", "k": tok, "hooks": calls, "held": v.held, "panic": panicked, "wedged": wedged,
				"frames": atomic.LoadInt64(&v.frames), "unheld": atomic.LoadInt64(&v.unheld), "overlap": atomic.LoadInt64(&v.overlap)}
			if panicked {
				ev["what"] = what
				ev["obs"] = verifkit.M{"mode": "panic", "npages": 0, "at": 0, "hl": "none", "centre": "none", "pos": 0, "buflen": 0}
			} else {
				ev["obs"] = v.observe()
			}
			v.flushFrames()
			out.Emit(ev)
			if panicked || wedged {
				break
			}
		}
		if v.held {
			v.releaseHooks(true)
			os.Unsetenv("VERIF_HOOK_GATE")
		}
		v.flushFrames()
		verifEmitConns(out, w, &connMark)
	}
	if in.Frames {
		verifStatusLine(w, out, &sid, rng)
	}
	/* wild sessions: arbitrary bytes, long numbers, commands with garbage */
	alphabet := []byte("jkghl carobp.:0123456789\r\x1b\x7fzZ/@ ~\x00\xff\x80\t")
	for i := 0; i < in.Wild; i++ {
		sid++
		v := verifNewSession(w, out, sid, in.Frames && sid%in.Every == 0)
		starts := []string{"/users/alice", "/notes/n2", "/notes/n1", "/users/bob", "/missing", "/users/bob/outbox", "/notes/n1/replies"}
		if w.id == "w2" {
			starts = []string{"/users/carol", "/notes/m2", "/notes/m3", "/groups/grp", "/missing", "/users/carol/outbox", "/users/carol/outbox?page=2", "/notes/m4/replies", "/notes/q1"}
		}
		start := starts[rng.Intn(len(starts))]
		n := 5 + rng.Intn(60)
		keys := make([]byte, n)
		for j := range keys {
			keys[j] = alphabet[rng.Intn(len(alphabet))]
		}
		if rng.Intn(3) == 0 {
			copy(keys, []byte("99999999999999999999\r"))
		}
		var panicked, wedged bool
		var what string
		if rng.Intn(6) == 0 {
			panicked, what = verifkit.Try(func() { v.s.Subcommand("feed", "f") })
		} else {
			panicked, what = verifkit.Try(func() { v.s.Subcommand("open", w.h.URL(start)) })
		}
		wedged = !panicked && !v.settle(8*time.Second)
		done := 0
		for _, b := range keys {
			if panicked || wedged {
				break
			}
			panicked, what, wedged = v.press(string(b), []byte{b})
			done++
			if done%7 == 0 {
				/* also terminals only a few columns wide, and very wide ones */
				switch rng.Intn(5) {
				case 0:
					v.resize(1+rng.Intn(12), 2+rng.Intn(20))
				case 1:
					v.resize(200+rng.Intn(400), 2+rng.Intn(70))
				default:
					v.resize(20+rng.Intn(100), 2+rng.Intn(50))
				}
			}
		}
		v.hookCalls()
		v.flushFrames()
		verifEmitConns(out, w, &connMark)
		out.Emit(verifkit.M{"ev": "wild", "sid": sid, "start": start, "keys": verifkit.Clip(fmt.Sprintf("%q", keys), 300), "done": done, "panic": panicked, "wedged": wedged, "what": what,
			"frames": atomic.LoadInt64(&v.frames), "unheld": atomic.LoadInt64(&v.unheld), "overlap": atomic.LoadInt64(&v.overlap)})
	}
}

/*
	The status line at, just below and just above the width of the terminal: a command typed key by key
	(with line feeds, tabs, bells and C1 controls among the keys) passes through every length, and a
	failing hook's verbatim output is shown on terminals exactly as wide as the message.  Every frame
	goes to the frame monitors; a draw that panics hands no frame to the terminal at all.
*/
func verifStatusLine(w *verifWorld, out *verifkit.Trace, sid *int, rng *rand.Rand) {
	/* (bytes from 0xA0 on are typed as two-byte characters: a cut that counts characters but slices bytes splits them) */
	pattern := []byte{'a', 10, 'b', 9, 0x9b, '3', '1', 'm', 'c', 7, 'd', 0x85, ' ', 'e', 10, 10, 'f', 0x90, 'g', 12, 'h', 11, 0xe9, 0xfc, 'i', 0xdf, 0xe9, 0xe9, 0xf1}
	for _, width := range []int{17, 24, 31} {
		*sid++
		v := verifNewSession(w, out, *sid, true)
		if err := v.s.Subcommand("open", w.h.URL(w.startA)); err != nil || !v.settle(8*time.Second) {
			continue
		}
		v.resize(width, 7+rng.Intn(5))
		typed := []byte{':'}
		for k := 0; k < 2*width; k++ {
			typed = append(typed, pattern[(k+width)%len(pattern)])
		}
		panicked, what := false, ""
		done := 0
		for _, b := range typed {
			panicked, what, _ = v.press(string(b), []byte{b})
			done++
			if panicked {
				break
			}
		}
		v.flushFrames()
		out.Emit(verifkit.M{"ev": "status", "sid": *sid, "scenario": "command typed key by key", "w": width, "typed": done, "panic": panicked, "what": what})
	}
	/* a resize right after a key, and two resizes in a row: what is on the screen afterwards has the new height */
	for round := 0; round < 12; round++ {
		*sid++
		v := verifNewSession(w, out, *sid, true)
		if err := v.s.Subcommand("open", w.h.URL(w.startA)); err != nil || !v.settle(8*time.Second) {
			continue
		}
		for k, key := range []byte{'j', 'k', ':', 27, '1', 27} {
			v.s.Update(key)
			v.resize(40+round, 9+k+round%3)
			v.screenCheck("a key and a resize")
			v.resize(41+round, 5+k)
			v.resize(39+round, 14-k)
			v.screenCheck("two resizes in a row")
			if key == 'j' && round%2 == 0 {
				time.Sleep(12 * time.Millisecond)
			}
		}
		v.settle(3 * time.Second)
		v.flushFrames()
	}
	/* "Opening <address>" cut to every width, for an address made of three-byte characters */
	for width := 24; width <= 64; width += 1 + rng.Intn(3) {
		*sid++
		v := verifNewSession(w, out, *sid, true)
		if err := v.s.Subcommand("open", w.h.URL("/notes/uni")); err != nil || !v.settle(8*time.Second) {
			continue
		}
		v.resize(width, 8)
		panicked, what, _ := v.press("1", []byte{'1'})
		if !panicked {
			panicked, what, _ = v.press("enter", []byte{'\r'})
		}
		v.hookCalls()
		v.flushFrames()
		out.Emit(verifkit.M{"ev": "status", "sid": *sid, "scenario": "opening an address of multi-byte characters", "w": width, "typed": 2, "panic": panicked, "what": what})
	}
	/* the smallest terminal (two rows), also with nothing highlighted: every mode that has a status line */
	for _, page := range []string{"/empty", w.startA, "/missing"} {
		for _, height := range []int{2, 3} {
			*sid++
			v := verifNewSession(w, out, *sid, true)
			if err := v.s.Subcommand("open", w.h.URL(page)); err != nil || !v.settle(8*time.Second) {
				continue
			}
			v.resize(20+rng.Intn(30), height)
			panicked, what := false, ""
			done := 0
			for _, b := range []byte{':', 'o', 'p', 27, '1', '2', 127, 127, ':', 'x', '\r', 'j', 'p', 27} {
				panicked, what, _ = v.press(string(b), []byte{b})
				done++
				if panicked {
					break
				}
			}
			v.hookCalls()
			v.flushFrames()
			out.Emit(verifkit.M{"ev": "status", "sid": *sid, "scenario": fmt.Sprintf("status line on %d rows, page %s", height, page), "w": 0, "typed": done, "panic": panicked, "what": what})
		}
	}
	defer os.Unsetenv("VERIF_HOOK_FAIL")
	defer os.Unsetenv("VERIF_HOOK_OUTPUT")
	for i, output := range []string{"\x1b[5;31mno such viewer\x1b[0m", "first line\nsecond line\n", "tab\there \x07bell \u009b7m c1", "plain failure"} {
		message := "Failed to open link: " + output
		long := len([]rune(message))
		for _, width := range []int{long - 1, long, long + 1, long - 9} {
			*sid++
			v := verifNewSession(w, out, *sid, true)
			os.Setenv("VERIF_HOOK_FAIL", "1")
			os.Setenv("VERIF_HOOK_OUTPUT", output)
			if err := v.s.Subcommand("open", w.h.URL(w.startA)); err != nil || !v.settle(8*time.Second) {
				continue
			}
			v.resize(width, 6+rng.Intn(6))
			panicked, what, wedged := v.press("p", []byte{'p'})
			calls := v.hookCalls()
			v.flushFrames()
			out.Emit(verifkit.M{"ev": "status", "sid": *sid, "scenario": fmt.Sprintf("failing hook, output %d", i), "w": width, "typed": len(calls), "panic": panicked || wedged, "what": what})
		}
	}
}

/*
	C05 at the level of the interface: the fetch of a reply stalls until the timeout while the user moves to another
	page and comes back.  The load must end on the page that asked for it, as an error item there.
*/
func TestVerifFaultNav(t *testing.T) {
	w, out := verifSetup(t)
	defer out.Close()
	defer w.sim.Cleanup()
	jtp.VerifSetTimeout(time.Second)
	u := w.h.URL
	for round, fault := range []string{"stall", "cut", "stall"} {
		jtp.VerifSetCache(64)
		note := fmt.Sprintf("/notes/fn%d", round)
		reply := fmt.Sprintf("/notes/fn%d/r1", round)
		w.put(note, map[string]any{"type": "Note", "name": "fn", "content": "<p>x</p>",
			"replies": map[string]any{"id": u(note + "/replies"), "type": "Collection", "items": []any{u(reply)}}})
		w.h.Set(reply, &verifsim.Route{Raw: []byte("HTTP/1.1 200 OK\r\nContent-Type: application/activity+json\r\n\r\n{\"type\":\"Note\",\"content\":\"reply\"}"), Fault: fault, At: 30})
		v := verifNewSession(w, out, 9000+round, false)
		start := time.Now()
		outcome := "timeout"
		if err := v.s.Subcommand("open", u(note)); err == nil {
			for waited := 0; waited < 600; waited++ {
				v.s.m.Lock()
				shown := v.s.mode != loading
				v.s.m.Unlock()
				if shown {
					break
				}
				time.Sleep(5 * time.Millisecond)
			}
			/* away to another page while the reply is being fetched, and back after the fetch has given up */
			v.s.Subcommand("open", u(w.startA))
			time.Sleep(2500 * time.Millisecond)
			if _, _, wedged := v.press("h", []byte{'h'}); !wedged {
				v.press("j", []byte{'j'})
				if obs := v.observe(); obs["hl"] == "fail" {
					outcome = "err"
				} else {
					outcome = "nodoc" /* the load ended, but the page that asked shows no error item */
				}
			}
		}
		elapsed := time.Since(start)
		out.Emit(verifkit.M{"ev": "fault", "id": fmt.Sprintf("nav-%d", round), "hops": 0, "hop": 0, "kind": "nav-" + fault, "at": 30, "stage": "interface", "big": false,
			"outcome": outcome, "whole": false, "ticks": 0, "ms": elapsed.Milliseconds(), "err": "", "again": "skipped"})
	}
}

/*
	C20: every hook configuration from TLC (Gen_Hook) x every link the hook world offers
	(body links, attachments with media types, post media, profile picture, banner - with
	spaces, quotes, leading dashes, $(), backticks and text that looks like a placeholder).
*/
/* what a numbered link of the hook world really is: the address as the document gives it and its media type */
type verifTruth struct {
	link                  string
	essence, super, sub   string
	known                 bool // media type known from the document (else: read through the accessor)
}

/* an address parsed and written out again by net/url (what a program that keeps addresses as parsed URLs passes on) */
func verifNormal(address string) string {
	parsed, err := url.Parse(address)
	if err != nil {
		return address
	}
	return parsed.String()
}

func verifHookWorld(w *verifWorld) (postURL string, actorURL string, truth []verifTruth) {
	u := w.h.URL
	hrefs := []string{u("/plain"), u("/with space"), "--leading-dash", "$(touch /tmp/verif-pwned)", "`id`", "%url", "%mimetype",
		"'single' \"double\"", u("/a?b=c&d=%25e#frag"), "; rm -rf /tmp/x", "a\\b", "%subtype/%url", "-", "ünïcödé ☃",
		/* text that reads like a character reference once more: the address is decoded once, by the HTML parser */
		u("/q?page=2&copy=3&lt=4&reg=eu"), u("/AT&amp;T/x?a=1&amp;b=2"), "&#65;&quot;",
		/* format characters (zero width non-joiner, as Persian and Indic addresses have it; a soft hyphen) are part of the address */
		u("/می\u200cخواهم/نمی\u200cدانم"), "https://ex\u00adample.org/a\u200db"}
	content := "<p>"
	for i, h := range hrefs {
		content += fmt.Sprintf(`<a href="%s">link%d</a> `, strings.NewReplacer("&", "&amp;", `"`, "&quot;").Replace(h), i)
		truth = append(truth, verifTruth{h, "*/*", "*", "*", true})
	}
	content += "</p>"
	w.put("/notes/hk", map[string]any{"type": "Video", "name": "hk", "attributedTo": u("/users/carol"), "published": "2024-01-01T00:00:00Z",
		"content": content,
		"url": []any{map[string]any{"type": "Link", "href": u("/media/big file.mp4"), "mediaType": "video/mp4", "width": 10, "height": 10},
			map[string]any{"type": "Link", "href": u("/media/page.html"), "mediaType": "text/html"}},
		"attachment": []any{
			map[string]any{"type": "Link", "href": u("/att/one two.png"), "mediaType": "image/png", "name": "first"},
			map[string]any{"type": "Document", "url": u("/att/doc?x=$(id)"), "mediaType": "%subtype/%url", "name": "second"},
			map[string]any{"type": "Image", "url": u("/att/noType"), "name": "third"},
			map[string]any{"type": "Link", "href": u("/att/weird"), "mediaType": "x-%url/%mimetype+%supertype", "name": "fourth"},
			map[string]any{"type": "Document", "url": u("/att/untyped doc"), "name": "fifth"},
			map[string]any{"type": "Document", "url": "https://CDN.Example.ORG/Videos/Clip.mp4?X-Sig=AbC%2Fd&n=1"},
			map[string]any{"type": "Link", "href": "https://Media.Example.org/stream.m3u8", "mediaType": "application/x-mpegURL", "name": "seventh"},
			map[string]any{"type": "Document", "url": u("/att/می\u200cخواهم"), "name": "eighth"},
			/* media types that cannot be read: the kind of the attachment says what it is */
			map[string]any{"type": "Image", "url": u("/att/badtype.jpg"), "mediaType": "jpeg", "name": "ninth"},
			map[string]any{"type": "Video", "url": u("/att/badtype.mp4"), "mediaType": "/mp4", "name": "tenth"},
			/* media types with characters that are rare in them but allowed */
			map[string]any{"type": "Link", "href": u("/att/odd1"), "mediaType": "application/x-john's~format", "name": "eleventh"},
			map[string]any{"type": "Link", "href": u("/att/odd2"), "mediaType": "image/x*y|z", "name": "twelfth"}}})
	/* addresses of attachments are parsed and written out again (a blank becomes %20): the same address in the
	   normal form of net/url, computed here from the document; media types as the document settles them */
	truth = append(truth, verifTruth{verifNormal(u("/att/one two.png")), "image/png", "image", "png", true}, verifTruth{link: verifNormal(u("/att/doc?x=$(id)"))},
		verifTruth{verifNormal(u("/att/noType")), "image/*", "image", "*", true}, verifTruth{link: verifNormal(u("/att/weird"))},
		verifTruth{verifNormal(u("/att/untyped doc")), "*/*", "*", "*", true},
		verifTruth{verifNormal("https://CDN.Example.ORG/Videos/Clip.mp4?X-Sig=AbC%2Fd&n=1"), "*/*", "*", "*", true},
		verifTruth{verifNormal("https://Media.Example.org/stream.m3u8"), "application/x-mpegURL", "application", "x-mpegURL", true},
		verifTruth{verifNormal(u("/att/می\u200cخواهم")), "*/*", "*", "*", true},
		verifTruth{verifNormal(u("/att/badtype.jpg")), "image/*", "image", "*", true}, verifTruth{verifNormal(u("/att/badtype.mp4")), "video/*", "video", "*", true},
		verifTruth{verifNormal(u("/att/odd1")), "application/x-john's~format", "application", "x-john's~format", true},
		verifTruth{verifNormal(u("/att/odd2")), "image/x*y|z", "image", "x*y|z", true})
	w.put("/users/carol", map[string]any{"type": "Person", "name": "carol", "preferredUsername": "carol",
		"icon": map[string]any{"type": "Image", "url": "https://IMG.Example.ORG/Avatars/Carol Icon.png", "mediaType": "Image/PNG"},
		"image": []any{map[string]any{"type": "Image", "url": u("/media/banner-$(x).jpg")}, map[string]any{"type": "Link", "href": u("/media/small.gif"), "mediaType": "image/gif", "width": 1, "height": 1}}})
	return u("/notes/hk"), u("/users/carol"), truth
}

func TestVerifHook(t *testing.T) {
	var in struct {
		Hooks [][]string `json:"hooks"`
	}
	verifkit.In(&in)
	w, out := verifSetup(t)
	defer out.Close()
	defer w.sim.Cleanup()
	postURL, actorURL, truth := verifHookWorld(w)
	sid := 0
	/* the hook program by its bare name, found through PATH (as the default, xdg-open, is): a link to this binary */
	bare := fmt.Sprintf("verifhook%d", os.Getpid())
	bindir, _ := os.MkdirTemp("", "verifbin")
	defer os.RemoveAll(bindir)
	haveBare := os.Symlink(os.Args[0], bindir+"/"+bare) == nil
	/* programs whose very names read like placeholders: the program name is never substituted */
	for _, odd := range []string{"%url", "%mimetype", "%subtype", "%supertype"} {
		haveBare = haveBare && os.Symlink(os.Args[0], bindir+"/"+odd) == nil
	}
	if haveBare {
		os.Setenv("PATH", bindir+":"+os.Getenv("PATH"))
	}
	for hi, args := range in.Hooks {
		program := os.Args[0]
		if haveBare && hi%2 == 1 && os.Getenv("VERIF_HOOK_FROM_CONFIG") == "" {
			program = bare
			if hi%6 == 5 {
				program = []string{"%url", "%mimetype", "%subtype", "%supertype"}[(hi/6)%4]
			}
		}
		hook := append([]string{program, "--verif-hook"}, args...)
		if os.Getenv("VERIF_HOOK_FROM_CONFIG") != "" {
			/* this process was started with a configuration file naming exactly this hook: what start-up made
			   of it is what runs; `hook` stays the command as configured */
			config.Parsed.Media.Hook = verifConfiguredHook
		} else {
			config.Parsed.Media.Hook = hook
		}
		/* posts that are media by their kind, with links that do not say what they are: the kind of the post says it */
		kinds := map[string][2]string{}
		for _, kd := range [][3]string{{"/notes/hv", "Video", "video"}, {"/notes/ha", "Audio", "audio"}, {"/notes/hi", "Image", "image"}} {
			target := w.h.URL("/media/raw " + kd[2])
			var links any = map[string]any{"type": "Link", "href": target}
			if kd[1] == "Audio" {
				links = []any{map[string]any{"type": "Link", "href": target}, map[string]any{"type": "Link", "href": w.h.URL("/media/other")}}
			}
			w.put(kd[0], map[string]any{"type": kd[1], "name": kd[2], "published": "2024-01-01T00:00:00Z", "content": "<p>plain</p>", "url": links})
			kinds[w.h.URL(kd[0])] = [2]string{verifNormal(target), kd[2]}
		}
		pages := []string{postURL, actorURL}
		if hi%3 == 0 {
			pages = append(pages, w.h.URL("/notes/hv"), w.h.URL("/notes/ha"), w.h.URL("/notes/hi"))
		}
		for _, page := range pages {
			sid++
			v := verifNewSession(w, out, sid, false)
			if err := v.s.Subcommand("open", page); err != nil || !v.settle(8*time.Second) {
				out.Emit(verifkit.M{"ev": "hook", "hook": hook, "link": "", "mt": verifkit.M{"essence": "", "supertype": "", "subtype": ""}, "calls": []verifkit.M{}, "panic": true, "what": "page did not load"})
				continue
			}
			v.hookCalls()
			item := v.s.h.Current().feed.Current()
			type probe struct {
				keys string
				link string
				mt   verifkit.M
				ok   bool
			}
			probes := []probe{}
			mtOf := func(link string, essence, super, sub string, present bool) probe {
				return probe{link: link, mt: verifkit.M{"essence": essence, "supertype": super, "subtype": sub}, ok: present}
			}
			if post, isPost := item.(*pub.Post); isPost {
				for k := 1; k <= 40; k++ {
					link, mt, present := post.SelectLink(k)
					if !present {
						break
					}
					p := mtOf(link, mt.Essence, mt.Supertype, mt.Subtype, true)
					/* the address as the document gives it, and the media type where the document settles it */
					if k <= len(truth) {
						if truth[k-1].link != "" {
							p.link = truth[k-1].link
						}
						if truth[k-1].known {
							p = mtOf(p.link, truth[k-1].essence, truth[k-1].super, truth[k-1].sub, true)
						}
					}
					p.keys = fmt.Sprintf("%d\r", k)
					probes = append(probes, p)
				}
				if link, mt, present := post.Media(); present {
					p := mtOf(link, mt.Essence, mt.Supertype, mt.Subtype, true)
					p.link = verifNormal(w.h.URL("/media/big file.mp4"))
					if kd, byKind := kinds[page]; byKind {
						p = mtOf(kd[0], kd[1]+"/*", kd[1], "*", true)
					}
					p.keys = "o"
					probes = append(probes, p)
				}
			}
			if actor, isActor := item.(*pub.Actor); isActor {
				if _, _, present := actor.ProfilePic(); present {
					p := mtOf(verifNormal("https://IMG.Example.ORG/Avatars/Carol Icon.png"), "Image/PNG", "Image", "PNG", true)
					p.keys = "p"
					probes = append(probes, p)
				}
				if link, mt, present := actor.Banner(); present {
					p := mtOf(link, mt.Essence, mt.Supertype, mt.Subtype, true)
					p.keys = "b"
					probes = append(probes, p)
				}
			}
			for _, p := range probes {
				panicked, what, wedged := v.press(p.keys, []byte(p.keys))
				calls := []verifkit.M{}
				for _, c := range v.hookCalls() {
					/* argv as the program really received it, its own name included */
					argv := append([]string{c["argv0"].(string), "--verif-hook"}, c["argv"].([]string)...)
					calls = append(calls, verifkit.M{"argv": argv, "stdin": c["stdin"]})
				}
				ev := verifkit.M{"ev": "hook", "hook": hook, "link": p.link, "mt": p.mt, "calls": calls, "keys": p.keys, "panic": panicked || wedged}
				if panicked {
					ev["what"] = what
				}
				out.Emit(ev)
				if panicked || wedged {
					break
				}
			}
			/* two opens in quick succession: the second key arrives before the program of the first has been
			   started; each program must still get its own link.  Once with the second key handled before the
			   goroutine of the first open gets to run at all (one processor), once as it comes. */
			for round := 0; round < 2 && len(probes) >= 2; round++ {
				a, b := probes[(hi+round)%len(probes)], probes[(hi+round+1)%len(probes)]
				if a.link == b.link {
					continue
				}
				prev := 0
				if round == 0 {
					prev = runtime.GOMAXPROCS(1)
				}
				panicked, what, wedged := v.press("burst", []byte(a.keys+b.keys))
				if round == 0 {
					runtime.GOMAXPROCS(prev)
				}
				raw := []verifkit.M{}
				/* wait for both records without taking the file away under a program that is still writing */
				for waited := 0; waited < 600 && !panicked && !wedged; waited++ {
					data, _ := os.ReadFile(v.dump)
					if strings.Count(string(data), "\n") >= 2 {
						break
					}
					time.Sleep(5 * time.Millisecond)
				}
				v.settle(3 * time.Second)
				time.Sleep(20 * time.Millisecond)
				raw = append(raw, v.hookCalls()...)
				mentions := func(c verifkit.M, link string) bool {
					if c["stdin"] == link {
						return true
					}
					for _, arg := range c["argv"].([]string) {
						if arg == link {
							return true
						}
					}
					return false
				}
				for _, p := range []probe{a, b} {
					/* the call that carries this link, if there is one; otherwise whichever is left */
					pick := -1
					for i, c := range raw {
						if mentions(c, p.link) {
							pick = i
							break
						}
					}
					if pick < 0 && len(raw) > 0 {
						pick = 0
					}
					calls := []verifkit.M{}
					if pick >= 0 {
						c := raw[pick]
						raw = append(raw[:pick], raw[pick+1:]...)
						calls = append(calls, verifkit.M{"argv": append([]string{c["argv0"].(string), "--verif-hook"}, c["argv"].([]string)...), "stdin": c["stdin"]})
					}
					ev := verifkit.M{"ev": "hook", "hook": hook, "link": p.link, "mt": p.mt, "calls": calls, "keys": a.keys + b.keys, "burst": true, "panic": panicked || wedged}
					if panicked {
						ev["what"] = what
					}
					out.Emit(ev)
				}
				if panicked || wedged {
					break
				}
			}
		}
	}
}

/*
	C19 probe: this test runs in a child process whose configuration file was generated by the
	check (XDG_CONFIG_HOME).  If start-up accepted the file, it lives through a first fetch, a
	first render, a first page load with movement, a first external open and a first feed, and
	reports each step.  A crash of the process is seen by the parent.
*/
func TestVerifConfigProbe(t *testing.T) {
	out := verifkit.Out()
	defer out.Close()
	split := func(s string) []int {
		parts := strings.Split(s, ";")
		ints := make([]int, len(parts))
		for i, p := range parts {
			n := 0
			if _, err := fmt.Sscanf(p, "%d", &n); err != nil || fmt.Sprint(n) != p {
				n = -1
			}
			ints[i] = n
		}
		return ints
	}
	c := config.Parsed.Style.Colors
	out.Emit(verifkit.M{"ev": "start", "colours": [][]int{split(c.Primary), split(c.Error), split(c.Highlight), split(c.Code)},
		"hook": config.Parsed.Media.Hook, "context": config.Parsed.Network.Context, "cache": config.Parsed.Network.CacheSize,
		"timeout_ms": verifTimeoutMs(config.Parsed.Network.Timeout)})
	sim := verifsim.Get()
	defer sim.Cleanup()
	w := verifBuildWorld(sim)
	/* the feeds of the configuration file stay (one of them may list nothing); one is added */
	if config.Parsed.Feeds == nil {
		config.Parsed.Feeds = map[string][]string{}
	}
	config.Parsed.Feeds["f"] = []string{w.h.URL("/users/alice"), w.h.URL("/users/bob")}
	w.put("/notes/att", map[string]any{"type": "Note", "name": "att", "content": "<p>attachments whose media type says little</p>", "attachment": []any{
		map[string]any{"type": "Image", "url": w.h.URL("/a/1.png"), "mediaType": "png"},
		map[string]any{"type": "Document", "url": w.h.URL("/a/2"), "mediaType": "text/"},
		map[string]any{"type": "Link", "href": w.h.URL("/a/3"), "mediaType": 5},
		map[string]any{"type": "Video", "url": w.h.URL("/a/4")}}})
	step := func(name string, f func() string) {
		out.Emit(verifkit.M{"ev": "step_begin", "step": name})
		outcome := "ok"
		panicked, what := verifkit.Try(func() { outcome = f() })
		if panicked {
			outcome = "panic"
		}
		out.Emit(verifkit.M{"ev": "step", "step": name, "outcome": outcome, "what": what})
	}
	var item pub.Tangible
	step("fetch", func() string {
		item = pub.NewTangible(w.h.URL("/users/alice"), nil)
		if _, failed := item.(*pub.Failure); failed {
			return "error"
		}
		return "ok"
	})
	step("render", func() string {
		text := item.String(80) + "\n" + item.Preview(40) + "\n" + item.Name()
		out.Emit(verifkit.M{"ev": "out", "kind": "config-render", "chk": []string{"noctl", "neutral"}, "w": 80, "h": 0, "toks": verifkit.Toks(text, nil), "expect": verifkit.M{}, "ops": []string{}, "src": "config probe"})
		return "ok"
	})
	v := verifNewSession(w, out, 1, false)
	step("load", func() string {
		if err := v.s.Subcommand("open", w.h.URL("/users/alice")); err != nil {
			return "error"
		}
		if !v.settle(15 * time.Second) {
			return "hang"
		}
		for _, b := range []byte("jjk gh") {
			v.s.Update(b)
			if !v.settle(15 * time.Second) {
				return "hang"
			}
		}
		return "ok"
	})
	step("open", func() string {
		v.s.Update('l')
		v.s.Update('g')
		v.s.Update('p')
		if !v.settle(15 * time.Second) {
			return "hang"
		}
		return "ok"
	})
	step("feed", func() string {
		for _, b := range []byte(":feed f\r") {
			v.s.Update(b)
		}
		if !v.settle(15 * time.Second) {
			return "hang"
		}
		v.s.Update('j')
		if !v.settle(15 * time.Second) {
			return "hang"
		}
		return "ok"
	})
	step("open_untyped", func() string {
		/* links whose media type is stated but says nothing usable, handed to whatever hook is configured */
		for _, b := range []byte(":open " + w.h.URL("/notes/att") + "\r") {
			v.s.Update(b)
		}
		if !v.settle(15 * time.Second) {
			return "hang"
		}
		for _, keys := range []string{"1\r", "2\r", "3\r", "4\r"} {
			for _, b := range []byte(keys) {
				v.s.Update(b)
			}
			if !v.settle(15 * time.Second) {
				return "hang"
			}
		}
		return "ok"
	})
	step("feed_empty", func() string {
		if _, configured := config.Parsed.Feeds["empty"]; !configured {
			return "ok"
		}
		for _, b := range []byte(":feed empty\r") {
			v.s.Update(b)
		}
		if !v.settle(15 * time.Second) {
			return "hang"
		}
		v.s.Update('j')
		v.s.Update(' ')
		if !v.settle(15 * time.Second) {
			return "hang"
		}
		return "ok"
	})
	out.Emit(verifkit.M{"ev": "done"})
}

/*
	C08 driver: bursts of keys issued from one goroutine each (as main.go does), with resizes and
	background loads in flight, on a real ui.State - meant to be built with -race.  Snapshots are
	taken inside the output callback (which the emitter must call while holding the UI mutex).
*/
type verifSnap struct {
	Snap    verifkit.M `json:"snap"`
	Held    bool       `json:"held"`
	Overlap bool       `json:"overlap"`
}

type verifConc struct {
	*verifSession
	frames  []verifSnap
	fmu     sync.Mutex
}

func verifBufTokens(buffer string) []string {
	toks := []string{}
	for _, r := range buffer {
		switch r {
		case ' ':
			toks = append(toks, "sp")
		case '.':
			toks = append(toks, "dot")
		case ':':
			toks = append(toks, "colon")
		case 'z':
			toks = append(toks, "x")
		default:
			toks = append(toks, string(r))
		}
	}
	return toks
}

func (c *verifConc) callback(frame string) {
	overlap := atomic.AddInt32(&c.inCb, 1) > 1
	held := true
	s := c.s
	if s != nil && s.m.TryLock() {
		held = false
		s.m.Unlock()
	}
	snap := verifkit.M{"mode": "loading", "buf": []string{}, "npages": 0, "at": 0}
	if s != nil {
		pages, at := verifPages(s)
		snap = verifkit.M{"mode": verifModes[s.mode], "buf": verifBufTokens(s.buffer), "npages": len(pages), "at": at}
	}
	c.fmu.Lock()
	c.frames = append(c.frames, verifSnap{snap, held, overlap})
	c.fmu.Unlock()
	atomic.AddInt64(c.frames64(), 1)
	atomic.AddInt32(&c.inCb, -1)
}

func (c *verifConc) frames64() *int64 { return &c.verifSession.frames }

func (c *verifConc) take() []verifSnap {
	c.fmu.Lock()
	defer c.fmu.Unlock()
	out := c.frames
	c.frames = nil
	return out
}

func TestVerifConc(t *testing.T) {
	var in struct {
		Sessions int `json:"sessions"`
		Bursts   int `json:"bursts"`
	}
	verifkit.In(&in)
	w, out := verifSetup(t)
	defer out.Close()
	defer w.sim.Cleanup()
	rng := verifkit.Rand()
	alphabet := []string{"h", "l", "sp", "c", "a", "g", "esc", "bs", "x", "1", "2", "3", "colon", "h", "l", "sp"}
	for sid := 1; sid <= in.Sessions; sid++ {
		jtp.VerifSetCache(1 + rng.Intn(6)) /* a small cache keeps real fetches (and loads) in flight */
		c := &verifConc{verifSession: verifNewSession(w, out, sid, false)}
		c.s = NewState(80, 24, c.callback)
		start := []string{"a", "p"}[rng.Intn(2)]
		target := map[string]string{"a": w.startA, "p": w.startP}[start]
		out.Emit(verifkit.M{"ev": "reset", "sid": sid, "start": start})
		if rng.Intn(4) == 0 {
			/* the feed command on a state of its own (its goroutine may outlive the settle) */
			fc := &verifConc{verifSession: verifNewSession(w, out, sid, false)}
			fc.s = NewState(80, 24, fc.callback)
			var wg sync.WaitGroup
			verifkit.Try(func() { fc.s.Subcommand("feed", "f") })
			/* keys and resizes while the feed is being assembled */
			for _, b := range []byte("1:x\x1b") {
				b := b
				wg.Add(1)
				go func() { defer wg.Done(); fc.s.Update(b) }()
			}
			wg.Add(1)
			go func() { defer wg.Done(); fc.s.SetWidthHeight(60, 20) }()
			wg.Wait()
			fc.settle(8 * time.Second)
			time.Sleep(20 * time.Millisecond)
			for _, f := range fc.take() {
				if !f.Held || f.Overlap {
					out.Emit(verifkit.M{"ev": "unlocked", "sid": sid, "during": "feed command", "held": f.Held, "overlap": f.Overlap})
					break
				}
			}
		}
		if err := c.s.Subcommand("open", w.h.URL(target)); err != nil || !c.settle(8*time.Second) {
			continue
		}
		for _, f := range c.take() {
			if !f.Held || f.Overlap {
				out.Emit(verifkit.M{"ev": "unlocked", "sid": sid, "during": "open", "held": f.Held, "overlap": f.Overlap})
				break
			}
		}
		if sid%3 == 1 {
			/* a page whose secondary fetches fail: the load must end and the interface accept keys again */
			xc := &verifConc{verifSession: verifNewSession(w, out, sid, false)}
			xc.s = NewState(80, 24, xc.callback)
			returned := 0
			if err := xc.s.Subcommand("open", w.h.URL("/notes/x1")); err == nil && xc.settle(10*time.Second) {
				returned = 1
			}
			out.Emit(verifkit.M{"ev": "liveness", "sid": sid, "scenario": "page whose replies and author cannot be obtained", "issued": 1, "returned": returned})
		}
		if sid%3 == 2 {
			/* the same thread walked up by several loaders at once (the frontier of several pages): the documents they
			   build from are shared through the cache and must only be read */
			var wg sync.WaitGroup
			for k := 0; k < 6; k++ {
				wg.Add(1)
				go func() {
					defer wg.Done()
					verifkit.Try(func() {
						if item, ok := pub.New(w.h.URL("/notes/lc"), nil).(pub.Tangible); ok {
							parents, frontier := item.Parents(1)
							for _, p := range parents {
								_ = p.Preview(40)
							}
							if frontier != nil {
								frontier.Parents(1)
							}
						}
					})
				}()
			}
			wg.Wait()
			/* a page of Markdown notes harvested at once, twice at the same time */
			for k := 0; k < 2; k++ {
				wg.Add(1)
				go func() {
					defer wg.Done()
					verifkit.Try(func() {
						if col, ok := pub.New(w.h.URL("/md"), nil).(pub.Container); ok {
							items, _, _ := col.Harvest(10, 0)
							for _, it := range items {
								_ = it.Preview(40)
							}
						}
					})
				}()
			}
			wg.Wait()
			/* a page that is left (space opens another one) while its background load is still in flight: both loads
			   must end, each on its own page */
			jtp.VerifSetCache(256)
			withheld := map[string]string{"w1": "/notes/n3", "w2": "/notes/q2"}[w.id]
			gate := make(chan struct{})
			w.h.Gated(withheld, gate)
			pc := &verifConc{verifSession: verifNewSession(w, out, sid, false)}
			pc.s = NewState(80, 24, pc.callback)
			returned := 0
			if err := pc.s.Subcommand("open", w.h.URL(w.startP)); err == nil {
				for waited := 0; waited < 600; waited++ {
					pc.s.m.Lock()
					shown := pc.s.mode != loading
					pc.s.m.Unlock()
					if shown {
						break
					}
					time.Sleep(5 * time.Millisecond)
				}
				pc.s.Update(' ')
				time.Sleep(5 * time.Millisecond)
				close(gate)
				w.h.Ungate(withheld)
				if pc.settle(10 * time.Second) {
					returned = 1
				}
			} else {
				close(gate)
				w.h.Ungate(withheld)
			}
			out.Emit(verifkit.M{"ev": "liveness", "sid": sid, "scenario": "page left while its background load is in flight", "issued": 1, "returned": returned})
			/* cursor keys on a page whose loaders are still fetching */
			jtp.VerifSetCache(256)
			gate2 := make(chan struct{})
			w.h.Gated(withheld, gate2)
			kc := &verifConc{verifSession: verifNewSession(w, out, sid, false)}
			kc.s = NewState(80, 24, kc.callback)
			moved := 0
			if err := kc.s.Subcommand("open", w.h.URL(w.startP)); err == nil {
				for waited := 0; waited < 600; waited++ {
					kc.s.m.Lock()
					shown := kc.s.mode != loading
					kc.s.m.Unlock()
					if shown {
						break
					}
					time.Sleep(5 * time.Millisecond)
				}
				for _, b := range []byte("jkjkkj") {
					kc.s.Update(b)
					time.Sleep(time.Millisecond)
				}
				close(gate2)
				w.h.Ungate(withheld)
				for _, b := range []byte("jkjk") {
					kc.s.Update(b)
				}
				if kc.settle(10 * time.Second) {
					moved = 1
				}
			} else {
				close(gate2)
				w.h.Ungate(withheld)
			}
			out.Emit(verifkit.M{"ev": "liveness", "sid": sid, "scenario": "cursor keys while the loaders of the page are fetching", "issued": 1, "returned": moved})
		}
		if sid%3 == 1 {
			/* an ancestor that arrives late (its author is slow), on a page whose replies are all there: cursor keys
			   in between must not start the loading of the ancestors again - in the end the thread shows each once */
			jtp.VerifSetCache(256)
			tag := fmt.Sprintf("/late%d", sid)
			u := func(p string) string { return w.h.URL(p) }
			w.put(tag+"/dave", map[string]any{"type": "Person", "name": "dave", "preferredUsername": "dave"})
			w.put(tag+"/x0", map[string]any{"type": "Note", "name": "x0", "attributedTo": u(tag + "/dave"), "content": "<p>root</p>", "published": "2024-01-01T00:00:00Z"})
			w.put(tag+"/x1", map[string]any{"type": "Note", "name": "x1", "attributedTo": u(tag + "/dave"), "content": "<p>middle</p>", "published": "2024-01-02T00:00:00Z", "inReplyTo": u(tag + "/x0")})
			w.put(tag+"/x2", map[string]any{"type": "Note", "name": "x2", "content": "<p>leaf</p>", "published": "2024-01-03T00:00:00Z", "inReplyTo": u(tag + "/x1"),
				"replies": map[string]any{"type": "Collection", "items": []any{}}})
			/* the author answers late by itself (nobody in this test releases it: releasing would order the keys pressed
			   here before everything the loader does afterwards, and hide an unsynchronised access from the race detector) */
			if route := w.h.Route(tag + "/dave"); route != nil {
				route.Delay = 400 * time.Millisecond
			}
			ac := &verifConc{verifSession: verifNewSession(w, out, sid, false)}
			ac.s = NewState(80, 24, ac.callback)
			above, opened := -1, false
			if err := ac.s.Subcommand("open", u(tag+"/x2")); err == nil {
				for waited := 0; waited < 600; waited++ {
					ac.s.m.Lock()
					opened = ac.s.mode != loading
					ac.s.m.Unlock()
					if opened {
						break
					}
					time.Sleep(5 * time.Millisecond)
				}
				time.Sleep(30 * time.Millisecond) /* the replies (none) are in; the ancestors wait for their author */
				for _, b := range []byte("kjkkjjkkjkjjkkjk") {
					ac.s.Update(b)
					time.Sleep(12 * time.Millisecond)
				}
				if ac.settle(10 * time.Second) {
					ac.s.m.Lock()
					f := ac.s.h.Current().feed
					/* everything the thread holds besides the opened post, wherever the cursor stands by now (a key that
					   came late may have moved it) */
					above = 0
					for d := -1; d >= -50 && f.Contains(d); d-- {
						above++
					}
					for d := 1; d <= 50 && f.Contains(d); d++ {
						above++
					}
					ac.s.m.Unlock()
				}
			}
			if opened {
				out.Emit(verifkit.M{"ev": "atomic", "sid": sid, "scenario": "cursor keys while the ancestors of the page wait for their author", "what": "items of the thread besides the one the cursor is on (two ancestors and the opened post)", "expected": 2, "observed": above})
			}
		}
		if sid%3 == 1 {
			/* a post one of whose parts (its author) takes longer than the configured timeout says, yet arrives: the
			   page shows the post when it is complete, and nothing writes to it afterwards */
			tag := fmt.Sprintf("/slowpart%d", sid)
			u := func(p string) string { return w.h.URL(p) }
			w.put(tag+"/erin", map[string]any{"type": "Person", "name": "erin", "preferredUsername": "erin"})
			if route := w.h.Route(tag + "/erin"); route != nil {
				route.Delay = 450 * time.Millisecond
			}
			w.put(tag+"/y", map[string]any{"type": "Note", "name": "y", "attributedTo": u(tag + "/erin"), "content": "<p>slow author</p>", "published": "2024-01-03T00:00:00Z"})
			restore := verifSetConfigTimeout(120 * time.Millisecond)
			sc := &verifConc{verifSession: verifNewSession(w, out, sid, false)}
			sc.s = NewState(80, 24, sc.callback)
			authors, shown := -1, false
			if err := sc.s.Subcommand("open", u(tag+"/y")); err == nil {
				for waited := 0; waited < 1200 && !shown; waited++ {
					sc.s.m.Lock()
					shown = sc.s.mode != loading
					if shown && !sc.s.h.IsEmpty() && sc.s.h.Current().feed.Contains(0) {
						if post, isPost := sc.s.h.Current().feed.Get(0).(*pub.Post); isPost {
							authors = 0
							for _, c := range post.Creators() {
								if _, isActor := c.(*pub.Actor); isActor {
									authors++
								}
							}
						}
					}
					sc.s.m.Unlock()
					if !shown {
						time.Sleep(5 * time.Millisecond)
					}
				}
				/* keep drawing while a straggler might still be writing */
				for k := 0; k < 12; k++ {
					sc.s.SetWidthHeight(60+k, 20)
					time.Sleep(50 * time.Millisecond)
				}
				sc.settle(5 * time.Second)
			}
			restore()
			if shown {
				out.Emit(verifkit.M{"ev": "atomic", "sid": sid, "scenario": "a post whose author answers after the configured timeout", "what": "authors of the post when the page first shows it", "expected": 1, "observed": authors})
			}
		}
		if sid%3 == 0 {
			/* a command typed inside the interface while the poller reports sizes: every key returns, and so does the poller */
			cc := &verifConc{verifSession: verifNewSession(w, out, sid, false)}
			cc.s = NewState(80, 24, cc.callback)
			if err := cc.s.Subcommand("open", w.h.URL(w.startP)); err == nil && cc.settle(8*time.Second) {
				typed := []byte(":open " + w.h.URL(w.startA) + "\rj:feed f\rk")
				issued, returned := 0, int32(0)
				stop := make(chan struct{})
				go func() {
					for k := 0; ; k++ {
						select {
						case <-stop:
							return
						default:
							cc.s.SetWidthHeight(70+k%7, 20+k%5)
							time.Sleep(2 * time.Millisecond)
						}
					}
				}()
				for _, b := range typed {
					issued++
					done := make(chan struct{})
					b := b
					go func() { cc.s.Update(b); atomic.AddInt32(&returned, 1); close(done) }()
					select {
					case <-done:
					case <-time.After(4 * time.Second):
					}
					if b == '\r' {
						cc.settle(8 * time.Second)
					}
					if atomic.LoadInt32(&returned) < int32(issued) {
						break
					}
				}
				close(stop)
				out.Emit(verifkit.M{"ev": "liveness", "sid": sid, "scenario": "commands typed inside the interface while sizes are reported", "issued": issued, "returned": atomic.LoadInt32(&returned)})
			}
		}
		if sid%3 == 2 {
			/* keys and a resize while the media program is running (a player may run for minutes): they are handled
			   while it runs, not after it has exited */
			os.Setenv("VERIF_HOOK_SLEEP_MS", "2500")
			os.Setenv("GORACE", "atexit_sleep_ms=0")
			mc := &verifConc{verifSession: verifNewSession(w, out, sid, false)}
			mc.s = NewState(80, 24, mc.callback)
			if err := mc.s.Subcommand("open", w.h.URL(w.startA)); err == nil && mc.settle(8*time.Second) {
				os.Remove(mc.dump)
				go mc.s.Update('p')
				started := false
				for waited := 0; waited < 400 && !started; waited++ {
					_, statErr := os.Stat(mc.dump)
					started = statErr == nil
					time.Sleep(5 * time.Millisecond)
				}
				if started {
					issued, prompt := 0, int32(0)
					var wg sync.WaitGroup
					for _, act := range []func(){func() { mc.s.Update('z') }, func() { mc.s.SetWidthHeight(77, 21) }, func() { mc.s.Update(27) }, func() { mc.s.Update('j') }} {
						issued++
						act := act
						wg.Add(1)
						go func() {
							defer wg.Done()
							done := make(chan struct{})
							go func() { act(); close(done) }()
							select {
							case <-done:
								atomic.AddInt32(&prompt, 1)
							case <-time.After(1200 * time.Millisecond):
								<-done
							}
						}()
						time.Sleep(20 * time.Millisecond)
					}
					wg.Wait()
					out.Emit(verifkit.M{"ev": "liveness", "sid": sid, "scenario": "keys and a resize while the media program runs (2.5 s): handled within 1.2 s", "issued": issued, "returned": atomic.LoadInt32(&prompt)})
				}
				time.Sleep(2600 * time.Millisecond)
			}
			os.Unsetenv("VERIF_HOOK_SLEEP_MS")
			mc.hookCalls()
		}
		if sid%3 == 0 {
			/* a slow media hook that is abandoned with Esc (or another key) before it exits; afterwards
			   keys must still be handled: every one of them has to return */
			os.Setenv("VERIF_HOOK_SLEEP_MS", "150")
			os.Setenv("GORACE", "atexit_sleep_ms=0")
			lc := &verifConc{verifSession: verifNewSession(w, out, sid, false)}
			lc.s = NewState(80, 24, lc.callback)
			if err := lc.s.Subcommand("open", w.h.URL(w.startA)); err == nil && lc.settle(8*time.Second) {
				issued, returned := 0, int32(0)
				modes := []string{}
				press := func(b byte) {
					defer func() {
						if lc.s.m.TryLock() {
							modes = append(modes, verifModes[lc.s.mode])
							lc.s.m.Unlock()
						} else {
							modes = append(modes, "locked")
						}
					}()
					issued++
					done := make(chan struct{})
					go func() { lc.s.Update(b); atomic.AddInt32(&returned, 1); close(done) }()
					select {
					case <-done:
					case <-time.After(4 * time.Second):
					}
				}
				press('p')
				press([]byte{27, ':', 27}[rng.Intn(3)])
				/* wait until the hook program has really run (it records itself when it starts), then for
				   its exit to be noticed, before pressing further keys */
				os.Remove(lc.dump + ".done")
				for waited := 0; waited < 200; waited++ {
					if _, err := os.Stat(lc.dump + ".done"); err == nil {
						break
					}
					time.Sleep(50 * time.Millisecond)
				}
				os.Remove(lc.dump + ".done")
				/* a race-instrumented hook binary lingers at exit (GORACE atexit_sleep_ms, switched off
				   above for the child, defaults to a second); leave room for that as well */
				time.Sleep(1500 * time.Millisecond)
				press('z')
				press(27)
				_, statErr := os.Stat(lc.dump)
				out.Emit(verifkit.M{"ev": "liveness", "sid": sid, "scenario": "hook abandoned while running", "issued": issued, "returned": atomic.LoadInt32(&returned),
					"hook_ran": statErr == nil, "modes": modes})
			}
			os.Unsetenv("VERIF_HOOK_SLEEP_MS")
			lc.hookCalls()
		}
		for b := 0; b < in.Bursts; b++ {
			k := 1 + rng.Intn(5)
			keys := make([]string, k)
			for i := range keys {
				keys[i] = alphabet[rng.Intn(len(alphabet))]
			}
			var wg sync.WaitGroup
			var returned int32
			for _, tok := range keys {
				bytes := w.expand(tok)
				wg.Add(1)
				go func() {
					defer wg.Done()
					c.s.Update(bytes[0])
					atomic.AddInt32(&returned, 1)
				}()
			}
			resizes := rng.Intn(3)
			wg.Add(1)
			go func() {
				defer wg.Done()
				for i := 0; i < resizes; i++ {
					c.s.SetWidthHeight(40+rng.Intn(60), 5+rng.Intn(40))
				}
			}()
			finished := make(chan struct{})
			go func() { wg.Wait(); close(finished) }()
			select {
			case <-finished:
			case <-time.After(15 * time.Second):
			}
			c.settle(8 * time.Second)
			frames := c.take()
			out.Emit(verifkit.M{"ev": "burst", "sid": sid, "keys": keys, "frames": frames, "returned": atomic.LoadInt32(&returned), "resizes": resizes})
		}
	}
}

/* the timeout the fetcher will work with, in milliseconds, whatever type the configuration keeps it in
   (a duration, or a number of seconds); something that is no number counts as negative */
func verifTimeoutMs(timeout any) int64 {
	v := reflect.ValueOf(timeout)
	clamp := func(ms float64) int64 {
		switch {
		case ms != ms:
			return -1
		case ms > 4e18:
			return 4000000000000000000
		case ms < -4e18:
			return -4000000000000000000
		}
		return int64(ms)
	}
	switch v.Kind() {
	case reflect.Int, reflect.Int64, reflect.Int32:
		if _, isDuration := timeout.(time.Duration); isDuration {
			return v.Int() / int64(time.Millisecond)
		}
		return clamp(float64(v.Int()) * 1000)
	case reflect.Uint, reflect.Uint64, reflect.Uint32:
		return clamp(float64(v.Uint()) * 1000)
	case reflect.Float64, reflect.Float32:
		return clamp(v.Float() * 1000)
	}
	return -1
}

/* sets the configured timeout (whatever type the field has) and returns a function that puts the old value back */
func verifSetConfigTimeout(d time.Duration) func() {
	field := reflect.ValueOf(&config.Parsed.Network.Timeout).Elem()
	old := reflect.New(field.Type()).Elem()
	old.Set(field)
	switch field.Kind() {
	case reflect.Int64, reflect.Int:
		if _, isDuration := field.Interface().(time.Duration); isDuration {
			field.SetInt(int64(d))
		} else {
			field.SetInt(int64(d / time.Second))
		}
	case reflect.Float64, reflect.Float32:
		field.SetFloat(d.Seconds())
	}
	return func() { field.Set(old) }
}

/*
	The very first thing a process does: a collection page of embedded notes is opened (they are built side by side), nothing
	having been rendered before.  Run in a process of its own under the race detector.
*/
func TestVerifFirstRender(t *testing.T) {
	w, out := verifSetup(t)
	defer out.Close()
	defer w.sim.Cleanup()
	notes := []any{}
	for k := 0; k < 8; k++ {
		notes = append(notes, map[string]any{"id": w.h.URL(fmt.Sprintf("/first/n%d", k)), "type": "Note", "content": fmt.Sprintf("<p>first <b>render</b> %d <a href=\"https://x.example/%d\">l</a></p>", k, k),
			"published": "2024-01-01T00:00:00Z"})
	}
	w.put("/first", map[string]any{"type": "OrderedCollection", "totalItems": len(notes), "orderedItems": notes})
	v := verifNewSession(w, out, 1, false)
	returned := 0
	if err := v.s.Subcommand("open", w.h.URL("/first")); err == nil && v.settle(10*time.Second) {
		returned = 1
	}
	out.Emit(verifkit.M{"ev": "liveness", "sid": 1, "scenario": "a page of embedded notes opened as the first thing the process does", "issued": 1, "returned": returned})
}
