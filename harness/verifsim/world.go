//go:build verif

package verifsim

import (
	"encoding/json"
	"fmt"
	"math/rand"
	"net/url"
	"sort"
	"strings"
)

/*
	Abstract worlds (as Fetch.tla / Provenance.tla describe them) realised on the simulator.
	A URL id is "<host name>/<path>"; a response is a class record; each class is realised by
	one of several unambiguous byte-level representatives chosen by the seed.
*/

type Resp struct {
	Status int      `json:"status"`
	Ct     []string `json:"ct"`
	Body   string   `json:"body"`
	Loc    string   `json:"loc"`
	Doc    string   `json:"doc"`
	JSON   any      `json:"json,omitempty"` // explicit document ({{host}} placeholders in strings)
	Twin   string   `json:"twin,omitempty"` // status -1 only: the non-https URL has host and path of this (https) id
	Extra  []string `json:"extra,omitempty"` // further header lines, as they are
}

type World struct {
	Sim    *Sim
	Routes map[string]Resp
}

var ctVariants = map[string][]string{
	"activity": {"application/activity+json", "application/activity+json; charset=utf-8", "application/activity+json;charset=UTF-8"},
	"ld":       {`application/ld+json; profile="https://www.w3.org/ns/activitystreams"`, "application/ld+json"},
	"json":     {"application/json", "application/json; charset=utf-8"},
	"jrd":      {"application/jrd+json", "application/jrd+json; charset=utf-8"},
	/* foreign types, among them names that go on after a tolerated one with further token characters */
	"html": {"text/html; charset=utf-8", "text/plain", "application/xml", "application/json5", "application/activity+json2", "text/json",
		"application/activity", "application/ld; charset=utf-8", "application/j", "application/jrd", "applicat", "application/json|text/html", "application/json*", "application/json%2Bhtml", "application/activity+json~draft", "application/ld+json'x", "application/jrd+json!", "application/json`"},
	"bad":      {"garbage", "/json", "application/"},
	"wild":     {"*/*", "application/*", "*/*; charset=utf-8", "application/*; charset=utf-8", "*/json"},
}

var reasons = map[int]string{100: "Continue", 101: "Switching Protocols", 103: "Early Hints", 199: "Miscellaneous", 226: "IM Used", 299: "Odd", 200: "OK", 201: "Created", 202: "Accepted", 203: "Non-Authoritative Information", 204: "No Content",
	301: "Moved Permanently", 302: "Found", 303: "See Other", 307: "Temporary Redirect", 308: "Permanent Redirect",
	400: "Bad Request", 404: "Not Found", 410: "Gone", 500: "Internal Server Error", 503: "Service Unavailable"}

func SplitID(id string) (host, path string) {
	i := strings.Index(id, "/")
	if i < 0 {
		return id, "/"
	}
	return id[:i], id[i:]
}

func (w *World) URL(id string) string {
	host, path := SplitID(id)
	scheme := "https"
	if r, ok := w.Routes[id]; ok && r.Status == -1 {
		scheme = "http"
		if r.Twin != "" {
			host, path = SplitID(r.Twin)
		}
	}
	return scheme + "://" + w.Sim.Host(host).Addr + path
}

// ID maps a concrete URL (or authority + target) back to the abstract id.
func (w *World) ID(u *url.URL) string {
	if u == nil {
		return "none"
	}
	h := w.Sim.HostByAddr(u.Host)
	if h == nil {
		return "?" + u.String()
	}
	return h.Name + u.RequestURI()
}

func (w *World) ConnID(c *ConnLog) string { return c.Host + c.Target }

func expand(v any, w *World) any {
	switch x := v.(type) {
	case string:
		for strings.Contains(x, "{{") {
			i := strings.Index(x, "{{")
			j := strings.Index(x[i:], "}}")
			if j < 0 {
				break
			}
			name := x[i+2 : i+j]
			x = x[:i] + w.Sim.Host(name).Addr + x[i+j+2:]
		}
		return x
	case []any:
		out := make([]any, len(x))
		for i := range x {
			out[i] = expand(x[i], w)
		}
		return out
	case map[string]any:
		out := map[string]any{}
		for k, e := range x {
			out[k] = expand(e, w)
		}
		return out
	}
	return v
}

func pick(rng *rand.Rand, list []string) string { return list[rng.Intn(len(list))] }

// Render builds the response bytes of one route.
func (w *World) Render(id string, r Resp, rng *rand.Rand) []byte {
	eol := "\r\n"
	if rng.Intn(5) == 0 {
		eol = "\n"
	}
	var b strings.Builder
	if r.Status == 0 {
		b.WriteString(pick(rng, []string{"HTTP/2 200 OK", "HTTP/1.1 20 OK", "ICY 200 OK", "HTTP/1.1  200 OK", "200 OK", "HTTP/1.x 200 OK"}) + eol)
	} else {
		proto := pick(rng, []string{"HTTP/1.0", "HTTP/1.1", "HTTP/1.1"})
		reason := reasons[r.Status]
		if rng.Intn(6) == 0 {
			b.WriteString(fmt.Sprintf("%s %d%s", proto, r.Status, eol))
		} else {
			b.WriteString(fmt.Sprintf("%s %d %s%s", proto, r.Status, reason, eol))
		}
	}
	headers := []string{}
	for _, ct := range r.Ct {
		name := pick(rng, []string{"Content-Type", "content-type", "CONTENT-TYPE", "Content-type"})
		sep := pick(rng, []string{": ", ":", ":  ", ":\t"})
		headers = append(headers, name+sep+pick(rng, ctVariants[ct]))
	}
	if r.Loc != "" {
		name := pick(rng, []string{"Location", "location", "LOCATION"})
		headers = append(headers, name+": "+w.location(id, r.Loc, rng))
	}
	headers = append(headers, r.Extra...)
	extra := []string{"Server: verifsim", "Date: Sat, 26 Sep 2026 00:00:00 GMT", "X-Content-Type: text/html", "Vary: Accept",
		"Cache-Control: max-age=0", "Set-Cookie: track=1", "Content-Location: https://elsewhere.example/x", "Link: <https://x.example/>; rel=\"alternate\"; type=\"text/html\""}
	for k := rng.Intn(4); k > 0; k-- {
		headers = append(headers, pick(rng, extra))
	}
	/* a header line longer than any read buffer, whose tail reads like the header the response does not have:
	   it is ONE line, so there still is no Content-Type / Location */
	if rng.Intn(6) == 0 {
		tail := ""
		if len(r.Ct) == 0 && r.Loc == "" {
			tail = pick(rng, []string{"Content-Type: application/activity+json", "Location: " + w.URL(id), "content-type: application/json"})
		}
		for _, size := range []int{4096, 8192, 65536}[:1+rng.Intn(3)] {
			line := "X-Pad: "
			line += strings.Repeat("a", size-len(line)) + tail
			headers = append(headers, line)
		}
	}
	/* lines that only look like the header the response does not have: a continuation line (it begins with a blank: it belongs to the
	   field before it), a name with a blank before its colon */
	if len(r.Ct) == 0 && r.Loc == "" && rng.Intn(3) == 0 {
		headers = append(headers, "X-Note: see"+eol+pick(rng, []string{" ", "\t"})+pick(rng, []string{"Content-Type: application/activity+json", "Location: " + w.URL(id) + "x", "content-type: application/json"}))
		if rng.Intn(2) == 0 {
			headers = append(headers, pick(rng, []string{"Content-Type : application/activity+json", "Location : " + w.URL(id) + "y", "Content-Type\t: application/json"}))
		}
	}
	/* a line of blanks only is not the empty line that ends the headers (it continues the header before it); what
	   follows it is still header section, however much it looks like a document */
	if rng.Intn(6) == 0 {
		headers = append(headers, pick(rng, []string{" ", "\t", "  \t "})+eol+`{"id":"https://decoy.invalid/d","type":"Note","tag":"decoy","content":"not the body"}`)
	}
	rng.Shuffle(len(headers), func(i, j int) { headers[i], headers[j] = headers[j], headers[i] })
	for _, h := range headers {
		b.WriteString(h + eol)
	}
	b.WriteString(eol)
	b.WriteString(w.body(id, r, rng))
	return []byte(b.String())
}

func (w *World) location(from, to string, rng *rand.Rand) string {
	abs := w.URL(to)
	fh, fp := SplitID(from)
	th, tp := SplitID(to)
	if r, ok := w.Routes[to]; ok && r.Status == -1 {
		return abs
	}
	forms := []string{abs}
	if fh == th {
		forms = append(forms, tp)
		if rel := relativeRef(fp, tp); rel != "" {
			forms = append(forms, rel, rel)
		}
	}
	forms = append(forms, "//"+w.Sim.Host(th).Addr+tp)
	return pick(rng, forms)
}

func (w *World) body(id string, r Resp, rng *rand.Rand) string {
	switch r.Body {
	case "obj":
		var doc any
		if r.JSON != nil {
			doc = expand(r.JSON, w)
		} else {
			doc = map[string]any{"id": w.URL(id), "type": "Note", "tag": r.Doc, "content": "document " + r.Doc, "published": "2024-01-02T03:04:05Z"}
		}
		var data []byte
		if rng.Intn(3) == 0 {
			data, _ = json.MarshalIndent(doc, "", "  ")
		} else {
			data, _ = json.Marshal(doc)
		}
		return pick(rng, []string{"", "", "\n", "  "}) + string(data) + pick(rng, []string{"", "\n", "\r\n"})
	case "array":
		return pick(rng, []string{`[{"id":"x","type":"Note","tag":"arr"}]`, `[]`, `[1,2,3]`})
	case "scalar":
		return pick(rng, []string{`"just a string"`, `42`, `true`, `null`})
	case "garbage":
		return pick(rng, []string{`<html><body>nope</body></html>`, `{"id": "x", "type": `, `{id: 1}`, "\x00\x01\x02", `{"a":1`})
	case "locline":
		/* text that looks like a header, after the blank line: no header */
		target := id
		if r.Twin != "" {
			target = r.Twin
		}
		return "The document has moved.\r\n" + pick(rng, []string{"Location", "location"}) + ": " + w.URL(target) + pick(rng, []string{"\r\n", "\n", ""}) + "see there\n"
	case "empty":
		return ""
	}
	return ""
}

// Install resets the simulator and installs all routes (every host mentioned gets a listener).
func (w *World) Install(rng *rand.Rand) {
	w.Sim.Reset()
	ids := make([]string, 0, len(w.Routes))
	for id := range w.Routes {
		ids = append(ids, id)
	}
	sort.Strings(ids)
	for _, id := range ids {
		host, _ := SplitID(id)
		w.Sim.Host(host)
	}
	for _, id := range ids {
		r := w.Routes[id]
		if r.Status == -1 {
			continue
		}
		host, path := SplitID(id)
		w.Sim.Host(host).Set(path, &Route{Raw: w.Render(id, r, rng)})
	}
}

func Bytes(s string) []int {
	out := make([]int, len(s))
	for i := 0; i < len(s); i++ {
		out[i] = int(s[i])
	}
	return out
}

const AcceptActivity = `application/activity+json,application/ld+json; profile="https://www.w3.org/ns/activitystreams"`
const AcceptWebfinger = "application/jrd+json"

// ConnEvent renders one logged connection for T_Request; path/query are the DECODED bytes
// of the URL the request is expected to be for.
func ConnEvent(c *ConnLog, addr string, accept string, path string, query string) map[string]any {
	return map[string]any{"ev": "conn", "seq": c.Seq, "plain": c.Plain, "raw": Bytes(string(c.Raw)),
		"host": Bytes(addr), "accept": Bytes(accept), "path": Bytes(path), "query": Bytes(query), "hostname": c.Host,
		"resumed": c.Resumed, "clientcert": c.ClientCert}
}

// PlainConnEvents: for drivers whose URLs are simple (no escapes): the expected path and query
// are taken from the observed target, so only the shape, the headers and TLS are judged.
func (s *Sim) PlainConnEvents(from int, accept func(c *ConnLog) string) []map[string]any {
	out := []map[string]any{}
	for _, c := range s.Conns()[from:] {
		path, query, _ := strings.Cut(c.Target, "?")
		if u, err := url.PathUnescape(path); err == nil {
			path = u
		}
		if u, err := url.PathUnescape(query); err == nil {
			query = u
		}
		out = append(out, ConnEvent(c, s.hosts[c.Host].Addr, accept(c), path, query))
	}
	return out
}

// relativeRef returns a path-relative (or query-only) reference that resolves from the URL
// with request-target `from` to the one with request-target `to` (RFC 3986 5.2), or "".
func relativeRef(from, to string) string {
	fpath, _, _ := strings.Cut(from, "?")
	tpath, tquery, hasQuery := strings.Cut(to, "?")
	if strings.ContainsAny(tpath, ":#") || strings.Contains(tpath, "//") {
		return ""
	}
	if fpath == tpath && hasQuery {
		return "?" + tquery
	}
	fdir := fpath[:strings.LastIndex(fpath, "/")+1]
	tdir := tpath[:strings.LastIndex(tpath, "/")+1]
	name := tpath[len(tdir):]
	suffix := ""
	if hasQuery {
		suffix = "?" + tquery
	}
	if name == "" {
		return ""
	}
	if fdir == tdir {
		return name + suffix
	}
	/* climb out of the issuer's directory, then descend */
	up := strings.Count(fdir, "/") - 1
	return strings.Repeat("../", up) + tpath[1:] + suffix
}
