//go:build verif

// Package verifsim: a loopback multi-host TLS world for the conformance harness.
//
// Every host listens on its own 127.0.0.x address with an ephemeral port, so each has a
// distinct url.Host (which is what servitor's provenance rule compares).  All hosts share one
// throw-away CA that is installed through SSL_CERT_FILE before the first TLS dial, so the
// unmodified fetcher (default tls.Config, system roots) talks to them.  Every accepted
// connection is logged with the raw bytes the client sent until it closed.
package verifsim

import (
	"bufio"
	"bytes"
	"crypto/ecdsa"
	"crypto/elliptic"
	"crypto/rand"
	"crypto/tls"
	"crypto/x509"
	"crypto/x509/pkix"
	"encoding/pem"
	"fmt"
	"math/big"
	"net"
	"os"
	"strings"
	"sync"
	"time"
)

type Route struct {
	Raw   []byte        // complete response bytes
	Fault string        // "", cut, reset, stall, trickle, nohandshake, garbage_pre
	At    int           // byte offset for cut / reset / stall / trickle start
	Gate  chan struct{} // when non-nil the response is withheld until the gate is closed
	Delay time.Duration
	Hits  int
}

type ConnLog struct {
	Seq    int
	Host   string // abstract host name
	Plain  bool   // first byte was not a TLS handshake record
	// what the TLS layer revealed about the client: a resumed session (the client presented a ticket
	// or session id from an earlier connection) or a client certificate identify it across connections
	Resumed    bool
	ClientCert bool
	Raw    []byte // everything the client sent (after the handshake)
	Target string
	Start  time.Time
	Done   bool
}

type Host struct {
	Name   string
	Addr   string // ip:port, the url.Host of this host
	sim    *Sim
	ln     net.Listener
	mu     sync.Mutex
	routes map[string]*Route
	// Fallback answers targets without a route (default: 404 with an HTML body)
	Fallback *Route
}

type Sim struct {
	mu     sync.Mutex
	cfg    *tls.Config
	hosts  map[string]*Host
	byAddr map[string]*Host
	conns  []*ConnLog
	nextIP int
	open   int
	maxOpen int // most connections open at the same time since the last Reset
}

var (
	once   sync.Once
	global *Sim
)

// Get returns the process-wide simulator, creating the CA on first use.
func Get() *Sim {
	once.Do(func() { global = newSim() })
	return global
}

func newSim() *Sim {
	caKey, _ := ecdsa.GenerateKey(elliptic.P256(), rand.Reader)
	caTmpl := &x509.Certificate{
		SerialNumber: big.NewInt(1), Subject: pkix.Name{CommonName: "verifsim CA"},
		NotBefore: time.Now().Add(-time.Hour), NotAfter: time.Now().Add(48 * time.Hour),
		IsCA: true, KeyUsage: x509.KeyUsageCertSign | x509.KeyUsageDigitalSignature, BasicConstraintsValid: true,
	}
	caDER, err := x509.CreateCertificate(rand.Reader, caTmpl, caTmpl, &caKey.PublicKey, caKey)
	if err != nil {
		panic(err)
	}
	caCert, _ := x509.ParseCertificate(caDER)
	leafKey, _ := ecdsa.GenerateKey(elliptic.P256(), rand.Reader)
	leaf := &x509.Certificate{
		SerialNumber: big.NewInt(2), Subject: pkix.Name{CommonName: "verifsim host"},
		NotBefore: time.Now().Add(-time.Hour), NotAfter: time.Now().Add(48 * time.Hour),
		KeyUsage: x509.KeyUsageDigitalSignature, ExtKeyUsage: []x509.ExtKeyUsage{x509.ExtKeyUsageServerAuth},
		DNSNames: []string{"localhost"},
	}
	for i := 1; i < 250; i++ {
		leaf.IPAddresses = append(leaf.IPAddresses, net.IPv4(127, 0, 0, byte(i)))
	}
	leaf.IPAddresses = append(leaf.IPAddresses, net.IPv6loopback)
	leafDER, err := x509.CreateCertificate(rand.Reader, leaf, caCert, &leafKey.PublicKey, caKey)
	if err != nil {
		panic(err)
	}
	f, err := os.CreateTemp("", "verifsim-ca-*.pem")
	if err != nil {
		panic(err)
	}
	pem.Encode(f, &pem.Block{Type: "CERTIFICATE", Bytes: caDER})
	f.Close()
	os.Setenv("SSL_CERT_FILE", f.Name())
	os.Setenv("SSL_CERT_DIR", "/nonexistent")
	return &Sim{
		/* session tickets are issued (the default) and a client certificate is asked for, so that a client
		   willing to present either is seen doing it */
		cfg: &tls.Config{Certificates: []tls.Certificate{{Certificate: [][]byte{leafDER}, PrivateKey: leafKey}}, ClientAuth: tls.RequestClientCert},
		hosts: map[string]*Host{}, byAddr: map[string]*Host{}, nextIP: 2,
	}
}

// Cleanup removes the CA file (call at the end of TestMain or a test).
func (s *Sim) Cleanup() {
	if p := os.Getenv("SSL_CERT_FILE"); strings.Contains(p, "verifsim-ca-") {
		os.Remove(p)
	}
}

// Host returns (creating it if necessary) the host with this abstract name.
func (s *Sim) Host(name string) *Host {
	/* "X_p" is host X's name on another port (see HostLike) */
	if strings.HasSuffix(name, "_p") && len(name) > 2 {
		return s.HostLike(name, strings.TrimSuffix(name, "_p"))
	}
	s.mu.Lock()
	defer s.mu.Unlock()
	if h, ok := s.hosts[name]; ok {
		return h
	}
	ip := fmt.Sprintf("127.0.0.%d", s.nextIP)
	s.nextIP++
	if s.nextIP > 240 {
		s.nextIP = 2
	}
	ln, err := net.Listen("tcp", ip+":0")
	if err != nil {
		panic(err)
	}
	h := &Host{Name: name, Addr: ln.Addr().String(), sim: s, ln: ln, routes: map[string]*Route{}}
	h.Fallback = &Route{Raw: []byte("HTTP/1.0 404 Not Found\r\nContent-Type: text/html\r\n\r\n<h1>not found</h1>")}
	s.hosts[name] = h
	s.byAddr[h.Addr] = h
	go h.serve()
	return h
}

// HostLike returns (creating it if necessary) a host that shares the IP address of host `like`
// but listens on another port: same hostname, different url.Host.
func (s *Sim) HostLike(name string, like string) *Host {
	base := s.Host(like)
	s.mu.Lock()
	defer s.mu.Unlock()
	if h, ok := s.hosts[name]; ok {
		return h
	}
	ip, _, _ := net.SplitHostPort(base.Addr)
	ln, err := net.Listen("tcp", ip+":0")
	if err != nil {
		panic(err)
	}
	h := &Host{Name: name, Addr: ln.Addr().String(), sim: s, ln: ln, routes: map[string]*Route{}}
	h.Fallback = base.Fallback
	s.hosts[name] = h
	s.byAddr[h.Addr] = h
	go h.serve()
	return h
}

// HostAt returns a host listening on exactly this address (e.g. the default https port, which needs
// the right to bind it); the error is returned, not fatal.
func (s *Sim) HostAt(name string, addr string) (*Host, error) {
	s.mu.Lock()
	defer s.mu.Unlock()
	if h, ok := s.hosts[name]; ok {
		return h, nil
	}
	ln, err := net.Listen("tcp", addr)
	if err != nil {
		return nil, err
	}
	h := &Host{Name: name, Addr: ln.Addr().String(), sim: s, ln: ln, routes: map[string]*Route{}}
	h.Fallback = &Route{Raw: []byte("HTTP/1.0 404 Not Found\r\nContent-Type: text/html\r\n\r\n<h1>not found</h1>")}
	s.hosts[name] = h
	s.byAddr[h.Addr] = h
	go h.serve()
	return h, nil
}

// Reset forgets all routes and the connection log but keeps hosts (and their ports).
func (s *Sim) Reset() {
	s.mu.Lock()
	defer s.mu.Unlock()
	for _, h := range s.hosts {
		h.mu.Lock()
		h.routes = map[string]*Route{}
		h.mu.Unlock()
	}
	s.conns = nil
	s.maxOpen = 0
}

// MaxOpen is the largest number of connections that were open at the same time since the last Reset.
func (s *Sim) MaxOpen() int {
	s.mu.Lock()
	defer s.mu.Unlock()
	return s.maxOpen
}

// DropHost closes a host's listener and forgets it (a later Host(name) gets a new port).
func (s *Sim) DropHost(name string) {
	s.mu.Lock()
	defer s.mu.Unlock()
	if h, ok := s.hosts[name]; ok {
		h.ln.Close()
		delete(s.hosts, name)
		delete(s.byAddr, h.Addr)
	}
}

func (s *Sim) HostByAddr(addr string) *Host {
	s.mu.Lock()
	defer s.mu.Unlock()
	return s.byAddr[addr]
}

func (s *Sim) Conns() []*ConnLog {
	s.mu.Lock()
	defer s.mu.Unlock()
	out := make([]*ConnLog, len(s.conns))
	copy(out, s.conns)
	return out
}

func (s *Sim) ConnCount() int {
	s.mu.Lock()
	defer s.mu.Unlock()
	return len(s.conns)
}

// Open reports the number of connections currently being served.
func (s *Sim) Open() int {
	s.mu.Lock()
	defer s.mu.Unlock()
	return s.open
}

func (h *Host) Set(target string, r *Route) {
	h.mu.Lock()
	h.routes[target] = r
	h.mu.Unlock()
}

// Route returns the route installed for `target`, or nil.
func (h *Host) Route(target string) *Route {
	h.mu.Lock()
	defer h.mu.Unlock()
	return h.routes[target]
}

// Gated makes the route of `target` wait for `gate` before answering; reports whether the route exists.
func (h *Host) Gated(target string, gate chan struct{}) bool {
	h.mu.Lock()
	defer h.mu.Unlock()
	r := h.routes[target]
	if r == nil {
		return false
	}
	copy_ := *r
	copy_.Gate = gate
	h.routes[target] = &copy_
	return true
}

func (h *Host) Ungate(target string) {
	h.mu.Lock()
	defer h.mu.Unlock()
	if r := h.routes[target]; r != nil {
		copy_ := *r
		copy_.Gate = nil
		h.routes[target] = &copy_
	}
}

func (h *Host) URL(target string) string { return "https://" + h.Addr + target }

func (h *Host) serve() {
	for {
		c, err := h.ln.Accept()
		if err != nil {
			return
		}
		go h.handle(c)
	}
}

type peeked struct {
	net.Conn
	r *bufio.Reader
}

func (p *peeked) Read(b []byte) (int, error) { return p.r.Read(b) }

func (h *Host) handle(raw net.Conn) {
	s := h.sim
	log := &ConnLog{Host: h.Name, Start: time.Now()}
	s.mu.Lock()
	log.Seq = len(s.conns) + 1
	s.conns = append(s.conns, log)
	s.open++
	if s.open > s.maxOpen {
		s.maxOpen = s.open
	}
	s.mu.Unlock()
	defer func() {
		raw.Close()
		s.mu.Lock()
		log.Done = true
		s.open--
		s.mu.Unlock()
	}()

	/* a fault route that applies before any byte is exchanged */
	h.mu.Lock()
	pre := h.routes["*handshake*"]
	h.mu.Unlock()
	if pre != nil {
		switch pre.Fault {
		case "nohandshake":
			waitClosed(raw, 60*time.Second)
			return
		case "garbage_pre":
			raw.Write([]byte("\x00\x01garbage instead of a TLS record\r\n\r\n"))
			waitClosed(raw, 5*time.Second)
			return
		case "slowhandshake":
			/* a peer that takes its time before it starts to handshake, then behaves */
			time.Sleep(pre.Delay)
		case "reset_pre":
			if tc, ok := raw.(*net.TCPConn); ok {
				tc.SetLinger(0)
			}
			return
		}
	}

	br := bufio.NewReader(raw)
	raw.SetReadDeadline(time.Now().Add(20 * time.Second))
	first, err := br.Peek(1)
	if err != nil {
		return
	}
	var conn net.Conn = &peeked{raw, br}
	if first[0] != 0x16 {
		/* plaintext: record what was sent, never answer */
		log.Plain = true
		buf := make([]byte, 4096)
		n, _ := conn.Read(buf)
		s.mu.Lock()
		log.Raw = append(log.Raw, buf[:n]...)
		s.mu.Unlock()
		return
	}
	if pre != nil && pre.Fault == "noread" {
		if tc, ok := raw.(*net.TCPConn); ok {
			tc.SetReadBuffer(2048)
		}
	}
	tconn := tls.Server(conn, s.cfg)
	if err := tconn.Handshake(); err != nil {
		return
	}
	if pre != nil && pre.Fault == "noread" {
		/* a peer that shakes hands and then never reads a byte: a long request cannot be written to it */
		time.Sleep(pre.Delay)
		return
	}
	raw.SetReadDeadline(time.Time{})
	state := tconn.ConnectionState()
	s.mu.Lock()
	log.Resumed, log.ClientCert = state.DidResume, len(state.PeerCertificates) > 0
	s.mu.Unlock()

	/* read the request head */
	head := []byte{}
	buf := make([]byte, 4096)
	tconn.SetReadDeadline(time.Now().Add(10 * time.Second))
	for !bytes.Contains(head, []byte("\r\n\r\n")) && !bytes.Contains(head, []byte("\n\n")) {
		n, err := tconn.Read(buf)
		head = append(head, buf[:n]...)
		s.mu.Lock()
		log.Raw = append([]byte{}, head...)
		s.mu.Unlock()
		if err != nil {
			return
		}
	}
	line := string(head)
	if i := strings.IndexAny(line, "\r\n"); i >= 0 {
		line = line[:i]
	}
	target := ""
	if parts := strings.SplitN(line, " ", 3); len(parts) >= 2 {
		target = parts[1]
	}
	s.mu.Lock()
	log.Target = target
	s.mu.Unlock()

	h.mu.Lock()
	route := h.routes[target]
	if route == nil {
		route = h.Fallback
	}
	route.Hits++
	h.mu.Unlock()

	if route.Gate != nil {
		<-route.Gate
	}
	if route.Delay > 0 {
		time.Sleep(route.Delay)
	}
	tconn.SetReadDeadline(time.Time{})
	tconn.SetWriteDeadline(time.Now().Add(30 * time.Second))
	switch route.Fault {
	case "":
		tconn.Write(route.Raw)
		tconn.CloseWrite()
	case "cut":
		tconn.Write(route.Raw[:minInt(route.At, len(route.Raw))])
		tconn.CloseWrite()
	case "reset":
		tconn.Write(route.Raw[:minInt(route.At, len(route.Raw))])
		if tc, ok := raw.(*net.TCPConn); ok {
			tc.SetLinger(0)
		}
		return
	case "stall":
		tconn.Write(route.Raw[:minInt(route.At, len(route.Raw))])
		/* say nothing more; wait for the client to give up */
	case "trickle":
		tconn.Write(route.Raw[:minInt(route.At, len(route.Raw))])
		for i := minInt(route.At, len(route.Raw)); i < len(route.Raw); i++ {
			time.Sleep(route.Delay0())
			if _, err := tconn.Write(route.Raw[i : i+1]); err != nil {
				return
			}
		}
		tconn.CloseWrite()
	}
	/* collect whatever else the client sends until it closes */
	tconn.SetReadDeadline(time.Now().Add(60 * time.Second))
	for {
		n, err := tconn.Read(buf)
		if n > 0 {
			s.mu.Lock()
			log.Raw = append(log.Raw, buf[:n]...)
			s.mu.Unlock()
		}
		if err != nil {
			return
		}
	}
}

func (r *Route) Delay0() time.Duration {
	return 400 * time.Millisecond
}

func waitClosed(c net.Conn, limit time.Duration) {
	c.SetReadDeadline(time.Now().Add(limit))
	buf := make([]byte, 1024)
	for {
		if _, err := c.Read(buf); err != nil {
			return
		}
	}
}

// Quiesce waits until no connection is being served (or the limit passes).
func (s *Sim) Quiesce(limit time.Duration) bool {
	deadline := time.Now().Add(limit)
	for time.Now().Before(deadline) {
		if s.Open() == 0 {
			return true
		}
		time.Sleep(time.Millisecond)
	}
	return false
}

// ParseRequest splits raw request bytes strictly: request line tokens (split at single
// spaces), header lines as name/value pairs, and the number of bytes after the blank line.
func ParseRequest(raw []byte) (line []string, headers [][2]string, trailing int, ok bool) {
	idx := bytes.Index(raw, []byte("\r\n\r\n"))
	if idx < 0 {
		return nil, nil, 0, false
	}
	head := string(raw[:idx])
	trailing = len(raw) - idx - 4
	lines := strings.Split(head, "\r\n")
	line = strings.Split(lines[0], " ")
	for _, l := range lines[1:] {
		name, value, found := strings.Cut(l, ": ")
		if !found {
			return line, headers, trailing, false
		}
		headers = append(headers, [2]string{name, value})
	}
	return line, headers, trailing, true
}

func minInt(a, b int) int {
	if a < b {
		return a
	}
	return b
}
