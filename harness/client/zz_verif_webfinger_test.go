//go:build verif

package client

import (
	"encoding/json"
	"fmt"
	"servitor/jtp"
	"servitor/verifkit"
	"servitor/verifsim"
	"testing"
	"time"
)

/*
	ResolveWebfinger: one implementation test per model transition (Webfinger.tla).  Every list of
	JRD link classes from TLC is served by the simulator and resolved by the real function.
*/
type verifJrdEntry struct {
	Kind string `json:"kind"`
	Rel  string `json:"rel"`
	Type string `json:"type"`
	Href string `json:"href"`
}

func TestVerifWebfinger(t *testing.T) {
	var in struct {
		Lists [][]verifJrdEntry `json:"lists"`
	}
	verifkit.In(&in)
	out := verifkit.Out()
	defer out.Close()
	sim := verifsim.Get()
	defer sim.Cleanup()
	jtp.VerifSetTimeout(3 * time.Second)
	h := sim.Host("w1")
	for n, list := range in.Lists {
		jtp.VerifSetCache(4)
		entries := []any{}
		for i, e := range list {
			if e.Kind == "nonobj" {
				entries = append(entries, []any{"not an object", 7}[i%2])
				continue
			}
			o := map[string]any{}
			switch e.Rel {
			case "self":
				o["rel"] = "self"
			case "other":
				o["rel"] = []string{"http://webfinger.net/rel/profile-page", "http://ostatus.org/schema/1.0/subscribe"}[i%2]
			case "bad":
				o["rel"] = []any{42, []any{"self"}}[i%2]
			}
			switch e.Type {
			case "activity":
				o["type"] = "application/activity+json"
			case "ld":
				o["type"] = `application/ld+json; profile="https://www.w3.org/ns/activitystreams"`
			case "other":
				o["type"] = "text/html"
			case "bad":
				o["type"] = "not a media type"
			}
			switch e.Href {
			case "ok":
				o["href"] = fmt.Sprintf("https://%s/actor/%d", h.Addr, i+1)
			case "bad":
				o["href"] = map[string]any{"nested": true}
			}
			entries = append(entries, o)
		}
		doc := map[string]any{"subject": "acct:user@" + h.Addr}
		if len(list) > 0 || n%2 == 0 {
			doc["links"] = entries
		}
		data, _ := json.Marshal(doc)
		h.Set("/.well-known/webfinger?resource=acct%3Auser%40"+fmt.Sprintf("%s", escapeColon(h.Addr)), &verifsim.Route{Raw: []byte("HTTP/1.1 200 OK\r\nContent-Type: application/jrd+json\r\n\r\n" + string(data))})
		res := verifkit.M{"t": "err", "i": 0}
		panicked, what := verifkit.Try(func() {
			href, err := ResolveWebfinger("user@" + h.Addr)
			if err == nil {
				var idx int
				fmt.Sscanf(href, "https://"+h.Addr+"/actor/%d", &idx)
				res = verifkit.M{"t": "ok", "i": idx}
			}
		})
		ev := verifkit.M{"ev": "webfinger", "links": list, "res": res, "panic": panicked}
		if panicked {
			ev["what"] = what
		}
		out.Emit(ev)
	}
}

func escapeColon(addr string) string {
	out := ""
	for _, c := range addr {
		if c == ':' {
			out += "%3A"
		} else {
			out += string(c)
		}
	}
	return out
}
