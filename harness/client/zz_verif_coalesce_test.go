//go:build verif

package client

import (
	"net/url"
	"servitor/jtp"
	"servitor/verifkit"
	"servitor/verifsim"
	"sync"
	"sync/atomic"
	"testing"
	"time"
)

/*
	Extra (Coalesce.tla): many goroutines fetch, once each and at random moments, one address whose answer is slow and is an error
	(errors are not cached, so every call needs the network or a flight to join).  Recorded: calls,
	connections made, and the largest number of connections open at the same time - the
	implementation-side observation of the model's OneAtATime counterexample.
*/
func TestVerifCoalesce(t *testing.T) {
	var in struct {
		Callers int `json:"callers"`
		Millis  int `json:"millis"`
		Rounds  int `json:"rounds"`
	}
	verifkit.In(&in)
	out := verifkit.Out()
	defer out.Close()
	sim := verifsim.Get()
	defer sim.Cleanup()
	jtp.VerifSetTimeout(3 * time.Second)
	h := sim.Host("c1")
	for round := 0; round < in.Rounds; round++ {
		sim.Reset()
		jtp.VerifSetCache(8)
		h.Set("/slow", &verifsim.Route{Raw: []byte("HTTP/1.1 503 Busy\r\nContent-Type: text/plain\r\n\r\nlater"), Delay: time.Duration(in.Millis/3) * time.Millisecond})
		link, _ := url.Parse(h.URL("/slow"))
		var calls, disagree int64
		var wg sync.WaitGroup
		rng := verifkit.Rand()
		for c := 0; c < in.Callers; c++ {
			wg.Add(1)
			/* one call each, as the fan-out of a page does; arrivals spread over a few flight durations */
			wait := time.Duration(rng.Intn(in.Millis*1000)) * time.Microsecond
			go func() {
				defer wg.Done()
				time.Sleep(wait)
				item, _, err := FetchURL(link)
				atomic.AddInt64(&calls, 1)
				if err == nil || item != nil {
					atomic.AddInt64(&disagree, 1)
				}
			}()
		}
		wg.Wait()
		sim.Quiesce(2 * time.Second)
		out.Emit(verifkit.M{"ev": "coalesce", "round": round, "callers": in.Callers, "calls": calls, "connections": sim.ConnCount(),
			"max_open": sim.MaxOpen(), "wrong_results": disagree})
	}
}
