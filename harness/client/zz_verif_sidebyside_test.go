//go:build verif

package client

import (
	"fmt"
	"math/rand"
	"net/url"
	"servitor/jtp"
	"servitor/verifkit"
	"servitor/verifsim"
	"sync"
	"testing"
	"time"
)

/*
	Addresses that differ only in their query, in the order of its parts, or in the case of a letter, fetched at the
	same time through client.FetchURL (as the fan-outs of pub do for the entries of one page): every caller gets the
	document of the address it asked for - the first time, and again when everything is cached.  Recorded as fetches
	of a T_Fetch session (the requests are not attributed to callers: none are claimed).
*/
func TestVerifFetchSideBySide(t *testing.T) {
	out := verifkit.Out()
	defer out.Close()
	sim := verifsim.Get()
	defer sim.Cleanup()
	rng := rand.New(rand.NewSource(verifkit.Seed()))
	jtp.VerifSetTimeout(3 * time.Second)
	ids := []string{"h1/q?page=1", "h1/q?page=2", "h1/q?page=3", "h1/q", "h1/Q?page=1", "h2/q?page=1", "h1/r?a=1&b=2", "h1/r?b=2&a=1", "h1/users/alice", "h1/users/Alice",
		"h1/q?page=1&x=", "h1/q?page=01"}
	for round := 0; round < 6; round++ {
		routes := map[string]verifsim.Resp{}
		world := verifkit.M{}
		for _, id := range ids {
			routes[id] = verifsim.Resp{Status: 200, Ct: []string{"activity"}, Body: "obj", Doc: id}
			world[id] = verifkit.M{"status": 200, "ct": []string{"activity"}, "body": "obj", "loc": "", "doc": id}
		}
		w := &verifsim.World{Sim: sim, Routes: routes}
		w.Install(rng)
		for _, id := range ids {
			host, path := verifsim.SplitID(id)
			if route := sim.Host(host).Route(path); route != nil {
				route.Delay = time.Duration(20+rng.Intn(40)) * time.Millisecond
			}
		}
		jtp.VerifSetCache(64)
		out.Emit(verifkit.M{"ev": "reset", "sid": round + 1, "world": world, "cap": 64})
		for pass := 0; pass < 2; pass++ {
			type result struct {
				id, tag, src, frag, err string
				ok, panicked        bool
			}
			results := make([]result, 2*len(ids))
			var wg sync.WaitGroup
			for k := range results {
				k := k
				id := ids[(k+round)%len(ids)]
				wg.Add(1)
				go func() {
					defer wg.Done()
					r := result{id: id, tag: "none", src: "none"}
					link, _ := url.Parse(w.URL(id))
					r.panicked, _ = verifkit.Try(func() {
						item, source, err := FetchURL(link)
						if err != nil {
							r.err = verifkit.Clip(err.Error(), 100)
							return
						}
						r.ok = true
						r.tag, _ = item["tag"].(string)
						if source != nil {
							r.src, r.frag = w.ID(source), source.Fragment
						}
					})
					results[k] = r
				}()
			}
			wg.Wait()
			for _, r := range results {
				ev := verifkit.M{"ev": "fetch", "url": r.id, "kind": "activity", "budget": 20, "frag": "", "srcfrag": r.frag,
					"res": verifkit.M{"ok": r.ok, "doc": r.tag, "src": r.src}, "reqs": []string{}, "plain": 0, "panic": r.panicked, "ms": 0, "pass": pass}
				if r.err != "" {
					ev["err"] = fmt.Sprintf("%s", r.err)
				}
				out.Emit(ev)
			}
		}
		sim.Quiesce(2 * time.Second)
		sim.Reset()
	}
}
