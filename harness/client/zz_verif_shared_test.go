//go:build verif

package client

import (
	"net/url"
	"servitor/jtp"
	"servitor/verifkit"
	"servitor/verifsim"
	"sync"
	"testing"
	"time"
)

/*
	C05: several callers ask for one address at the same time (authors and recipients naming the same actor,
	several replies by one author) and the fetch fails slowly.  Every one of them must get the error - or the
	document - never "no document and no error".  Judged by T_Faults like any other fetch.
*/
func TestVerifFaultsShared(t *testing.T) {
	out := verifkit.Out()
	defer out.Close()
	sim := verifsim.Get()
	defer sim.Cleanup()
	jtp.VerifSetTimeout(time.Second)
	jtp.VerifSetCache(8)
	h := sim.Host("s1")
	body := `{"id":"https://` + h.Addr + `/doc","type":"Note","tag":"doc"}`
	raw := "HTTP/1.1 200 OK\r\nContent-Type: application/activity+json\r\n\r\n" + body
	n := 0
	for round := 0; round < 3; round++ {
		for _, kind := range []string{"close", "cut", "garbage", "stall", "status"} {
			n++
			target := "/shared/" + kind + string(rune('a'+round))
			r := &verifsim.Route{Raw: []byte(raw), Delay: 150 * time.Millisecond}
			whole := false
			switch kind {
			case "close":
				r.Fault, r.At = "cut", 0
			case "cut":
				r.Fault, r.At = "cut", len(raw)-9
			case "garbage":
				r.Raw = []byte("\x00\x01 nothing like http\r\n\r\n")
			case "stall":
				r.Fault, r.At = "stall", 20
			case "status":
				r.Raw = []byte("HTTP/1.1 503 Later\r\nContent-Type: text/plain\r\n\r\nlater")
			}
			h.Set(target, r)
			link, _ := url.Parse(h.URL(target))
			var wg sync.WaitGroup
			outcomes := make([]string, 4)
			start := time.Now()
			for c := range outcomes {
				c := c
				wg.Add(1)
				go func() {
					defer wg.Done()
					time.Sleep(time.Duration(c*20) * time.Millisecond)
					outcomes[c] = "panic"
					verifkit.Try(func() {
						item, _, err := FetchURL(link)
						switch {
						case err != nil:
							outcomes[c] = "err"
						case item == nil:
							outcomes[c] = "nodoc"
						default:
							outcomes[c] = "ok"
						}
					})
				}()
			}
			wg.Wait()
			elapsed := time.Since(start)
			for c, o := range outcomes {
				out.Emit(verifkit.M{"ev": "fault", "id": "shared-" + kind, "hops": 0, "hop": 0, "kind": "shared-" + kind, "at": c, "stage": "shared", "big": false,
					"outcome": o, "whole": whole, "ticks": int(elapsed / time.Second), "ms": elapsed.Milliseconds(), "err": "", "again": "skipped"})
			}
		}
	}
}
