//go:build verif

package client

import (
	"sync"
	"strings"
	"math/rand"
	"net/url"
	"servitor/jtp"
	"servitor/verifkit"
	"servitor/verifsim"
	"sort"
	"testing"
	"time"
)

/*
	C02 driver: (world, input, source) triples from TLC (MC_Provenance) are realised on the
	loopback world with every served full document stamped with its serving host; the real
	client.FetchUnknown is called and what it accepted is recorded.  For every world a few more
	seeded inputs are run against the warm cache.  Judged by T_Prov.tla.
*/

type verifResp struct {
	T    string `json:"t"`
	To   string `json:"to"`
	Id   string `json:"id"`
	Stub bool   `json:"stub"`
}

type verifInput struct {
	T     string `json:"t"`
	U     string `json:"u"`
	Id    string `json:"id"`
	Stub  bool   `json:"stub"`
	Stamp string `json:"stamp"`
}

type verifCase struct {
	World map[string]verifResp `json:"world"`
	Inp   verifInput           `json:"inp"`
	Src   string               `json:"src"`
}

var verifFragmentStamps = true

func verifDoc(w *verifsim.World, id string, stub bool, stamp string) map[string]any {
	doc := map[string]any{"type": "Note"}
	/* ground truth travels in the fragment of the id: it is never sent to a server, does not
	   change the number of keys (stub rule) and is not looked at by servitor */
	if id != "none" {
		doc["id"] = w.URL(id) + "#s=" + stamp
		if !stub && !verifFragmentStamps {
			/* every other world: full documents carry their id exactly as the address reads (what they say about
			   who served them is in their text) */
			doc["id"] = w.URL(id)
		}
	}
	if !stub {
		doc["name"] = "n"
		doc["content"] = "served by " + stamp
	}
	return doc
}

func verifInstallWorld(sim *verifsim.Sim, rng *rand.Rand, world map[string]verifResp) *verifsim.World {
	routes := map[string]verifsim.Resp{}
	w := &verifsim.World{Sim: sim, Routes: routes}
	for u, r := range world {
		host, _ := verifsim.SplitID(u)
		switch r.T {
		case "err":
			routes[u] = verifsim.Resp{Status: []int{404, 410, 500}[rng.Intn(3)], Ct: []string{"html"}, Body: "garbage"}
		case "redir":
			routes[u] = verifsim.Resp{Status: []int{301, 302, 307}[rng.Intn(3)], Body: "empty", Loc: r.To}
		case "doc":
			resp := verifsim.Resp{Status: 200, Ct: []string{"activity"}, Body: "obj", JSON: verifDoc(w, r.Id, r.Stub, host)}
			if idHost, _ := verifsim.SplitID(r.Id); r.Id != "none" && idHost != host && rng.Intn(2) == 0 {
				/* a document that claims an id of another host may say so in its headers too: where the document "is" according to
				   the one who sent it changes nothing about who sent it */
				resp.Extra = []string{[]string{"Content-Location: ", "Location: ", "content-location: "}[rng.Intn(3)] + w.URL(r.Id)}
			}
			routes[u] = resp
		}
	}
	w.Install(rng)
	return w
}

func verifRunCase(out *verifkit.Trace, w *verifsim.World, hosts []string, urls []string, inp verifInput, src string, modelled bool) {
	var input any
	if inp.T == "ref" {
		input = w.URL(inp.U)
	} else {
		input = verifDoc(w, inp.Id, inp.Stub, inp.Stamp)
	}
	var source *url.URL
	if src != "none" {
		source, _ = url.Parse(w.URL(src))
	}
	var ok bool
	id, stamp, idHost := "none", "none", "none"
	panicked, what := verifkit.Try(func() {
		obj, oid, err := FetchUnknown(input, source)
		if err != nil {
			return
		}
		ok = true
		if oid != nil {
			id = w.ID(oid)
			idHost, _ = verifsim.SplitID(id)
		}
		if s, isString := obj["id"].(string); isString {
			if parsed, err := url.Parse(s); err == nil && len(parsed.Fragment) > 2 {
				stamp = parsed.Fragment[2:]
			}
		}
		if text, isString := obj["content"].(string); isString && strings.HasPrefix(text, "served by ") {
			stamp = strings.TrimPrefix(text, "served by ")
		}
	})
	ev := verifkit.M{"ev": "accept", "via": "FetchUnknown", "modelled": modelled, "inp": inp, "src": src,
		"ok": ok, "id": id, "id_host": idHost, "stamp": stamp, "panic": panicked}
	if panicked {
		ev["what"] = what
	}
	out.Emit(ev)
}

func TestVerifProvenance(t *testing.T) {
	var in struct {
		Cases []verifCase `json:"cases"`
		Extra int         `json:"extra"`
	}
	verifkit.In(&in)
	out := verifkit.Out()
	defer out.Close()
	sim := verifsim.Get()
	defer sim.Cleanup()
	rng := verifkit.Rand()
	jtp.VerifSetTimeout(3 * time.Second)
	for sid, c := range in.Cases {
		jtp.VerifSetCache(1 + rng.Intn(4))
		verifFragmentStamps = sid%2 == 0
		w := verifInstallWorld(sim, rng, c.World)
		urls := []string{}
		hostSet := map[string]bool{}
		hostMap := verifkit.M{}
		for u := range c.World {
			urls = append(urls, u)
			h, _ := verifsim.SplitID(u)
			hostSet[h] = true
			hostMap[u] = h
		}
		sort.Strings(urls)
		hosts := []string{}
		for h := range hostSet {
			hosts = append(hosts, h)
		}
		sort.Strings(hosts)
		out.Emit(verifkit.M{"ev": "reset", "sid": sid + 1, "world": c.World, "hosts": hostMap})
		/* warm the cache with other inputs first, half of the time */
		extraBefore := 0
		if rng.Intn(2) == 0 {
			extraBefore = rng.Intn(in.Extra + 1)
		}
		for k := 0; k < in.Extra; k++ {
			if k == extraBefore {
				if sid%4 == 2 {
					/* three callers at the same moment (the fan-outs of pub ask side by side), answers a little late so that the
					   fetches are in flight together: each of them is judged */
					for u := range c.World {
						host, path := verifsim.SplitID(u)
						if route := sim.Host(host).Route(path); route != nil {
							route.Delay = 15 * time.Millisecond
						}
					}
					var wg sync.WaitGroup
					for g := 0; g < 3; g++ {
						wg.Add(1)
						go func() {
							defer wg.Done()
							verifRunCase(out, w, hosts, urls, c.Inp, c.Src, true)
						}()
					}
					wg.Wait()
				} else {
					verifRunCase(out, w, hosts, urls, c.Inp, c.Src, true)
				}
			}
			var inp verifInput
			src := "none"
			if rng.Intn(2) == 0 {
				inp = verifInput{T: "ref", U: urls[rng.Intn(len(urls))]}
				if rng.Intn(2) == 0 {
					src = urls[rng.Intn(len(urls))]
				}
			} else {
				inp = verifInput{T: "emb", Id: append(urls, "none")[rng.Intn(len(urls)+1)], Stub: rng.Intn(3) == 0, Stamp: hosts[rng.Intn(len(hosts))]}
				if rng.Intn(3) > 0 {
					/* enclosing object had a validated id on the host that served it */
					candidates := []string{}
					for _, u := range urls {
						if h, _ := verifsim.SplitID(u); h == inp.Stamp {
							candidates = append(candidates, u)
						}
					}
					if len(candidates) > 0 {
						src = candidates[rng.Intn(len(candidates))]
					}
				}
			}
			verifRunCase(out, w, hosts, urls, inp, src, true)
		}
		if extraBefore >= in.Extra {
			verifRunCase(out, w, hosts, urls, c.Inp, c.Src, true)
		}
	}
}
