//go:build verif

package verifkit

import (
	"strconv"
	"strings"
	"unicode"
	"unicode/utf8"
)

/*
	Two independent, deliberately dumb lexers of terminal text.

	Cells: the cell discipline `(ESC[..m)* rune (ESC[0m)?` used by Layout.tla.
	Toks:  what a terminal would see (Term.tla): runs of printable runes, newlines,
	       SGR sequences, and everything else as control tokens.
*/

type Cell struct {
	K string   `json:"k"` // g visible, sp whitespace other than newline, nl newline, bad: broken escape
	C string   `json:"c"`
	S []string `json:"s"`
	R bool     `json:"r"`
}

func sgrAt(text string, i int) (params string, next int, ok bool) {
	if i+1 >= len(text) || text[i] != 0x1b || text[i+1] != '[' {
		return "", i, false
	}
	j := i + 2
	for j < len(text) && (text[j] == ';' || (text[j] >= '0' && text[j] <= '9')) {
		j++
	}
	if j < len(text) && text[j] == 'm' {
		return text[i+2 : j], j + 1, true
	}
	return "", i, false
}

func Cells(text string) []Cell {
	cells := []Cell{}
	i := 0
	for i < len(text) {
		c := Cell{S: []string{}}
		for {
			params, next, ok := sgrAt(text, i)
			if !ok {
				break
			}
			c.S = append(c.S, params)
			i = next
		}
		if i >= len(text) {
			/* dangling prefixes without a character */
			c.K, c.C = "bad", "dangling"
			cells = append(cells, c)
			break
		}
		r, size := utf8.DecodeRuneInString(text[i:])
		i += size
		c.C = string(r)
		switch {
		case r == '\n':
			c.K = "nl"
		case r == 0x1b || (r == utf8.RuneError && size == 1):
			c.K = "bad"
			c.C = "U+" + strconv.FormatInt(int64(r), 16)
		case unicode.IsSpace(r):
			c.K = "sp"
		default:
			c.K = "g"
		}
		if strings.HasPrefix(text[i:], "\x1b[0m") {
			c.R = true
			i += 4
		}
		cells = append(cells, c)
	}
	return cells
}

func Uncells(cells []Cell) string {
	var b strings.Builder
	for _, c := range cells {
		for _, s := range c.S {
			b.WriteString("\x1b[" + s + "m")
		}
		b.WriteString(c.C)
		if c.R {
			b.WriteString("\x1b[0m")
		}
	}
	return b.String()
}

type Tok struct {
	T    string `json:"t"`
	N    int    `json:"n,omitempty"`
	P    []int  `json:"p,omitempty"`
	Code int    `json:"code,omitempty"`
	Id   string `json:"id,omitempty"`
}

// Toks tokenises raw terminal output. With ids set, every printable rune becomes its own
// token and runes found in ids carry their identity.
func Toks(text string, ids map[rune]string) []Tok {
	toks := []Tok{}
	run := 0
	flush := func() {
		if run > 0 {
			toks = append(toks, Tok{T: "ch", N: run})
			run = 0
		}
	}
	i := 0
	for i < len(text) {
		if params, next, ok := sgrAt(text, i); ok {
			flush()
			p := []int{}
			for _, f := range strings.Split(params, ";") {
				n, err := strconv.Atoi(f)
				if err != nil || len(f) > 6 {
					n = -1
				}
				p = append(p, n)
			}
			toks = append(toks, Tok{T: "sgr", P: p})
			i = next
			continue
		}
		r, size := utf8.DecodeRuneInString(text[i:])
		i += size
		switch {
		case r == '\n':
			flush()
			toks = append(toks, Tok{T: "nl"})
		case r == utf8.RuneError && size == 1:
			flush()
			toks = append(toks, Tok{T: "ctl", Code: int(text[i-1])})
		case unicode.IsControl(r):
			flush()
			toks = append(toks, Tok{T: "ctl", Code: int(r)})
		default:
			if ids != nil {
				flush()
				toks = append(toks, Tok{T: "ch", N: 1, Id: ids[r]})
			} else {
				run++
			}
		}
	}
	flush()
	return toks
}
