//go:build verif

// Package verifkit: small helpers shared by the conformance harness files that the
// verification framework overlays onto servitor's packages (go test -overlay, tag verif).
package verifkit

import (
	"bufio"
	"encoding/json"
	"fmt"
	"math/rand"
	"os"
	"strconv"
	"sync"
)

// In reads the JSON document named by $VERIF_IN into v (no-op when unset).
func In(v any) bool {
	path := os.Getenv("VERIF_IN")
	if path == "" {
		return false
	}
	data, err := os.ReadFile(path)
	if err != nil {
		panic(err)
	}
	if err := json.Unmarshal(data, v); err != nil {
		panic(fmt.Errorf("VERIF_IN %s: %w", path, err))
	}
	return true
}

func Seed() int64 {
	n, err := strconv.ParseInt(os.Getenv("VERIF_SEED"), 10, 64)
	if err != nil {
		return 1
	}
	return n
}

func Rand() *rand.Rand { return rand.New(rand.NewSource(Seed())) }

func Thorough() bool { return os.Getenv("VERIF_TIER") == "thorough" }

func EnvInt(name string, def int) int {
	n, err := strconv.Atoi(os.Getenv(name))
	if err != nil {
		return def
	}
	return n
}

// Trace is an ndjson writer; one event per line, flushed per line so that a crashing
// process leaves everything it did on disk.
type Trace struct {
	mu sync.Mutex
	f  *os.File
	w  *bufio.Writer
	N  int
}

func Out() *Trace {
	return OutTo(os.Getenv("VERIF_OUT"))
}

func OutTo(path string) *Trace {
	if path == "" {
		path = os.DevNull
	}
	f, err := os.OpenFile(path, os.O_CREATE|os.O_WRONLY|os.O_APPEND, 0o644)
	if err != nil {
		panic(err)
	}
	return &Trace{f: f, w: bufio.NewWriterSize(f, 1<<16)}
}

type M = map[string]any

func (t *Trace) Emit(ev M) {
	data, err := json.Marshal(ev)
	if err != nil {
		panic(err)
	}
	t.mu.Lock()
	t.w.Write(data)
	t.w.WriteByte('\n')
	/* flushed per line: a crashing process leaves everything it did on disk */
	t.w.Flush()
	t.N++
	t.mu.Unlock()
}

func (t *Trace) Flush() {
	t.mu.Lock()
	t.w.Flush()
	t.mu.Unlock()
}

func (t *Trace) Close() {
	t.Flush()
	t.f.Close()
}

// Try runs f and reports whether it panicked (and with what).
func Try(f func()) (panicked bool, what string) {
	defer func() {
		if r := recover(); r != nil {
			panicked = true
			what = fmt.Sprint(r)
		}
	}()
	f()
	return
}

// Clip shortens a string for logging and makes it ASCII-safe.
func Clip(s string, n int) string {
	out := make([]rune, 0, n)
	for _, r := range s {
		if len(out) >= n {
			break
		}
		if r < 0x20 || r == 0x7f || r > 0xfffd {
			r = '?'
		}
		out = append(out, r)
	}
	return string(out)
}
