//go:build verif

package jtp

import (
	"fmt"
	"math/rand"
	"net/url"
	"sort"
	"strings"
	"servitor/verifkit"
	"servitor/verifsim"
	"testing"
	"time"

)

/*
	C03 driver: fetch histories against the loopback world.  Sessions (world, cache capacity,
	fetch sequence) come from TLC (Gen_Fetch) and from a seeded random generator; after every
	Get the result and the requests the simulator saw are recorded.  Judged by T_Fetch.tla.
*/

const (
	verifAcceptActivity  = `application/activity+json,application/ld+json; profile="https://www.w3.org/ns/activitystreams"`
	verifAcceptWebfinger = "application/jrd+json"
)

func verifKind(kind string) (string, []string) {
	if kind == "webfinger" {
		return verifAcceptWebfinger, []string{"application/jrd+json", "application/json"}
	}
	if kind == "narrow" {
		/* what is asked for is not what is tolerated (as the package's own tests call it) */
		return "application/activity+json", []string{"application/json"}
	}
	return verifAcceptActivity, []string{"application/activity+json", "application/ld+json", "application/json"}
}

type verifFetch struct {
	Url    string `json:"url"`
	Kind   string `json:"kind"`
	Budget uint   `json:"budget"`
	Frag   string `json:"frag"`
}

type verifSessionIn struct {
	World   map[string]verifsim.Resp `json:"world"`
	Cap     int                      `json:"cap"`
	Fetches []verifFetch             `json:"fetches"`
}

func verifSetCache(capacity int) { VerifSetCache(capacity) }

func verifWorldJSON(w map[string]verifsim.Resp) verifkit.M {
	out := verifkit.M{}
	for id, r := range w {
		ct := r.Ct
		if ct == nil {
			ct = []string{}
		}
		out[id] = verifkit.M{"status": r.Status, "ct": ct, "body": r.Body, "loc": r.Loc, "doc": r.Doc}
	}
	return out
}

func verifRunSession(out *verifkit.Trace, rng *rand.Rand, sid int, s verifSessionIn) {
	sim := verifsim.Get()
	/* a non-https URL is, half of the time, the plain-http twin of an https URL of the same world (same host,
	   port, path and query): nothing learnt about the one may leak to the other */
	ids := make([]string, 0, len(s.World))
	for id, r := range s.World {
		if r.Status != -1 {
			ids = append(ids, id)
		}
	}
	sort.Strings(ids)
	names := make([]string, 0, len(s.World))
	for id := range s.World {
		names = append(names, id)
	}
	sort.Strings(names)
	for _, id := range names {
		if r := s.World[id]; r.Status == -1 && r.Twin == "" && len(ids) > 0 && rng.Intn(2) == 0 {
			r.Twin = ids[rng.Intn(len(ids))]
			s.World[id] = r
		}
	}
	w := &verifsim.World{Sim: sim, Routes: s.World}
	w.Install(rng)
	verifSetCache(s.Cap)
	out.Emit(verifkit.M{"ev": "reset", "sid": sid, "world": verifWorldJSON(s.World), "cap": s.Cap})
	for _, f := range s.Fetches {
		/* a fragment on the address asked for, some of the time (it is never sent; what is reported back must not
		   carry one that is not its own) */
		if f.Frag == "" && rng.Intn(4) == 0 {
			f.Frag = fmt.Sprintf("f%d", rng.Intn(3))
		}
		address := w.URL(f.Url)
		if f.Frag != "" {
			address += "#" + f.Frag
		}
		link, err := url.Parse(address)
		if err != nil {
			panic(err)
		}
		accept, tolerated := verifKind(f.Kind)
		before := sim.ConnCount()
		var item map[string]any
		var source *url.URL
		var ferr error
		start := time.Now()
		panicked, what := verifkit.Try(func() { item, source, ferr = Get(link, accept, tolerated, f.Budget) })
		sim.Quiesce(2 * time.Second)
		reqs := []string{}
		plain := 0
		for _, c := range sim.Conns()[before:] {
			if c.Plain {
				plain++
				continue
			}
			reqs = append(reqs, w.ConnID(c))
		}
		res := verifkit.M{"ok": false, "doc": "none", "src": "none"}
		srcfrag := ""
		if !panicked && ferr == nil && source != nil {
			srcfrag = source.Fragment
		}
		if !panicked && ferr == nil {
			tag, _ := item["tag"].(string)
			if item == nil {
				tag = "nil-map"
			}
			res = verifkit.M{"ok": true, "doc": tag, "src": w.ID(source)}
		}
		ev := verifkit.M{"ev": "fetch", "url": f.Url, "kind": f.Kind, "budget": f.Budget, "frag": f.Frag, "srcfrag": srcfrag, "res": res, "reqs": reqs,
			"plain": plain, "panic": panicked, "ms": time.Since(start).Milliseconds()}
		if ferr != nil {
			ev["err"] = verifkit.Clip(ferr.Error(), 120)
		}
		if panicked {
			ev["err"] = what
		}
		out.Emit(ev)
	}
}

/* random worlds: redirect chains, cycles, every response class */
func verifRandomSession(rng *rand.Rand, long bool) verifSessionIn {
	hosts := []string{"h1", "h2", "h3"}
	n := 3 + rng.Intn(6)
	ids := make([]string, n)
	dirs := []string{"/", "/", "/d/", "/d/e/", "/users/x/"}
	for i := range ids {
		ids[i] = hosts[rng.Intn(len(hosts))] + dirs[rng.Intn(len(dirs))] + string(rune('a'+i))
		if i > 0 && rng.Intn(8) == 0 {
			/* same path as an earlier URL, told apart by the query only */
			base, _, _ := strings.Cut(ids[rng.Intn(i)], "?")
			ids[i] = base + "?page=" + string(rune('a'+i))
		}
	}
	world := map[string]verifsim.Resp{}
	for i, id := range ids {
		var r verifsim.Resp
		switch x := rng.Intn(20); {
		case x < 8:
			/* redirect, preferably down the chain so long chains exist */
			to := ids[rng.Intn(n)]
			if i > 0 && rng.Intn(3) > 0 {
				to = ids[i-1]
			}
			r = verifsim.Resp{Status: []int{301, 302, 303, 307, 308}[rng.Intn(5)], Body: "empty", Loc: to}
			if rng.Intn(12) == 0 {
				r.Loc = hosts[0] + "/unknown"
			}
		case x < 13:
			r = verifsim.Resp{Status: 200 + rng.Intn(4), Ct: []string{[]string{"activity", "ld", "json", "jrd"}[rng.Intn(4)]}, Body: "obj"}
		case x == 13:
			r = verifsim.Resp{Status: []int{204, 400, 404, 410, 500, 503, 100, 101, 103, 199, 226, 299}[rng.Intn(12)], Ct: []string{"activity"}, Body: "obj"}
		case x == 14:
			r = verifsim.Resp{Status: 200, Ct: []string{[]string{"html", "bad", "wild"}[rng.Intn(3)]}, Body: "obj"}
		case x == 15 && rng.Intn(2) == 0:
			/* a foreign type declared next to a tolerated one, in either order */
			r = verifsim.Resp{Status: 200, Ct: [][]string{{"html", "json"}, {"activity", "html"}, {"bad", "activity"}, {"json", "wild"}}[rng.Intn(4)], Body: "obj"}
		case x == 15:
			r = verifsim.Resp{Status: 200, Ct: []string{}, Body: "obj"}
		case x == 16:
			r = verifsim.Resp{Status: 200, Ct: []string{"activity"}, Body: []string{"array", "scalar", "garbage", "empty"}[rng.Intn(4)]}
		case x == 17:
			r = verifsim.Resp{Status: 0, Ct: []string{"activity"}, Body: "obj"}
		case x == 18 && rng.Intn(2) == 0:
			/* no Location header; the body has a line that looks like one and points at a document of this world */
			r = verifsim.Resp{Status: 302, Body: "locline", Twin: ids[rng.Intn(n)]}
		case x == 18:
			r = verifsim.Resp{Status: 302, Body: "empty"}
		default:
			r = verifsim.Resp{Status: -1, Body: "empty"}
		}
		if r.Ct == nil {
			r.Ct = []string{}
		}
		r.Doc = "d-" + id
		world[id] = r
	}
	nf := 2 + rng.Intn(6)
	if long {
		nf = 4 + rng.Intn(12)
	}
	fetches := make([]verifFetch, nf)
	for i := range fetches {
		kind := "activity"
		if rng.Intn(4) == 0 {
			kind = "webfinger"
		}
		fetches[i] = verifFetch{Url: ids[rng.Intn(n)], Kind: kind, Budget: uint(rng.Intn(5))}
		/* the same URL again with a budget one or two smaller: a warm cache must not stretch it */
		if i > 0 && rng.Intn(3) == 0 && fetches[i-1].Budget > 0 {
			fetches[i] = fetches[i-1]
			fetches[i].Budget -= uint(1 + rng.Intn(int(fetches[i-1].Budget)))%(fetches[i-1].Budget+1)
			if fetches[i].Budget == fetches[i-1].Budget {
				fetches[i].Budget--
			}
		}
	}
	return verifSessionIn{World: world, Cap: 1 + rng.Intn(4), Fetches: fetches}
}

func TestVerifFetch(t *testing.T) {
	var in struct {
		Sessions []verifSessionIn `json:"sessions"`
		Random   int              `json:"random"`
	}
	verifkit.In(&in)
	out := verifkit.Out()
	defer out.Close()
	defer verifsim.Get().Cleanup()
	rng := verifkit.Rand()
	dialer.Timeout = 3 * time.Second
	sid := 0
	for _, s := range in.Sessions {
		sid++
		verifRunSession(out, rng, sid, s)
	}
	for i := 0; i < in.Random; i++ {
		sid++
		verifRunSession(out, rng, sid, verifRandomSession(rng, i%4 == 0))
	}
	/* the budget the client really uses (20): chains just below, at and above it, visited in an order that
	   would expose results leaking from one fetch into another */
	for round := 0; round < 3; round++ {
		world := map[string]verifsim.Resp{}
		hosts := []string{"h1", "h2", "h3"}
		id := func(k int) string { return fmt.Sprintf("%s/chain/l%d", hosts[k%3], k) }
		world[id(0)] = verifsim.Resp{Status: 200, Ct: []string{"activity"}, Body: "obj", Doc: "d-end"}
		for k := 1; k <= 24; k++ {
			world[id(k)] = verifsim.Resp{Status: 301 + rng.Intn(2), Ct: []string{}, Body: "empty", Loc: id(k - 1), Doc: "-"}
		}
		orders := [][][2]int{
			{{20, 20}, {21, 20}, {19, 20}, {21, 20}, {5, 3}, {5, 5}, {24, 20}, {4, 20}},
			{{22, 20}, {3, 20}, {20, 20}, {21, 20}, {2, 1}, {1, 0}, {1, 1}},
			{{10, 20}, {21, 20}, {20, 20}, {11, 9}, {11, 11}, {23, 20}, {3, 3}},
		}
		fetches := []verifFetch{}
		for _, f := range orders[round] {
			fetches = append(fetches, verifFetch{Url: id(f[0]), Kind: "activity", Budget: uint(f[1])})
		}
		sid++
		verifRunSession(out, rng, sid, verifSessionIn{World: world, Cap: []int{2, 8, 64}[round], Fetches: fetches})
	}
}
