//go:build verif

package jtp

import (
	"os"
	"fmt"
	"net/url"
	"servitor/verifkit"
	"servitor/verifsim"
	"strings"
	"sync"
	"testing"
	"time"
)

/*
	C05 driver (fault enumeration): a corpus of exchanges (small / large document, 1- and 2-hop
	redirect chains); at every hop, every cut point of the response byte by byte (close and
	reset), refusal, garbage instead of TLS, and stalls / trickles at every stage.  The
	configured timeout is 1 s.  Judged by T_Faults.tla.
*/

const verifT = time.Second

type verifFaultCase struct {
	id    string
	hops  int // redirects before the final document
	hop   int // where the fault sits
	kind  string
	at    int
	stage string
	big   bool
}

func verifDocBody(h *verifsim.Host, path string, big bool) string {
	filler := ""
	if big {
		filler = `,"content":"` + strings.Repeat("lorem ipsum dolor sit amet ", 700) + `"`
	}
	return fmt.Sprintf(`{"id":"https://%s%s","type":"Note","tag":"doc","published":"2024-01-02T03:04:05Z"%s}`, h.Addr, path, filler) + "\n"
}

/* installs the chain for one case and returns the URL to fetch plus the response carrying the fault */
func verifInstall(sim *verifsim.Sim, c verifFaultCase, apply bool) (string, []byte, int) {
	hosts := []*verifsim.Host{sim.Host("f1"), sim.Host("f2"), sim.Host("f3")}
	/* any other path on these hosts yields a perfectly valid decoy document, so a truncated
	   Location that is followed anyway shows up as a document instead of an error */
	for _, h := range hosts {
		h.Fallback = &verifsim.Route{Raw: []byte("HTTP/1.1 200 OK\r\nContent-Type: application/activity+json\r\n\r\n" +
			`{"id":"https://` + h.Addr + `/decoy","type":"Note","tag":"decoy","content":"decoy"}`)}
	}
	var faultRaw []byte
	jsonEnd := 0
	for i := 0; i <= c.hops; i++ {
		h := hosts[i%3]
		path := fmt.Sprintf("/%s/%d", c.id, i)
		var raw string
		if i < c.hops {
			next := hosts[(i+1)%3]
			raw = fmt.Sprintf("HTTP/1.1 302 Found\r\nServer: sim\r\nLocation: https://%s/%s/%d\r\nContent-Length: 0\r\n\r\n", next.Addr, c.id, i+1)
		} else {
			raw = "HTTP/1.1 200 OK\r\nServer: sim\r\nContent-Type: application/activity+json; charset=utf-8\r\n\r\n" + verifDocBody(h, path, c.big)
		}
		r := &verifsim.Route{Raw: []byte(raw)}
		if i == c.hop {
			faultRaw = []byte(raw)
			jsonEnd = strings.LastIndex(raw, "}") + 1
			if i < c.hops {
				/* a redirect is complete once its Location line has been delivered */
				jsonEnd = strings.Index(raw, "\r\nContent-Length")+2
			}
			if apply {
				switch c.kind {
				case "cut", "reset", "stall", "trickle":
					r.Fault, r.At = c.kind, c.at
				}
			}
		}
		h.Set(path, r)
	}
	return hosts[0].URL(fmt.Sprintf("/%s/0", c.id)), faultRaw, jsonEnd
}

func verifStageOf(raw []byte, at int) string {
	s := string(raw)
	statusEnd := strings.Index(s, "\n") + 1
	headEnd := strings.Index(s, "\r\n\r\n") + 4
	switch {
	case at == 0:
		return "before-status"
	case at < statusEnd:
		return "in-status"
	case at < headEnd:
		return "in-headers"
	case at < len(raw):
		return "in-body"
	}
	return "complete"
}

var verifLost int

func verifRunFault(out *verifkit.Trace, sim *verifsim.Sim, c verifFaultCase, url_ string, raw []byte, wholeFrom int) {
	link, _ := url.Parse(url_)
	type result struct {
		item map[string]any
		err  error
		pan  bool
	}
	done := make(chan result, 1)
	start := time.Now()
	go func() {
		var r result
		r.pan, _ = verifkit.Try(func() {
			r.item, _, r.err = Get(link, verifAcceptActivity, []string{"application/activity+json", "application/ld+json", "application/json"}, 5)
		})
		done <- r
	}()
	limit := time.Duration(3*(c.hop+1))*verifT + 3*time.Second
	outcome := "timeout"
	errText := ""
	select {
	case r := <-done:
		switch {
		case r.pan:
			outcome = "panic"
		case r.err != nil:
			outcome, errText = "err", verifkit.Clip(r.err.Error(), 100)
		case r.item == nil:
			outcome, errText = "nodoc", "neither a document nor an error"
		default:
			outcome = "ok"
			if tag, _ := r.item["tag"].(string); tag != "doc" {
				outcome, errText = "ok", "wrong document"
			}
		}
	case <-time.After(limit):
	}
	elapsed := time.Since(start)
	/* the peer recovers; the same address is asked for again: whatever the fault left behind (in the cache)
	   must not turn the answer into "no document and no error" */
	again := "skipped"
	if outcome != "timeout" && (c.kind == "cut" || c.kind == "reset") && c.hops > 0 {
		verifInstall(sim, c, false)
		var item map[string]any
		var err error
		pan, _ := verifkit.Try(func() {
			item, _, err = Get(link, verifAcceptActivity, []string{"application/activity+json", "application/ld+json", "application/json"}, 5)
		})
		switch {
		case pan:
			again = "panic"
		case err != nil:
			again = "err"
		case item == nil:
			again = "nodoc"
		default:
			again = "doc"
		}
	}
	whole := true
	switch c.kind {
	case "cut", "reset":
		whole = c.at >= wholeFrom
	case "stall":
		whole = c.at >= wholeFrom
	case "refuse", "garbage_pre", "nohandshake", "reset_pre", "garbage":
		whole = false
	}
	stage := c.stage
	if stage == "" {
		stage = verifStageOf(raw, c.at)
	}
	out.Emit(verifkit.M{"ev": "fault", "id": c.id, "hops": c.hops, "hop": c.hop, "kind": c.kind, "at": c.at, "stage": stage,
		"big": c.big, "outcome": outcome, "whole": whole, "ticks": int(elapsed / verifT), "ms": elapsed.Milliseconds(), "err": errText, "again": again})
	if outcome == "timeout" {
		/* a fetch that has not come back is still at work somewhere (it may be asking again and again): after the second one
		   the run is given up, what was seen so far stands */
		verifLost++
		if verifLost >= 2 {
			out.Emit(verifkit.M{"ev": "aborted", "why": "two fetches did not return"})
			out.Close()
			os.Exit(3)
		}
	}
}

func TestVerifFaults(t *testing.T) {
	var in struct {
		Stride int `json:"stride"` // every n-th cut point (1 = all)
		Hops   int `json:"hops"`
	}
	verifkit.In(&in)
	if in.Stride < 1 {
		in.Stride = 1
	}
	out := verifkit.Out()
	defer out.Close()
	sim := verifsim.Get()
	defer sim.Cleanup()
	dialer.Timeout = verifT
	verifSetCache(4)
	n := 0
	newID := func() string { n++; return fmt.Sprintf("c%d", n) }

	/* 1. cut points, sequentially (fast: the peer closes at once) */
	for hops := 0; hops <= in.Hops; hops++ {
		for hop := 0; hop <= hops; hop++ {
			for _, big := range []bool{false, true} {
				if big && hop != hops {
					continue
				}
				probe := verifFaultCase{id: "probe", hops: hops, hop: hop, big: big}
				_, raw, _ := verifInstall(sim, probe, false)
				stride := in.Stride
				if big {
					stride = in.Stride * 97
				}
				if hop < hops {
					/* a redirect is short and every byte of its Location line matters: all offsets */
					stride = 1
				}
				for _, kind := range []string{"cut", "reset"} {
					for at := 0; at <= len(raw); at++ {
						boundary := at < 3 || at > len(raw)-4 || raw[minI(at, len(raw)-1)] == '\n' || raw[minI(at, len(raw)-1)] == '{'
						if at%stride != 0 && !boundary {
							continue
						}
						c := verifFaultCase{id: newID(), hops: hops, hop: hop, kind: kind, at: at, big: big}
						u, r, wholeFrom := verifInstall(sim, c, true)
						verifRunFault(out, sim, c, u, r, wholeFrom)
					}
				}
			}
		}
	}
	sim.Quiesce(3 * time.Second)

	/* 2. refusal, garbage instead of a handshake, reset before the handshake */
	for _, kind := range []string{"refuse", "garbage_pre", "reset_pre"} {
		for hops := 0; hops <= in.Hops; hops++ {
			for hop := 0; hop <= hops; hop++ {
				c := verifFaultCase{id: newID(), hops: hops, hop: hop, kind: kind, stage: "connect"}
				u, r, wf := verifInstall(sim, c, true)
				victim := []string{"f1", "f2", "f3"}[hop%3]
				if kind == "refuse" {
					addr := sim.Host(victim).Addr
					sim.DropHost(victim)
					/* the chain still points at the dropped address */
					verifRunFault(out, sim, c, u, r, wf)
					_ = addr
					sim.Host(victim)
					continue
				}
				sim.Host(victim).Set("*handshake*", &verifsim.Route{Fault: kind})
				verifRunFault(out, sim, c, u, r, wf)
				sim.Reset()
			}
		}
	}

	/* 3. stalls and trickles, all in parallel (each costs about one timeout) */
	var wg sync.WaitGroup
	launch := func(c verifFaultCase, pre func()) {
		u, r, wf := verifInstall(sim, c, true)
		if pre != nil {
			pre()
		}
		wg.Add(1)
		go func() {
			defer wg.Done()
			verifRunFault(out, sim, c, u, r, wf)
		}()
	}
	for hops := 0; hops <= in.Hops; hops++ {
		for hop := 0; hop <= hops; hop++ {
			probe := verifFaultCase{id: "probe", hops: hops, hop: hop}
			_, raw, _ := verifInstall(sim, probe, false)
			s := string(raw)
			statusEnd := strings.Index(s, "\n") + 1
			headEnd := strings.Index(s, "\r\n\r\n") + 4
			points := []int{0, 5, statusEnd, statusEnd + 9, headEnd - 2, headEnd}
			if hop == hops {
				points = append(points, headEnd+10, len(raw)-3)
			}
			for _, at := range points {
				launch(verifFaultCase{id: newID(), hops: hops, hop: hop, kind: "stall", at: at}, nil)
				launch(verifFaultCase{id: newID(), hops: hops, hop: hop, kind: "trickle", at: at}, nil)
			}
		}
	}
	wg.Wait()
	/* hops that are slow but within their limits, then a peer that stalls: every hop has a timeout of its own, and
	   the time the earlier ones took must not eat the last one's (let alone leave it without any) */
	for hops := 1; hops <= in.Hops+1 && hops <= 2; hops++ {
		/* where the time goes: in the answers of the earlier hops and the handshake of the last one; everywhere; in
		   the handshakes only; in the answers only */
		for profile := 0; profile < 4; profile++ {
			at := []int{0, 12}[profile%2]
			c := verifFaultCase{id: newID(), hops: hops, hop: hops, kind: "stall", at: at}
			u, r, wf := verifInstall(sim, c, true)
			for i := 0; i <= hops; i++ {
				h := sim.Host([]string{"f1", "f2", "f3"}[i%3])
				slowShake := profile == 1 || profile == 2 || (profile == 0 && i == hops)
				slowAnswer := profile == 1 || profile == 3 || (profile == 0 && i < hops)
				if slowShake {
					h.Set("*handshake*", &verifsim.Route{Fault: "slowhandshake", Delay: verifT * 6 / 10})
				}
				if slowAnswer && i < hops {
					if route := h.Route(fmt.Sprintf("/%s/%d", c.id, i)); route != nil {
						route.Delay = verifT * 6 / 10
					}
				}
			}
			verifRunFault(out, sim, c, u, r, wf)
			sim.Reset()
		}
	}
	/* garbage in place of the status line: nothing but a line break, a line break in front of an otherwise good response, blanks */
	for hops := 0; hops <= 1; hops++ {
		for _, first := range []string{"\n", "\r\n", "\n\n", " \n", "\nHTTP/1.1 200 OK\r\nContent-Type: application/activity+json\r\n\r\n{\"type\":\"Note\",\"tag\":\"doc\"}", "\x00\n", "H\n"} {
			c := verifFaultCase{id: newID(), hops: hops, hop: hops, kind: "garbage", stage: "before-status"}
			u, _, _ := verifInstall(sim, c, false)
			host := sim.Host([]string{"f1", "f2", "f3"}[hops%3])
			host.Set(fmt.Sprintf("/%s/%d", c.id, hops), &verifsim.Route{Raw: []byte(first)})
			verifRunFault(out, sim, c, u, []byte(first), len(first)+1)
			sim.Reset()
		}
	}
	/* garbage of another kind: a redirect to an address of hundreds of kilobytes (the next hop serves it): the fetch
	   ends, with a document or an error, in the time a hop may take */
	for _, size := range []int{40000, 300000} {
		c := verifFaultCase{id: newID(), hops: 1, hop: 1, kind: "longloc", stage: "headers"}
		f1, f2 := sim.Host("f1"), sim.Host("f2")
		long := fmt.Sprintf("/%s/1?pad=%s", c.id, strings.Repeat("a", size))
		f1.Set(fmt.Sprintf("/%s/0", c.id), &verifsim.Route{Raw: []byte("HTTP/1.1 302 Found\r\nLocation: https://" + f2.Addr + long + "\r\n\r\n")})
		raw := "HTTP/1.1 200 OK\r\nContent-Type: application/activity+json\r\n\r\n" + verifDocBody(f2, long[:40], false)
		f2.Set(long, &verifsim.Route{Raw: []byte(raw)})
		f2.Fallback = &verifsim.Route{Raw: []byte(raw)}
		verifRunFault(out, sim, c, f1.URL(fmt.Sprintf("/%s/0", c.id)), []byte(raw), 0)
		sim.Reset()
	}
	/* a peer that accepts the TCP connection and never handshakes (own host: the fault is per host) */
	for hops := 0; hops <= in.Hops; hops++ {
		c := verifFaultCase{id: newID(), hops: hops, hop: hops, kind: "nohandshake", stage: "handshake"}
		u, r, wf := verifInstall(sim, c, true)
		sim.Host([]string{"f1", "f2", "f3"}[hops%3]).Set("*handshake*", &verifsim.Route{Fault: "nohandshake"})
		verifRunFault(out, sim, c, u, r, wf)
		sim.Reset()
	}
}

func minI(a, b int) int {
	if a < b {
		return a
	}
	return b
}
