//go:build verif

package jtp

import (
	"time"
)

/* Test-only access for harness files of other packages (never built without the verif tag). */

// VerifSetCache empties the response cache and gives it the capacity asked for.  Written against
// what the cache can do (Purge, Resize) rather than against its type, so that the harness still
// builds when the kind of cache changes.
func VerifSetCache(capacity int) {
	var c any = cache
	if p, ok := c.(interface{ Purge() }); ok {
		p.Purge()
	}
	if r, ok := c.(interface{ Resize(int) int }); ok {
		r.Resize(capacity)
	}
}

// VerifSetTimeout sets the configured network timeout.
func VerifSetTimeout(d time.Duration) {
	dialer.Timeout = d
}
