//go:build verif

package jtp

import (
	"time"

	lru "github.com/hashicorp/golang-lru/v2"
)

/* Test-only access for harness files of other packages (never built without the verif tag). */

// VerifSetCache replaces the response cache by an empty one of the given capacity.
func VerifSetCache(capacity int) {
	cache, _ = lru.New[string, bundle](capacity)
}

// VerifSetTimeout sets the configured network timeout.
func VerifSetTimeout(d time.Duration) {
	dialer.Timeout = d
}
