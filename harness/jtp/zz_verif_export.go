//go:build verif

package jtp

import (
	"syscall"
	"time"
)

/* Test-only access for harness files of other packages (never built without the verif tag). */

// VerifSetCache empties the response cache and gives it the capacity asked for.  Written against
// what the cache can do (Purge, Resize) rather than against its type, so that the harness still
// builds when the kind of cache changes.
func VerifSetCache(capacity int) {
	var c any = cache
	if p, ok := c.(interface{ Purge() }); ok {
		p.Purge()
	}
	if r, ok := c.(interface{ Resize(int) int }); ok {
		r.Resize(capacity)
	}
}

// VerifSetTimeout sets the configured network timeout.
func VerifSetTimeout(d time.Duration) {
	dialer.Timeout = d
}

// VerifSmallSendBuffer makes every connection dialled from now on use a send buffer of a few kilobytes (so that a
// long request to a peer that does not read cannot be written), or puts the default back.
func VerifSmallSendBuffer(on bool) {
	if !on {
		dialer.Control = nil
		return
	}
	dialer.Control = func(network, address string, c syscall.RawConn) error {
		return c.Control(func(fd uintptr) { syscall.SetsockoptInt(int(fd), syscall.SOL_SOCKET, syscall.SO_SNDBUF, 4096) })
	}
}
