//go:build verif

package ansi

import (
	"sync"
	"math/rand"
	"servitor/verifkit"
	"strings"
	"testing"
)

/*
	C13 / C16 driver: executes the layout helpers on (a) every text TLC enumerated
	(codes a, b, s, n -> plain glyph, styled glyph, space, newline) and (b) seeded random
	styled Unicode texts, and records input and output as cell sequences.
	The judgement is made by TLC (T_Layout.tla), not here.
*/

var verifGlyphs = []rune("abcdefgXYZ019.,;:!?()[]é世界ж🙂ʼ-_\u0301\u200d\u0308\ufffd\ufffd")
var verifSpaces = []rune{' ', ' ', ' ', ' ', '\t', ' ', ' ', ' ', ' ', ' ', ' ', ' ', ' ', '　', '\u0085', '\r', '\v', '\f'}
var verifStyles = []string{"1", "3", "4", "9", "38;2;164;245;155", "48;2;75;75;75", "38;2;0;0;0"}

func verifRandomText(rng *rand.Rand, n int, nlRate int) string {
	var b strings.Builder
	var open []string
	for i := 0; i < n; i++ {
		/* style runs: nested prefixes, as Apply(Apply(..)) produces them */
		if rng.Intn(6) == 0 {
			open = nil
			for k := rng.Intn(4); k > 0; k-- {
				open = append(open, verifStyles[rng.Intn(len(verifStyles))])
			}
		}
		x := rng.Intn(100)
		switch {
		case x < nlRate:
			/* a line break usually comes bare, but may carry styling like any character */
			if rng.Intn(5) == 0 {
				/* a line end as some systems write it: a carriage return (white space like any other) before the break */
				verifStyled(&b, "\r", open[:len(open)*rng.Intn(2)])
			}
			if rng.Intn(4) == 0 {
				verifStyled(&b, "\n", open)
			} else {
				b.WriteString("\n")
			}
			continue
		case x < nlRate+22:
			r := verifSpaces[rng.Intn(len(verifSpaces))]
			if rng.Intn(3) > 0 {
				r = ' '
			}
			verifStyled(&b, string(r), open)
		default:
			verifStyled(&b, string(verifGlyphs[rng.Intn(len(verifGlyphs))]), open)
		}
	}
	return b.String()
}

func verifStyled(b *strings.Builder, ch string, open []string) {
	for _, s := range open {
		b.WriteString("\x1b[" + s + "m")
	}
	b.WriteString(ch)
	if len(open) > 0 {
		b.WriteString("\x1b[0m")
	}
}

func verifDecode(codes string) string {
	var b strings.Builder
	for _, c := range codes {
		switch c {
		case 'a':
			b.WriteString("a")
		case 'b':
			b.WriteString("\x1b[1mb\x1b[0m")
		case 's':
			b.WriteString(" ")
		case 'n':
			b.WriteString("\n")
		case 'm':
			b.WriteString("\x1b[4m\n")
		}
	}
	return b.String()
}

type verifRun struct {
	out *verifkit.Trace
}

func (v verifRun) layout(fn string, in string, w, h int, prefix string, first bool, ell string, f func() string) {
	var result string
	panicked, what := verifkit.Try(func() { result = f() })
	ev := verifkit.M{"ev": "layout", "fn": fn, "w": w, "h": h, "first": first,
		"in": verifkit.Cells(in), "out": verifkit.Cells(result), "pre": verifkit.Cells(prefix),
		"ell": verifkit.Cells(ell), "panic": panicked}
	if panicked {
		ev["what"] = what
	}
	v.out.Emit(ev)
}

const verifEllipsis = "\x1b[38;2;164;245;155m…\x1b[0m"

func (v verifRun) all(text string, widths []int, heights []int) {
	for _, w := range widths {
		w := w
		v.layout("Wrap", text, w, 0, "", false, "", func() string { return Wrap(text, w) })
		v.layout("DumbWrap", text, w, 0, "", false, "", func() string { return DumbWrap(text, w) })
		v.layout("Pad", text, w, 0, "", false, "", func() string { return Pad(text, w) })
		wrapped := Wrap(text, w)
		for _, h := range heights {
			h := h
			v.layout("Snip", wrapped, w, h, "", false, verifEllipsis, func() string { return Snip(wrapped, w, h, verifEllipsis) })
		}
	}
	for _, pre := range []string{"  ", "▌", "┃ "} {
		pre := pre
		for _, first := range []bool{false, true} {
			first := first
			v.layout("Indent", text, 0, 0, pre, first, "", func() string { return Indent(text, pre, first) })
		}
	}
	v.layout("Apply", text, 0, 0, "9", false, "", func() string { return Apply(text, "9") })
}

func verifLines(s string) []string {
	parts := strings.Split(s, "\n")
	for i, p := range parts {
		if p == "" {
			parts[i] = "_"
		}
	}
	return parts
}

func verifBlock(tag string, n int) string {
	lines := make([]string, n)
	for i := range lines {
		lines[i] = tag + string(rune('0'+(i/10)%10)) + string(rune('0'+i%10))
	}
	return strings.Join(lines, "\n")
}

func (v verifRun) center(pre, cen, suf string, h int) {
	var result string
	panicked, _ := verifkit.Try(func() { result = CenterVertically(pre, cen, suf, uint(h)) })
	v.out.Emit(verifkit.M{"ev": "center", "pre": verifLines(pre), "cen": verifLines(cen), "suf": verifLines(suf),
		"h": h, "out": verifLines(result), "panic": panicked})
	if !panicked {
		var replaced string
		p2, _ := verifkit.Try(func() { replaced = ReplaceLastLine(result, "STATUS") })
		v.out.Emit(verifkit.M{"ev": "replacelast", "orig": verifLines(result), "repl": "STATUS",
			"out": verifLines(replaced), "panic": p2})
	}
}

func TestVerifLayout(t *testing.T) {
	var in struct {
		Texts   []string `json:"texts"`
		Widths  []int    `json:"widths"`
		Heights []int    `json:"heights"`
		Random  int      `json:"random"`
		MaxLen  int      `json:"maxlen"`
	}
	verifkit.In(&in)
	out := verifkit.Out()
	defer out.Close()
	v := verifRun{out}
	for _, codes := range in.Texts {
		v.all(verifDecode(codes), in.Widths, in.Heights)
	}
	rng := verifkit.Rand()
	for i := 0; i < in.Random; i++ {
		n := 1 + rng.Intn(in.MaxLen)
		text := verifRandomText(rng, n, []int{0, 3, 8, 20}[rng.Intn(4)])
		widths := []int{1 + rng.Intn(6), 1 + rng.Intn(40), 1 + rng.Intn(120)}
		heights := []int{1 + rng.Intn(3), 1 + rng.Intn(12)}
		v.all(text, widths, heights)
		/* SetLength works on unstyled text */
		plain := []rune{}
		for _, c := range verifkit.Cells(text) {
			if c.K == "g" || c.K == "nl" || c.C == " " {
				plain = append(plain, []rune(c.C)...)
			}
		}
		for _, w := range widths {
			w := w
			v.layout("SetLength", string(plain), w, 0, "", false, "…", func() string { return SetLength(string(plain), w, "…") })
		}
	}
	if in.Random > 0 {
		verifConcurrentLayout(out, rng, 1+in.Random/30)
	}
}

/*
	Layout from several goroutines at once, as the parallel building of posts does: every call works on its own
	text and must return what it returns alone.  Each goroutine records its last results; they are judged like any
	other call.
*/
func verifConcurrentLayout(out *verifkit.Trace, rng *rand.Rand, rounds int) {
	type job struct {
		text string
		w    int
	}
	for round := 0; round < rounds; round++ {
		jobs := make([]job, 8)
		for i := range jobs {
			jobs[i] = job{verifRandomText(rng, 10+rng.Intn(60), []int{0, 3, 8}[rng.Intn(3)]), 2 + rng.Intn(30)}
		}
		type result struct{ wrap, pad, dumb, indent string }
		results := make([]result, len(jobs))
		/* what each call returns alone */
		alone := make([]result, len(jobs))
		for i := range jobs {
			alone[i] = result{Wrap(jobs[i].text, jobs[i].w), Pad(jobs[i].text, jobs[i].w), DumbWrap(jobs[i].text, jobs[i].w), Indent(jobs[i].text, "  ", true)}
		}
		var wg sync.WaitGroup
		for i := range jobs {
			i := i
			wg.Add(1)
			go func() {
				defer wg.Done()
				verifkit.Try(func() {
					for k := 0; k < 300; k++ {
						results[i] = result{Wrap(jobs[i].text, jobs[i].w), Pad(jobs[i].text, jobs[i].w), DumbWrap(jobs[i].text, jobs[i].w), Indent(jobs[i].text, "  ", true)}
						if results[i] != alone[i] {
							break /* keep the answer that differs from the one given alone: it is what gets judged */
						}
					}
				})
			}()
		}
		wg.Wait()
		v := verifRun{out}
		for i, j := range jobs {
			i, j := i, j
			v.layout("Wrap", j.text, j.w, 0, "", false, "", func() string { return results[i].wrap })
			v.layout("Pad", j.text, j.w, 0, "", false, "", func() string { return results[i].pad })
			v.layout("DumbWrap", j.text, j.w, 0, "", false, "", func() string { return results[i].dumb })
			v.layout("Indent", j.text, 0, 0, "  ", true, "", func() string { return results[i].indent })
		}
	}
}

func TestVerifCenter(t *testing.T) {
	var in struct {
		MaxH     int `json:"maxh"`
		MaxBlock int `json:"maxblock"`
		Random   int `json:"random"`
	}
	verifkit.In(&in)
	out := verifkit.Out()
	defer out.Close()
	v := verifRun{out}
	/* enumerated geometries: the empty string is one empty line */
	for h := 2; h <= in.MaxH; h++ {
		for p := 0; p <= in.MaxBlock; p++ {
			for c := 1; c <= in.MaxBlock; c++ {
				for s := 0; s <= in.MaxBlock; s++ {
					v.center(verifBlock("p", p), verifBlock("c", c), verifBlock("s", s), h)
				}
			}
		}
	}
	rng := verifkit.Rand()
	for i := 0; i < in.Random; i++ {
		v.center(verifBlock("p", rng.Intn(60)), verifBlock("c", 1+rng.Intn(60)), verifBlock("s", rng.Intn(60)), 2+rng.Intn(70))
	}
}
