//go:build verif

package style

import (
	"sync"
	"math/rand"
	"servitor/ansi"
	"servitor/config"
	"servitor/verifkit"
	"strconv"
	"strings"
	"testing"
)

/*
	C14 driver: random nestings and concatenations of the style functions over texts whose
	glyphs are all distinct (so each has an identity), followed by layout operations.  For every
	glyph the driver knows which style functions were wrapped around it; what attributes that
	means, and whether the terminal would agree, is judged by TLC (T_Term.tla).
*/

type verifExpect struct {
	Bools []int   `json:"bools"`
	Fg    [][]int `json:"fg"`
	Bg    [][]int `json:"bg"`
}

type verifBuilder struct {
	rng    *rand.Rand
	next   rune
	ids    map[rune]string
	expect map[string]*verifExpect
	narrow bool
	spaces []rune
}

func verifSpaces(rng *rand.Rand) []rune {
	all := []rune{0x00a0, 0x3000, 0x2003, 0x2009, 0x202f, 0x205f, 0x2000, 0x200a}
	rng.Shuffle(len(all), func(i, j int) { all[i], all[j] = all[j], all[i] })
	return all
}

func verifRGB(s string) []int {
	parts := strings.Split(s, ";")
	out := make([]int, len(parts))
	for i, p := range parts {
		out[i], _ = strconv.Atoi(p)
	}
	return out
}

/* glyph pool: CJK block, all printable, none is whitespace */
func (b *verifBuilder) leaf() (string, []string) {
	n := 1 + b.rng.Intn(6)
	var sb strings.Builder
	ids := []string{}
	for i := 0; i < n; i++ {
		switch b.rng.Intn(9) {
		case 8:
			/* white space that is not the blank or a line break (no-break space, ideographic space, the fixed-width
			   spaces): it occupies a column and carries its styling like any character; each kind once per text */
			if len(b.spaces) == 0 {
				sb.WriteString(" ")
				break
			}
			r := b.spaces[0]
			b.spaces = b.spaces[1:]
			id := "sp" + strconv.Itoa(int(r))
			b.ids[r] = id
			b.expect[id] = &verifExpect{Bools: []int{}, Fg: [][]int{}, Bg: [][]int{}}
			ids = append(ids, id)
			sb.WriteRune(r)
		case 0:
			sb.WriteString(" ")
		case 1:
			if b.rng.Intn(2) == 0 {
				sb.WriteString("\n")
			} else {
				sb.WriteString(" ")
			}
		case 2:
			/* printable non-spacing runes without identity: combining marks, joiners, selectors,
			   wherever they fall (also right after a line break or a space) */
			extras := []rune{0x0301, 0x0308, 0x20DD, 0x200D, 0xFE0F, 0x0E31, 0x3099, 0x00AD}
			sb.WriteRune(extras[b.rng.Intn(len(extras))])
		default:
			r := b.next
			b.next++
			id := "g" + strconv.Itoa(int(r-0x4e00))
			b.ids[r] = id
			b.expect[id] = &verifExpect{Bools: []int{}, Fg: [][]int{}, Bg: [][]int{}}
			ids = append(ids, id)
			sb.WriteRune(r)
		}
	}
	return sb.String(), ids
}

func (b *verifBuilder) mark(ids []string, bools []int, fg string, bg string) {
	for _, id := range ids {
		e := b.expect[id]
		e.Bools = append(e.Bools, bools...)
		if fg != "" {
			e.Fg = append(e.Fg, verifRGB(fg))
		}
		if bg != "" {
			e.Bg = append(e.Bg, verifRGB(bg))
		}
	}
}

func (b *verifBuilder) expr(depth int) (string, []string) {
	if depth == 0 || (!b.narrow && b.rng.Intn(4) == 0) {
		return b.leaf()
	}
	/* concatenation of 1..3 children (narrow: exactly one, so that nestings get deep), wrapped in one style function */
	text := ""
	ids := []string{}
	children := 1 + b.rng.Intn(3)
	if b.narrow {
		children = 1
	}
	for k := children; k > 0; k-- {
		t, i := b.expr(depth - 1)
		text += t
		ids = append(ids, i...)
	}
	c := config.Parsed.Style.Colors
	switch b.rng.Intn(15) {
	case 0:
		b.mark(ids, []int{1}, "", "")
		return Bold(text), ids
	case 1:
		b.mark(ids, []int{9}, "", "")
		return Strikethrough(text), ids
	case 2:
		b.mark(ids, []int{4}, "", "")
		return Underline(text), ids
	case 3:
		b.mark(ids, []int{3}, "", "")
		return Italic(text), ids
	case 4:
		b.mark(ids, nil, "", c.Code)
		return Code(text), ids
	case 5:
		b.mark(ids, nil, "", c.Highlight)
		return Highlight(text), ids
	case 6:
		b.mark(ids, nil, c.Primary, "")
		return Color(text), ids
	case 7:
		b.mark(ids, nil, c.Error, "")
		return Red(text), ids
	case 8:
		b.mark(ids, []int{4}, c.Primary, "")
		return Link(text, b.rng.Intn(200)), ids
	case 9:
		b.mark(ids, nil, "", c.Code)
		return CodeBlock(text), ids
	case 10:
		b.mark(ids, nil, c.Primary, "")
		return QuoteBlock(text), ids
	case 11:
		b.mark(ids, []int{4}, c.Primary, "")
		return LinkBlock(text, 1+b.rng.Intn(30)), ids
	case 12:
		b.mark(ids, []int{1}, c.Primary, "")
		return Header(text, uint(1+b.rng.Intn(6))), ids
	case 13:
		return Bullet(text), ids
	default:
		return text, ids
	}
}

func (b *verifBuilder) layout(text string) (string, string) {
	switch b.rng.Intn(9) {
	case 0:
		w := 1 + b.rng.Intn(30)
		return ansi.Wrap(text, w), "Wrap"
	case 1:
		w := 1 + b.rng.Intn(30)
		return ansi.DumbWrap(text, w), "DumbWrap"
	case 2:
		return ansi.Indent(text, []string{"  ", "▌", "┃ "}[b.rng.Intn(3)], b.rng.Intn(2) == 0), "Indent"
	case 3:
		return ansi.Pad(text, b.rng.Intn(40)), "Pad"
	case 4:
		w := 1 + b.rng.Intn(30)
		return ansi.Snip(ansi.Wrap(text, w), w, 1+b.rng.Intn(4), Color("…")), "Snip"
	case 5:
		return ansi.CenterVertically("", text, "", uint(1+b.rng.Intn(12))), "CenterVertically"
	case 6:
		/* cut at a line boundary: keep a random range of whole lines */
		lines := strings.Split(text, "\n")
		i := b.rng.Intn(len(lines))
		j := i + b.rng.Intn(len(lines)-i)
		return strings.Join(lines[i:j+1], "\n"), "CutLines"
	default:
		return text, "none"
	}
}

func TestVerifStyle(t *testing.T) {
	var in struct {
		Random int `json:"random"`
		Depth  int `json:"depth"`
		Deep   int `json:"deep"`
	}
	verifkit.In(&in)
	out := verifkit.Out()
	defer out.Close()
	rng := verifkit.Rand()
	for i := 0; i < in.Random; i++ {
		b := &verifBuilder{rng: rng, next: 0x4e00, ids: map[rune]string{}, expect: map[string]*verifExpect{}, spaces: verifSpaces(rng)}
		var text string
		ops := []string{}
		order := []string{}
		checkOrder := false
		panicked, what := verifkit.Try(func() {
			if in.Deep > in.Depth && i%5 == 4 {
				/* seven to `deep` style functions around one run of text */
				b.narrow = true
				text, _ = b.expr(7 + rng.Intn(in.Deep-6))
			} else {
				text, _ = b.expr(1 + rng.Intn(in.Depth))
			}
			if i%3 == 0 && !strings.Contains(text, "\n") {
				/* wrapped at a width nothing reaches: every character stays, in its place, with its attributes - the
				   blanks of every kind included (unless the text ends in one: white space at the end of a line may go) */
				before := verifkit.Toks(text, b.ids)
				for _, tok := range before {
					if tok.Id != "" {
						order = append(order, tok.Id)
					}
				}
				cells := verifkit.Cells(text)
				if len(cells) > 0 && cells[len(cells)-1].K == "g" && len(order) > 0 {
					text = ansi.Wrap(text, 100000)
					ops = append(ops, "WrapWide")
					checkOrder = true
					return
				}
			}
			for k := rng.Intn(4); k > 0; k-- {
				var op string
				text, op = b.layout(text)
				ops = append(ops, op)
			}
		})
		if panicked {
			out.Emit(verifkit.M{"ev": "out", "kind": "styled", "chk": []string{"noctl"}, "toks": []verifkit.Tok{{T: "ctl", Code: -1}},
				"w": 0, "h": 0, "expect": b.expect, "ops": ops, "panic": what})
			continue
		}
		chk := []string{"noctl", "neutral", "attrs"}
		if checkOrder {
			chk = append(chk, "glyphs")
		}
		out.Emit(verifkit.M{"ev": "out", "kind": "styled", "chk": chk,
			"toks": verifkit.Toks(text, b.ids), "w": 0, "h": 0, "expect": b.expect, "order": order, "ops": ops, "raw": text})
	}
	/* styling from several goroutines at once (posts of a page are built side by side): every text keeps its own
	   characters, in order, with their own attributes */
	type job struct {
		ids    map[rune]string
		expect map[string]*verifExpect
		order  []string
		runes  string
		alone  string
		got    string
	}
	style := func(text string, k int) string {
		switch k % 4 {
		case 0:
			return Bold(Color(text))
		case 1:
			return Underline(Code(text))
		case 2:
			return Italic(Red(Highlight(text)))
		}
		return Strikethrough(Link(text, 7))
	}
	c := config.Parsed.Style.Colors
	for round := 0; round < 1+in.Random/300; round++ {
		jobs := make([]*job, 8)
		for k := range jobs {
			j := &job{ids: map[rune]string{}, expect: map[string]*verifExpect{}}
			for n := 0; n < 30+rng.Intn(30); n++ {
				r := rune(0x4e00 + 100*k + n)
				id := "g" + strconv.Itoa(int(r-0x4e00))
				j.ids[r], j.order, j.runes = id, append(j.order, id), j.runes+string(r)
				e := &verifExpect{Bools: []int{}, Fg: [][]int{}, Bg: [][]int{}}
				switch k % 4 {
				case 0:
					e.Bools, e.Fg = []int{1}, [][]int{verifRGB(c.Primary)}
				case 1:
					e.Bools, e.Bg = []int{4}, [][]int{verifRGB(c.Code)}
				case 2:
					e.Bools, e.Fg, e.Bg = []int{3}, [][]int{verifRGB(c.Error)}, [][]int{verifRGB(c.Highlight)}
				default:
					e.Bools, e.Fg = []int{9, 4}, [][]int{verifRGB(c.Primary)}
				}
				j.expect[id] = e
			}
			j.alone = style(j.runes, k)
			jobs[k] = j
		}
		var wg sync.WaitGroup
		for k, j := range jobs {
			k, j := k, j
			wg.Add(1)
			go func() {
				defer wg.Done()
				verifkit.Try(func() {
					for n := 0; n < 300; n++ {
						if j.got = style(j.runes, k); j.got != j.alone {
							break
						}
					}
				})
			}()
		}
		wg.Wait()
		for _, j := range jobs {
			out.Emit(verifkit.M{"ev": "out", "kind": "styled-concurrently", "chk": []string{"noctl", "neutral", "attrs", "glyphs"},
				"toks": verifkit.Toks(j.got, j.ids), "w": 0, "h": 0, "expect": j.expect, "order": j.order, "ops": []string{}, "raw": j.got})
		}
	}
}
