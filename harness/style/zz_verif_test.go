//go:build verif

package style

import (
	"math/rand"
	"servitor/ansi"
	"servitor/config"
	"servitor/verifkit"
	"strconv"
	"strings"
	"testing"
)

/*
	C14 driver: random nestings and concatenations of the style functions over texts whose
	glyphs are all distinct (so each has an identity), followed by layout operations.  For every
	glyph the driver knows which style functions were wrapped around it; what attributes that
	means, and whether the terminal would agree, is judged by TLC (T_Term.tla).
*/

type verifExpect struct {
	Bools []int   `json:"bools"`
	Fg    [][]int `json:"fg"`
	Bg    [][]int `json:"bg"`
}

type verifBuilder struct {
	rng    *rand.Rand
	next   rune
	ids    map[rune]string
	expect map[string]*verifExpect
	narrow bool
}

func verifRGB(s string) []int {
	parts := strings.Split(s, ";")
	out := make([]int, len(parts))
	for i, p := range parts {
		out[i], _ = strconv.Atoi(p)
	}
	return out
}

/* glyph pool: CJK block, all printable, none is whitespace */
func (b *verifBuilder) leaf() (string, []string) {
	n := 1 + b.rng.Intn(6)
	var sb strings.Builder
	ids := []string{}
	for i := 0; i < n; i++ {
		switch b.rng.Intn(8) {
		case 0:
			sb.WriteString(" ")
		case 1:
			if b.rng.Intn(2) == 0 {
				sb.WriteString("\n")
			} else {
				sb.WriteString(" ")
			}
		case 2:
			/* printable non-spacing runes without identity: combining marks, joiners, selectors,
			   wherever they fall (also right after a line break or a space) */
			extras := []rune{0x0301, 0x0308, 0x20DD, 0x200D, 0xFE0F, 0x0E31, 0x3099, 0x00AD}
			sb.WriteRune(extras[b.rng.Intn(len(extras))])
		default:
			r := b.next
			b.next++
			id := "g" + strconv.Itoa(int(r-0x4e00))
			b.ids[r] = id
			b.expect[id] = &verifExpect{Bools: []int{}, Fg: [][]int{}, Bg: [][]int{}}
			ids = append(ids, id)
			sb.WriteRune(r)
		}
	}
	return sb.String(), ids
}

func (b *verifBuilder) mark(ids []string, bools []int, fg string, bg string) {
	for _, id := range ids {
		e := b.expect[id]
		e.Bools = append(e.Bools, bools...)
		if fg != "" {
			e.Fg = append(e.Fg, verifRGB(fg))
		}
		if bg != "" {
			e.Bg = append(e.Bg, verifRGB(bg))
		}
	}
}

func (b *verifBuilder) expr(depth int) (string, []string) {
	if depth == 0 || (!b.narrow && b.rng.Intn(4) == 0) {
		return b.leaf()
	}
	/* concatenation of 1..3 children (narrow: exactly one, so that nestings get deep), wrapped in one style function */
	text := ""
	ids := []string{}
	children := 1 + b.rng.Intn(3)
	if b.narrow {
		children = 1
	}
	for k := children; k > 0; k-- {
		t, i := b.expr(depth - 1)
		text += t
		ids = append(ids, i...)
	}
	c := config.Parsed.Style.Colors
	switch b.rng.Intn(15) {
	case 0:
		b.mark(ids, []int{1}, "", "")
		return Bold(text), ids
	case 1:
		b.mark(ids, []int{9}, "", "")
		return Strikethrough(text), ids
	case 2:
		b.mark(ids, []int{4}, "", "")
		return Underline(text), ids
	case 3:
		b.mark(ids, []int{3}, "", "")
		return Italic(text), ids
	case 4:
		b.mark(ids, nil, "", c.Code)
		return Code(text), ids
	case 5:
		b.mark(ids, nil, "", c.Highlight)
		return Highlight(text), ids
	case 6:
		b.mark(ids, nil, c.Primary, "")
		return Color(text), ids
	case 7:
		b.mark(ids, nil, c.Error, "")
		return Red(text), ids
	case 8:
		b.mark(ids, []int{4}, c.Primary, "")
		return Link(text, b.rng.Intn(200)), ids
	case 9:
		b.mark(ids, nil, "", c.Code)
		return CodeBlock(text), ids
	case 10:
		b.mark(ids, nil, c.Primary, "")
		return QuoteBlock(text), ids
	case 11:
		b.mark(ids, []int{4}, c.Primary, "")
		return LinkBlock(text, 1+b.rng.Intn(30)), ids
	case 12:
		b.mark(ids, []int{1}, c.Primary, "")
		return Header(text, uint(1+b.rng.Intn(6))), ids
	case 13:
		return Bullet(text), ids
	default:
		return text, ids
	}
}

func (b *verifBuilder) layout(text string) (string, string) {
	switch b.rng.Intn(9) {
	case 0:
		w := 1 + b.rng.Intn(30)
		return ansi.Wrap(text, w), "Wrap"
	case 1:
		w := 1 + b.rng.Intn(30)
		return ansi.DumbWrap(text, w), "DumbWrap"
	case 2:
		return ansi.Indent(text, []string{"  ", "▌", "┃ "}[b.rng.Intn(3)], b.rng.Intn(2) == 0), "Indent"
	case 3:
		return ansi.Pad(text, b.rng.Intn(40)), "Pad"
	case 4:
		w := 1 + b.rng.Intn(30)
		return ansi.Snip(ansi.Wrap(text, w), w, 1+b.rng.Intn(4), Color("…")), "Snip"
	case 5:
		return ansi.CenterVertically("", text, "", uint(1+b.rng.Intn(12))), "CenterVertically"
	case 6:
		/* cut at a line boundary: keep a random range of whole lines */
		lines := strings.Split(text, "\n")
		i := b.rng.Intn(len(lines))
		j := i + b.rng.Intn(len(lines)-i)
		return strings.Join(lines[i:j+1], "\n"), "CutLines"
	default:
		return text, "none"
	}
}

func TestVerifStyle(t *testing.T) {
	var in struct {
		Random int `json:"random"`
		Depth  int `json:"depth"`
		Deep   int `json:"deep"`
	}
	verifkit.In(&in)
	out := verifkit.Out()
	defer out.Close()
	rng := verifkit.Rand()
	for i := 0; i < in.Random; i++ {
		b := &verifBuilder{rng: rng, next: 0x4e00, ids: map[rune]string{}, expect: map[string]*verifExpect{}}
		var text string
		ops := []string{}
		panicked, what := verifkit.Try(func() {
			if in.Deep > in.Depth && i%5 == 4 {
				/* seven to `deep` style functions around one run of text */
				b.narrow = true
				text, _ = b.expr(7 + rng.Intn(in.Deep-6))
			} else {
				text, _ = b.expr(1 + rng.Intn(in.Depth))
			}
			for k := rng.Intn(4); k > 0; k-- {
				var op string
				text, op = b.layout(text)
				ops = append(ops, op)
			}
		})
		if panicked {
			out.Emit(verifkit.M{"ev": "out", "kind": "styled", "chk": []string{"noctl"}, "toks": []verifkit.Tok{{T: "ctl", Code: -1}},
				"w": 0, "h": 0, "expect": b.expect, "ops": ops, "panic": what})
			continue
		}
		out.Emit(verifkit.M{"ev": "out", "kind": "styled", "chk": []string{"noctl", "neutral", "attrs"},
			"toks": verifkit.Toks(text, b.ids), "w": 0, "h": 0, "expect": b.expect, "ops": ops, "raw": text})
	}
}
