//go:build verif

package pub

import (
	"encoding/json"
	"fmt"
	"math/rand"
	"net/url"
	"servitor/jtp"
	"servitor/verifkit"
	"servitor/verifsim"
	"strings"
	"testing"
	"time"
)

/*
	C09 / C02 (pub level) driver.  For every listing spec (kind, owner style, entry classes)
	from TLC a multi-host world is built in which each entry is an unambiguous member of its
	class (Provenance.tla: OutboxClasses / ReplyClasses) and every served object is stamped
	with its serving host (actors and posts in their name, activities in the seconds of
	`published`).  The owner is built with pub.New, its children are harvested, and what was
	shown per position plus every accepted (object, id, stamp) is recorded.  T_Prov.tla judges.
*/

var verifHostIdx = map[string]int{"A": 1, "B": 2, "M": 3, "A2": 4}
var verifIdxHost = map[int]string{1: "A", 2: "B", 3: "M", 4: "A2"}

type verifLW struct {
	sim        *verifsim.Sim
	rng        *rand.Rand
	A, B, M, A2 *verifsim.Host
	sid        int
	owner      string // owner id
	other      string // another actor on the owner's host
	ownerStyle string
}

func (w *verifLW) serve(h *verifsim.Host, target string, doc map[string]any) {
	data, _ := json.Marshal(doc)
	ct := []string{"application/activity+json", `application/ld+json; profile="https://www.w3.org/ns/activitystreams"`, "application/json"}[w.rng.Intn(3)]
	h.Set(target, &verifsim.Route{Raw: []byte("HTTP/1.1 200 OK\r\nContent-Type: " + ct + "\r\n\r\n" + string(data))})
}

func (w *verifLW) target(id string) (*verifsim.Host, string) {
	u, _ := url.Parse(id)
	return w.sim.HostByAddr(u.Host), u.RequestURI()
}

/* serve a document at its own id */
func (w *verifLW) publish(doc map[string]any) {
	h, target := w.target(doc["id"].(string))
	w.serve(h, target, doc)
}

func (w *verifLW) actor(id string, servedBy string) map[string]any {
	return map[string]any{"id": id, "type": "Person", "name": "STAMP_" + servedBy, "preferredUsername": "user",
		"summary": "<p>bio</p>", "published": "2020-05-06T07:08:09Z"}
}

func (w *verifLW) note(id string, servedBy string, author any, inReplyTo any) map[string]any {
	doc := map[string]any{"type": "Note", "name": "STAMP_" + servedBy, "content": "<p>text</p>", "published": "2021-01-02T03:04:05Z"}
	if id != "" {
		doc["id"] = id
	}
	if author != nil {
		doc["attributedTo"] = author
	}
	if inReplyTo != nil {
		doc["inReplyTo"] = inReplyTo
	}
	return doc
}

func (w *verifLW) activity(id string, servedBy string, kind string, actor any, object any) map[string]any {
	doc := map[string]any{"type": kind, "published": fmt.Sprintf("2022-02-03T04:05:%02dZ", verifHostIdx[servedBy]), "object": object, "to": "https://www.w3.org/ns/activitystreams#Public"}
	if id != "" {
		doc["id"] = id
	}
	if actor != nil {
		doc["actor"] = actor
	}
	return doc
}

func verifRestamp(doc map[string]any, servedBy string) map[string]any {
	out := map[string]any{}
	for k, v := range doc {
		out[k] = v
	}
	if _, has := out["name"]; has {
		out["name"] = "STAMP_" + servedBy
	}
	return out
}

/* a document as another host would serve it: every stamp in it names that host */
func verifDeepRestamp(v any, servedBy string) any {
	switch x := v.(type) {
	case map[string]any:
		out := map[string]any{}
		for k, e := range x {
			out[k] = verifDeepRestamp(e, servedBy)
		}
		if name, ok := out["name"].(string); ok && strings.HasPrefix(name, "STAMP_") {
			out["name"] = "STAMP_" + servedBy
		}
		if published, ok := out["published"].(string); ok && strings.HasPrefix(published, "2022-02-03T04:05:") {
			out["published"] = fmt.Sprintf("2022-02-03T04:05:%02dZ", verifHostIdx[servedBy])
		}
		return out
	case []any:
		out := make([]any, len(x))
		for i := range x {
			out[i] = verifDeepRestamp(x[i], servedBy)
		}
		return out
	}
	return v
}

/* the object of a legitimate activity, in one of several provenance situations */
func (w *verifLW) object(k int) any {
	p := fmt.Sprintf("/s%d/n%d", w.sid, k)
	switch w.rng.Intn(15) {
	case 14: /* the owner's note replies to an address on B that redirects to a note A serves; that note embeds an author with a B id */
		victim := w.actor(w.B.URL(fmt.Sprintf("/s%d/q", w.sid)), "B")
		w.publish(victim)
		forged := w.note(w.A.URL(p+"/forgedparent"), "A", verifRestamp(victim, "A"), nil)
		w.publish(forged)
		hop := fmt.Sprintf("/s%d/r%d", w.sid, k)
		w.B.Set(hop, &verifsim.Route{Raw: []byte("HTTP/1.1 302 Found\r\nLocation: " + forged["id"].(string) + "\r\n\r\n")})
		n := w.note(w.A.URL(p), "A", w.owner, w.B.URL(hop))
		w.publish(n)
		return n
	case 10: /* a note without an id, embedded by A, that names an author on another host */
		m := w.actor(w.M.URL(fmt.Sprintf("/s%d/m", w.sid)), "M")
		w.publish(m)
		return w.note("", "A", m["id"], nil)
	case 11: /* a note with an id whose author is embedded and has no id */
		anon := w.actor("", "A")
		delete(anon, "id")
		n := w.note(w.A.URL(p), "A", anon, nil)
		w.publish(n)
		return n
	case 12: /* several authors: one that cannot be loaded comes before a foreign one */
		m := w.actor(w.M.URL(fmt.Sprintf("/s%d/m", w.sid)), "M")
		w.publish(m)
		n := w.note(w.A.URL(p), "A", []any{w.A.URL(fmt.Sprintf("/s%d/nobody%d", w.sid, k)), m["id"]}, nil)
		w.publish(n)
		return n
	case 13: /* several authors: a document of the wrong kind comes before a foreign one */
		m := w.actor(w.M.URL(fmt.Sprintf("/s%d/m", w.sid)), "M")
		w.publish(m)
		other := w.note(w.A.URL(fmt.Sprintf("/s%d/notanactor%d", w.sid, k)), "A", nil, nil)
		w.publish(other)
		n := w.note(w.A.URL(p), "A", []any{other["id"], m["id"]}, nil)
		w.publish(n)
		return n
	case 7: /* embedded copy of a note that lives on the same hostname but another port: must be re-fetched from there */
		q := w.actor(w.A2.URL(fmt.Sprintf("/s%d/q", w.sid)), "A2")
		w.publish(q)
		n := w.note(w.A2.URL(p), "A2", q["id"], nil)
		w.publish(n)
		return verifRestamp(n, "A")
	case 8: /* Lemmy style: the object is an inline Create that names another host and wraps a copy of
		   that host's note; the copy is this host's word and must be re-fetched */
		q := w.actor(w.B.URL(fmt.Sprintf("/s%d/q", w.sid)), "B")
		w.publish(q)
		n := w.note(w.B.URL(p), "B", q["id"], nil)
		w.publish(n)
		inner := w.activity(w.B.URL(p+"/activity"), "B", "Create", q["id"], n)
		w.publish(inner)
		return w.activity(w.B.URL(p+"/activity"), "A", "Create", q["id"], verifRestamp(n, "A"))
	case 9: /* an inline Create without an id around a copy of another host's note */
		q := w.actor(w.B.URL(fmt.Sprintf("/s%d/q", w.sid)), "B")
		w.publish(q)
		n := w.note(w.B.URL(p), "B", q["id"], nil)
		w.publish(n)
		return w.activity("", "A", "Create", q["id"], verifRestamp(n, "A"))
	case 0: /* referenced note on another host, written by an actor of that host */
		q := w.actor(w.B.URL(fmt.Sprintf("/s%d/q", w.sid)), "B")
		w.publish(q)
		n := w.note(w.B.URL(p), "B", q["id"], nil)
		w.publish(n)
		return n["id"]
	case 1: /* embedded copy of another host's note: must be re-fetched from there */
		q := w.actor(w.B.URL(fmt.Sprintf("/s%d/q", w.sid)), "B")
		w.publish(q)
		n := w.note(w.B.URL(p), "B", q["id"], nil)
		w.publish(n)
		return verifRestamp(n, "A")
	case 2: /* author on a foreign host */
		m := w.actor(w.M.URL(fmt.Sprintf("/s%d/m", w.sid)), "M")
		w.publish(m)
		n := w.note(w.A.URL(p), "A", m["id"], nil)
		w.publish(n)
		return n
	case 3: /* author on the same hostname but another port */
		a2 := w.actor(w.A2.URL(fmt.Sprintf("/s%d/a2", w.sid)), "A2")
		w.publish(a2)
		n := w.note(w.A.URL(p), "A", a2["id"], nil)
		w.publish(n)
		return n
	case 4: /* several authors, the last one foreign */
		m := w.actor(w.M.URL(fmt.Sprintf("/s%d/m", w.sid)), "M")
		w.publish(m)
		n := w.note(w.A.URL(p), "A", []any{w.owner, m["id"]}, nil)
		w.publish(n)
		return n
	default: /* the owner's own note, embedded */
		n := w.note(w.A.URL(p), "A", w.owner, nil)
		w.publish(n)
		return n
	}
}

func (w *verifLW) outboxEntry(class string, k int) any {
	act := w.A.URL(fmt.Sprintf("/s%d/act%d", w.sid, k))
	switch class {
	case "legit_emb":
		a := w.activity(act, "A", "Create", w.owner, w.object(k))
		w.publish(a)
		return a
	case "legit_ref":
		w.publish(w.activity(act, "A", "Create", w.owner, w.object(k)))
		return act
	case "legit_author_no_actor":
		/* the owner's own activity about a note on the owner's host that names a non-actor of another host as its author */
		imp := w.note(w.M.URL(fmt.Sprintf("/s%d/impersonation%d", w.sid, k)), "M", nil, nil)
		imp["name"] = "STAMP_M Carol"
		w.publish(imp)
		obj := w.note(w.A.URL(fmt.Sprintf("/s%d/objx%d", w.sid, k)), "A", imp["id"], nil)
		w.publish(obj)
		a := w.activity(act, "A", "Create", w.owner, obj)
		w.publish(a)
		return a
	case "legit_actor_emb":
		a := w.activity(act, "A", "Create", w.actor(w.owner, "A"), w.object(k))
		w.publish(a)
		return a
	case "legit_noid":
		return w.activity("", "A", "Create", w.owner, w.object(k))
	case "legit_stub":
		w.publish(w.activity(act, "A", "Create", w.owner, w.object(k)))
		return map[string]any{"id": act, "type": "Create"}
	case "legit_announce":
		a := w.activity(act, "A", "Announce", w.owner, w.object(k))
		w.publish(a)
		return a
	case "legit_announce_wrapped":
		/* the owner boosts a Create of another host (as Lemmy communities do) that wraps a note of the owner's host: what A
		   embeds is A's word; what B serves under the Create's id embeds its own version of A's note - B's word about A */
		noteID := w.A.URL(fmt.Sprintf("/s%d/wrapped%d", w.sid, k))
		mine := w.note(noteID, "A", w.owner, nil)
		w.publish(mine)
		bob := w.actor(w.B.URL(fmt.Sprintf("/s%d/bq", w.sid)), "B")
		w.publish(bob)
		createID := w.B.URL(fmt.Sprintf("/s%d/create%d", w.sid, k))
		theirs := w.note(noteID, "B", w.owner, nil)
		w.publish(w.activity(createID, "B", "Create", bob["id"], theirs))
		a := w.activity(act, "A", "Announce", w.owner, w.activity(createID, "A", "Create", bob["id"], mine))
		w.publish(a)
		return a
	case "other_actor":
		a := w.activity(act, "A", "Create", w.other, w.object(k))
		w.publish(a)
		if w.rng.Intn(2) == 0 {
			return act
		}
		return a
	case "other_actor_case":
		/* an actor whose id differs from the owner's in the case of a letter only: somebody else */
		twin := strings.Replace(w.owner, "/actors", "/Actors", 1)
		w.publish(w.actor(twin, "A"))
		a := w.activity(act, "A", "Create", twin, w.object(k))
		w.publish(a)
		if w.rng.Intn(2) == 0 {
			return act
		}
		return a
	case "other_actor_samehost_query":
		/* an actor whose id differs from the owner's only in the query */
		sep := "?"
		if strings.Contains(w.owner, "?") {
			sep = "&"
		}
		twin := w.actor(w.owner+sep+"rev=2", "A")
		w.publish(twin)
		a := w.activity(act, "A", "Create", twin["id"], w.object(k))
		w.publish(a)
		return a
	case "no_actor":
		a := w.activity(act, "A", "Create", nil, w.object(k))
		w.publish(a)
		return a
	case "fetch_fails":
		return w.A.URL(fmt.Sprintf("/s%d/missing%d", w.sid, k))
	case "not_activity":
		return w.note(w.A.URL(fmt.Sprintf("/s%d/plain%d", w.sid, k)), "A", w.owner, nil)
	case "foreign_claims_owner_id":
		/* the outbox embeds an activity that lives on M; M says it was mallory's */
		mal := w.actor(w.M.URL(fmt.Sprintf("/s%d/mallory", w.sid)), "M")
		w.publish(mal)
		id := w.M.URL(fmt.Sprintf("/s%d/act%d", w.sid, k))
		w.publish(w.activity(id, "M", "Create", mal["id"], w.note(w.M.URL(fmt.Sprintf("/s%d/mn%d", w.sid, k)), "M", mal["id"], nil)))
		return w.activity(id, "A", "Create", w.owner, w.object(k))
	case "redirected_forged":
		out := fmt.Sprintf("/s%d/out%d", w.sid, k)
		fake := fmt.Sprintf("/s%d/fakeact%d", w.sid, k)
		w.A.Set(out, &verifsim.Route{Raw: []byte("HTTP/1.1 302 Found\r\nLocation: " + w.M.URL(fake) + "\r\n\r\n")})
		w.serve(w.M, fake, w.activity(w.A.URL(fmt.Sprintf("/s%d/neverserved%d", w.sid, k)), "M", "Create", w.owner,
			w.note(w.A.URL(fmt.Sprintf("/s%d/neverservednote%d", w.sid, k)), "M", w.owner, nil)))
		return w.A.URL(out)
	case "anon_actor":
		anon := w.actor("", "A")
		delete(anon, "id")
		return w.activity("", "A", "Create", anon, w.note("", "A", nil, nil))
	case "actor_fetch_fails":
		a := w.activity(act, "A", "Create", w.A.URL(fmt.Sprintf("/s%d/noactor%d", w.sid, k)), w.object(k))
		w.publish(a)
		return a
	}
	panic("unknown outbox class " + class)
}

func (w *verifLW) replyEntry(class string, k int, parent string) any {
	r := w.A.URL(fmt.Sprintf("/s%d/r%d", w.sid, k))
	switch class {
	case "legit_emb":
		n := w.note(r, "A", w.owner, parent)
		w.publish(n)
		return n
	case "legit_ref":
		q := w.actor(w.B.URL(fmt.Sprintf("/s%d/q", w.sid)), "B")
		w.publish(q)
		n := w.note(w.B.URL(fmt.Sprintf("/s%d/r%d", w.sid, k)), "B", q["id"], parent)
		w.publish(n)
		return n["id"]
	case "legit_stub":
		w.publish(w.note(r, "A", w.owner, parent))
		return map[string]any{"id": r, "type": "Note"}
	case "other_parent":
		other := w.note(w.A.URL(fmt.Sprintf("/s%d/notes/other", w.sid)), "A", w.owner, nil)
		w.publish(other)
		n := w.note(r, "A", w.owner, other["id"])
		w.publish(n)
		return n
	case "other_parent_case":
		/* a reply to a post whose address differs from this one's in the case of a letter only: another post */
		twin := strings.Replace(parent, "/notes/n", "/Notes/n", 1)
		w.publish(w.note(twin, "A", w.owner, nil))
		n := w.note(r, "A", w.owner, twin)
		w.publish(n)
		return n
	case "no_parent":
		n := w.note(r, "A", w.owner, nil)
		w.publish(n)
		return n
	case "parent_fetch_fails":
		n := w.note(r, "A", w.owner, w.A.URL(fmt.Sprintf("/s%d/missingparent%d", w.sid, k)))
		w.publish(n)
		return n
	case "fetch_fails":
		return w.A.URL(fmt.Sprintf("/s%d/missing%d", w.sid, k))
	case "not_post":
		return w.actor(w.A.URL(fmt.Sprintf("/s%d/someone%d", w.sid, k)), "A")
	case "parent_other_host_same_path":
		_, target := w.target(parent)
		twin := w.note(w.B.URL(target), "B", nil, nil)
		w.publish(twin)
		n := w.note(r, "A", w.owner, twin["id"])
		w.publish(n)
		return n
	case "redirected_forged":
		out := fmt.Sprintf("/s%d/out%d", w.sid, k)
		fake := fmt.Sprintf("/s%d/fakereply%d", w.sid, k)
		w.A.Set(out, &verifsim.Route{Raw: []byte("HTTP/1.1 302 Found\r\nLocation: " + w.M.URL(fake) + "\r\n\r\n")})
		w.serve(w.M, fake, w.note(w.A.URL(fmt.Sprintf("/s%d/neverservedreply%d", w.sid, k)), "M", w.owner, parent))
		return w.A.URL(out)
	case "anon_parent":
		return w.note("", "A", nil, map[string]any{"type": "Note", "name": "STAMP_A", "content": "<p>nobody's</p>"})
	case "legit_author_no_actor":
		/* a reply that is what it says, but names as its author something on another host that is no actor at all (a note
		   with a person's name): whatever is shown as the author, it is not that */
		imp := w.note(w.M.URL(fmt.Sprintf("/s%d/impersonation%d", w.sid, k)), "M", nil, nil)
		imp["name"] = "STAMP_M Carol"
		w.publish(imp)
		var author any = imp["id"]
		if k%2 == 1 {
			author = imp
		}
		n := w.note(r, "A", author, parent)
		w.publish(n)
		return n
	case "forged_author":
		m := w.actor(w.M.URL(fmt.Sprintf("/s%d/m", w.sid)), "M")
		w.publish(m)
		n := w.note(r, "A", m["id"], parent)
		w.publish(n)
		return n
	}
	panic("unknown reply class " + class)
}

func (w *verifLW) hostName(u *url.URL) string {
	if u == nil {
		return "none"
	}
	if h := w.sim.HostByAddr(u.Host); h != nil {
		return h.Name
	}
	return "?" + u.Host
}

func verifStampOf(name string) string {
	if i := strings.Index(name, "STAMP_"); i >= 0 {
		return strings.Fields(name[i+6:] + " ")[0]
	}
	return "none"
}

func (w *verifLW) acceptEvent(out *verifkit.Trace, kind string, id *url.URL, stamp string, desc string) {
	idName := "none"
	if id != nil {
		idName = w.hostName(id) + id.RequestURI()
	}
	out.Emit(verifkit.M{"ev": "accept", "via": "pub", "modelled": false, "kind": kind, "ok": true, "id": idName,
		"id_host": w.hostName(id), "stamp": stamp, "desc": desc, "inp": "none", "src": "none"})
}

func (w *verifLW) inspect(out *verifkit.Trace, item Tangible, desc string) {
	switch x := item.(type) {
	case *Activity:
		stamp := "none"
		if x.createdErr == nil {
			stamp = verifIdxHost[x.created.Second()]
		}
		w.acceptEvent(out, "activity", x.id, stamp, desc)
		if x.actorErr == nil && x.actor != nil {
			w.inspect(out, x.actor, desc+"/actor")
		}
		w.inspect(out, x.target, desc+"/object")
	case *Actor:
		w.acceptEvent(out, "actor", x.id, verifStampOf(x.name), desc)
	case *Post:
		w.acceptEvent(out, "post", x.id, verifStampOf(x.title), desc)
		/* walking up the thread, as a page does */
		if !strings.Contains(desc, "/parent") {
			if parents, _ := x.Parents(1); len(parents) == 1 {
				w.inspect(out, parents[0], desc+"/parent")
			}
		}
		for _, c := range x.creators {
			if a, ok := c.(*Actor); ok {
				w.inspect(out, a, desc+"/author")
				out.Emit(verifkit.M{"ev": "author", "shown": true, "post_host": w.hostName(x.id), "author_host": w.hostName(a.id), "desc": desc,
					"post_served": verifStampOf(x.title), "author_served": verifStampOf(a.name)})
				continue
			}
			if _, failed := c.(*Failure); failed {
				continue
			}
			/* whatever else stands in the byline is shown as the author: where it lives is where its identifier says */
			var id *url.URL
			switch y := c.(type) {
			case *Post:
				id = y.id
			case *Activity:
				id = y.id
			}
			out.Emit(verifkit.M{"ev": "author", "shown": true, "post_host": w.hostName(x.id), "author_host": w.hostName(id), "desc": desc + " (the author is a " + fmt.Sprintf("%T", c) + ")",
				"post_served": verifStampOf(x.title), "author_served": verifStampOf(verifSGR.ReplaceAllString(c.Name(), ""))})
		}
	}
}

type verifListingIn struct {
	Kind    string   `json:"kind"`
	Owner   string   `json:"owner"`
	Classes []string `json:"classes"`
	Place   string   `json:"place"`
}

func verifRunListing(out *verifkit.Trace, w *verifLW, in verifListingIn) {
	w.sim.Reset()
	jtp.VerifSetCache(1 + w.rng.Intn(64))
	w.sid++
	w.ownerStyle = in.Owner
	ownerTarget, otherTarget := fmt.Sprintf("/s%d/actors/o", w.sid), fmt.Sprintf("/s%d/actors/p", w.sid)
	if in.Owner == "query" {
		ownerTarget, otherTarget = fmt.Sprintf("/s%d/actors?author=1", w.sid), fmt.Sprintf("/s%d/actors?author=2", w.sid)
	}
	w.owner, w.other = w.A.URL(ownerTarget), w.A.URL(otherTarget)
	w.publish(w.actor(w.other, "A"))
	entries := make([]any, len(in.Classes))
	out.Emit(verifkit.M{"ev": "begin", "sid": w.sid, "kind": in.Kind, "owner": in.Owner, "classes": in.Classes, "place": in.Place})
	var rootURL string
	var rootDoc map[string]any /* owner "anon": the owner has no id and is opened as a document, not by address */
	if in.Kind == "outbox" {
		for k, c := range in.Classes {
			entries[k] = w.outboxEntry(c, k)
		}
		outboxID := w.A.URL(fmt.Sprintf("/s%d/outbox", w.sid))
		outbox := map[string]any{"id": outboxID, "type": "OrderedCollection", "totalItems": w.count(len(entries))}
		var inlineOutbox map[string]any
		if in.Place == "inline_anon" {
			/* the listing is part of the owner's document and has no id of its own */
			inlineOutbox = map[string]any{"type": "OrderedCollection", "totalItems": w.count(len(entries))}
			if w.rng.Intn(2) == 0 {
				inlineOutbox["orderedItems"] = entries
			} else {
				inlineOutbox["first"] = w.partOf(map[string]any{"type": "OrderedCollectionPage", "orderedItems": entries}, outboxID)
			}
		} else if in.Place == "foreign_anon" || in.Place == "redirect_anon" {
			/* the listing is served by B and has no id; what it embeds is B's word */
			foreign := fmt.Sprintf("/s%d/outbox", w.sid)
			anon := map[string]any{"type": "OrderedCollection", "totalItems": w.count(len(entries))}
			items := verifDeepRestamp(entries, "B")
			if w.rng.Intn(2) == 0 {
				anon["orderedItems"] = items
			} else {
				/* a page without an id may say which collection it is part of - here the owner's own, on the owner's host */
				anon["first"] = w.partOf(map[string]any{"type": "OrderedCollectionPage", "orderedItems": items}, w.A.URL(fmt.Sprintf("/s%d/outbox", w.sid)))
			}
			w.serve(w.B, foreign, anon)
			outboxID = w.B.URL(foreign)
			if in.Place == "redirect_anon" {
				outboxID = w.A.URL(foreign)
				w.A.Set(foreign, &verifsim.Route{Raw: []byte("HTTP/1.1 302 Found\r\nLocation: " + w.B.URL(foreign) + "\r\n\r\n")})
			}
		} else if w.rng.Intn(2) == 0 {
			outbox["orderedItems"] = entries
		} else {
			page := map[string]any{"id": outboxID + "?page=1", "type": "OrderedCollectionPage", "orderedItems": entries, "partOf": outboxID}
			if len(entries) >= 2 && w.rng.Intn(2) == 0 {
				/* the entries on two pages */
				half := 1 + w.rng.Intn(len(entries)-1)
				second := map[string]any{"id": outboxID + "?page=2", "type": "OrderedCollectionPage", "orderedItems": entries[half:], "partOf": outboxID}
				w.publish(second)
				page["orderedItems"], page["next"] = entries[:half], second["id"]
			}
			w.publish(page)
			if w.rng.Intn(2) == 0 {
				outbox["first"] = page["id"]
			} else {
				outbox["first"] = page
			}
		}
		if in.Place == "own" {
			w.publish(outbox)
		}
		owner := w.actor(w.owner, "A")
		owner["outbox"] = outboxID
		if inlineOutbox != nil {
			owner["outbox"] = inlineOutbox
		}
		w.publish(owner)
		rootURL = w.owner
		if in.Owner == "anon" {
			rootDoc = map[string]any{}
			for k, v := range owner {
				if k != "id" {
					rootDoc[k] = v
				}
			}
		}
	} else {
		parent := w.A.URL(fmt.Sprintf("/s%d/notes/n", w.sid))
		for k, c := range in.Classes {
			entries[k] = w.replyEntry(c, k, parent)
		}
		w.publish(w.actor(w.owner, "A"))
		n := w.note(parent, "A", w.owner, nil)
		replies := map[string]any{"id": parent + "/replies", "type": "Collection", "items": entries, "totalItems": w.count(len(entries))}
		if in.Place == "inline_anon" {
			n["replies"] = map[string]any{"type": "Collection", "items": entries, "totalItems": w.count(len(entries))}
		} else if in.Place == "foreign_anon" || in.Place == "redirect_anon" {
			foreign := fmt.Sprintf("/s%d/replies", w.sid)
			if w.rng.Intn(2) == 0 {
				w.serve(w.B, foreign, map[string]any{"type": "Collection", "totalItems": w.count(len(entries)),
					"first": w.partOf(map[string]any{"type": "CollectionPage", "items": verifDeepRestamp(entries, "B")}, parent+"/replies")})
			} else {
				w.serve(w.B, foreign, map[string]any{"type": "Collection", "items": verifDeepRestamp(entries, "B"), "totalItems": w.count(len(entries))})
			}
			n["replies"] = w.B.URL(foreign)
			if in.Place == "redirect_anon" {
				n["replies"] = w.A.URL(foreign)
				w.A.Set(foreign, &verifsim.Route{Raw: []byte("HTTP/1.1 302 Found\r\nLocation: " + w.B.URL(foreign) + "\r\n\r\n")})
			}
		} else if w.rng.Intn(2) == 0 || in.Owner == "anon" {
			/* (a collection with an id embedded in a document without one is fetched from its id: serve it) */
			w.publish(replies)
			n["replies"] = replies["id"]
		} else {
			n["replies"] = replies
		}
		w.publish(n)
		rootURL = parent
		if in.Owner == "anon" {
			/* an anonymous note cannot name an identified author (that would be a forged creator) */
			rootDoc = map[string]any{}
			for k, v := range n {
				if k != "id" && k != "attributedTo" {
					rootDoc[k] = v
				}
			}
		}
	}
	/* twice: the second time everything that can be is answered from the cache */
	for pass := 1; pass <= 2; pass++ {
	shown := []string{}
	var what string
	panicked, what := verifkit.Try(func() {
		var root any
		if rootDoc != nil {
			root = New(rootDoc, nil)
		} else {
			root = New(rootURL, nil)
		}
		tangible, ok := root.(Tangible)
		if !ok {
			panic(fmt.Sprintf("owner is a %T", root))
		}
		if f, isFailure := tangible.(*Failure); isFailure {
			panic("owner failed to load: " + f.message.Error())
		}
		w.inspect(out, tangible, "owner")
		children := tangible.Children()
		if children == nil {
			panic("owner has no children container")
		}
		var items []Tangible
		if w.sid%2 == 1 && len(entries) >= 2 {
			/* read as a page is read: a little first, the rest from where that stopped */
			first, next, start := children.Harvest(1, 0)
			items = append(items, first...)
			for next != nil && len(items) < len(entries)+6 {
				var more []Tangible
				more, next, start = next.Harvest(uint(len(entries)+3), start)
				items = append(items, more...)
			}
		} else {
			items, _, _ = children.Harvest(uint(len(entries)+3), 0)
		}
		for i, it := range items {
			if _, isFailure := it.(*Failure); isFailure {
				shown = append(shown, "error")
			} else {
				shown = append(shown, "genuine")
				w.inspect(out, it, fmt.Sprintf("%s[%d]", in.Kind, i))
			}
		}
	})
	ev := verifkit.M{"ev": "listing", "sid": w.sid, "kind": in.Kind, "owner": in.Owner, "classes": in.Classes, "shown": shown, "panic": panicked, "place": in.Place, "pass": pass}
	if panicked {
		ev["what"] = what
	}
	out.Emit(ev)
	}
}

/* a page that holds exactly as many entries as are asked for, each fetched slowly, and whose link to the next page is
   dead (answered at once): the entries and one error item, none of them missing */
func verifExactPage(out *verifkit.Trace, w *verifLW) {
	for round := 0; round < 3; round++ {
		w.sim.Reset()
		jtp.VerifSetCache(64)
		w.sid++
		w.ownerStyle = "path"
		n := 4 + round
		parent := w.A.URL(fmt.Sprintf("/s%d/notes/n", w.sid))
		w.owner = w.A.URL(fmt.Sprintf("/s%d/actors/o", w.sid))
		w.publish(w.actor(w.owner, "A"))
		classes := []string{}
		refs := []any{}
		for k := 0; k < n; k++ {
			r := w.A.URL(fmt.Sprintf("/s%d/r%d", w.sid, k))
			w.publish(w.note(r, "A", w.owner, parent))
			if host, target := w.target(r); host != nil {
				if route := host.Route(target); route != nil {
					route.Delay = time.Duration(30+10*k) * time.Millisecond
				}
			}
			refs = append(refs, r)
			classes = append(classes, "legit_ref")
		}
		classes = append(classes, "fetch_fails")
		page := map[string]any{"id": parent + "/replies?page=1", "type": "CollectionPage", "items": refs, "next": w.A.URL(fmt.Sprintf("/s%d/gone", w.sid))}
		w.publish(page)
		w.publish(map[string]any{"id": parent + "/replies", "type": "Collection", "first": page["id"]})
		note := w.note(parent, "A", w.owner, nil)
		note["replies"] = parent + "/replies"
		w.publish(note)
		out.Emit(verifkit.M{"ev": "begin", "sid": w.sid, "kind": "replies", "owner": "path", "classes": classes, "place": "own"})
		shown := []string{}
		panicked, what := verifkit.Try(func() {
			post, err := NewPost(parent, nil)
			if err != nil {
				panic(err)
			}
			items, _, _ := post.Children().Harvest(uint(n), 0)
			for _, it := range items {
				switch x := it.(type) {
				case nil:
					shown = append(shown, "nothing")
				case *Failure:
					shown = append(shown, "error")
				default:
					_ = x
					shown = append(shown, "genuine")
				}
			}
		})
		ev := verifkit.M{"ev": "listing", "sid": w.sid, "kind": "replies", "owner": "path", "classes": classes, "shown": shown, "panic": panicked, "place": "own", "pass": 1}
		if panicked {
			ev["what"] = what
		}
		out.Emit(ev)
	}
}

func TestVerifListing(t *testing.T) {
	var in struct {
		Sessions []verifListingIn `json:"sessions"`
		Random   int              `json:"random"`
		Outbox   []string         `json:"outbox_classes"`
		Replies  []string         `json:"reply_classes"`
	}
	verifkit.In(&in)
	out := verifkit.Out()
	defer out.Close()
	sim := verifsim.Get()
	defer sim.Cleanup()
	jtp.VerifSetTimeout(3 * time.Second)
	w := &verifLW{sim: sim, rng: verifkit.Rand(), A: sim.Host("A"), B: sim.Host("B"), M: sim.Host("M")}
	w.A2 = sim.HostLike("A2", "A")
	for _, s := range in.Sessions {
		if s.Place == "" {
			s.Place = "own"
		}
		verifRunListing(out, w, s)
	}
	for i := 0; i < in.Random; i++ {
		s := verifListingIn{Kind: "outbox", Owner: []string{"path", "query", "path", "query", "anon"}[w.rng.Intn(5)]}
		pool := in.Outbox
		if w.rng.Intn(3) == 0 {
			s.Kind, s.Owner, pool = "replies", []string{"path", "path", "anon"}[w.rng.Intn(3)], in.Replies
		}
		s.Place = "own"
		if s.Owner == "path" && w.rng.Intn(3) == 0 {
			s.Place = []string{"foreign_anon", "redirect_anon", "inline_anon"}[w.rng.Intn(3)]
		}
		if s.Owner == "anon" && w.rng.Intn(2) == 0 {
			s.Place = "inline_anon"
		}
		for k := 3 + w.rng.Intn(6); k > 0; k-- {
			s.Classes = append(s.Classes, pool[w.rng.Intn(len(pool))])
		}
		verifRunListing(out, w, s)
	}
	verifExactPage(out, w)
}

/* the count a collection states about itself is advisory: accurate, left at 0, stale, or not a number at all */
func (w *verifLW) count(n int) any {
	switch w.rng.Intn(5) {
	case 0:
		return 0
	case 1:
		return 99
	case 2:
		return "many"
	}
	return n
}

/* what a page says about the collection it belongs to is its own word */
func (w *verifLW) partOf(page map[string]any, collection string) map[string]any {
	if w.rng.Intn(3) > 0 {
		page["partOf"] = collection
	}
	return page
}
