//go:build verif

package pub

import (
	"encoding/json"
	"fmt"
	"servitor/jtp"
	"servitor/verifkit"
	"servitor/verifsim"
	"sort"
	"strings"
	"testing"
	"time"
)

/*
	C05 at the level of items (Assembly.tla).  An obligation names an item kind and, per secondary
	fetch ("branch") of that kind, how its peer behaves: honest, refusing, closing without an
	answer, cutting the response inside its body, garbage, reset, or stalling.  The primary document
	always arrives intact.  The item is built with the real constructors under a watchdog; then
	the operations a page performs on it run (text, preview, children + harvest, parents), each
	under recover and a watchdog.  Recorded per branch: whether its (stamped) content shows up
	as a value, or an error is recorded for it.  T_Assembly.tla judges.
*/

const verifAssemblyT = time.Second

type verifAssemblyIn struct {
	Kind  string            `json:"kind"`
	Fault map[string]string `json:"fault"`
}

type verifAssembly struct {
	sim  *verifsim.Sim
	p    *verifsim.Host
	dead *verifsim.Host
	out  *verifkit.Trace
	n    int
}

func verifHTTP(doc map[string]any) []byte {
	data, _ := json.Marshal(doc)
	return []byte("HTTP/1.1 200 OK\r\nServer: sim\r\nContent-Type: application/activity+json\r\n\r\n" + string(data) + "\n")
}

/* serve doc for `branch` at target with the given fault; returns the URL to reference */
func (v *verifAssembly) branch(target string, doc map[string]any, fault string, salt int) string {
	raw := verifHTTP(doc)
	bodyStart := strings.Index(string(raw), "\r\n\r\n") + 4
	inside := bodyStart + 1 + salt%(len(raw)-bodyStart-3) /* strictly inside the JSON object */
	r := &verifsim.Route{Raw: raw}
	switch fault {
	case "refuse":
		return v.dead.URL(target)
	case "close":
		r.Fault, r.At = "cut", 0
	case "cut":
		r.Fault, r.At = "cut", inside
	case "reset":
		r.Fault, r.At = "reset", []int{0, 9, bodyStart, inside}[salt%4]
	case "stall":
		r.Fault, r.At = "stall", []int{0, 9, bodyStart - 2, inside}[salt%4]
	case "garbage":
		r.Raw = [][]byte{[]byte("\x00\x01\x02 not http at all\r\n\r\n"), []byte("HTTP/1.1 200 OK\r\nContent-Type: application/activity+json\r\n\r\n{\"id\": \"x\", \"type\": "),
			[]byte("HTTP/1.1 200 OK\r\nContent-Type: application/activity+json\r\n\r\n<html>nope</html>")}[salt%3]
	}
	v.p.Set(target, r)
	return v.p.URL(target)
}

func verifContains(texts []string, token string) bool {
	for _, t := range texts {
		if strings.Contains(verifSGR.ReplaceAllString(t, ""), token) {
			return true
		}
	}
	return false
}

func (v *verifAssembly) run(in verifAssemblyIn) {
	v.n++
	base := fmt.Sprintf("/as%d", v.n)
	person := func(target string, stamp string) map[string]any {
		return map[string]any{"id": v.p.URL(target), "type": "Person", "name": "STAMP" + stamp, "preferredUsername": "u" + stamp}
	}
	branches := []string{}
	for b := range in.Fault {
		branches = append(branches, b)
	}
	sort.Strings(branches)
	ref := map[string]string{}
	stages := 1
	var primary map[string]any
	primaryURL := v.p.URL(base + "/primary")
	switch in.Kind {
	case "post":
		stages = 2 /* the parent is fetched before the other branches start */
		/* second-level branches first: what the author and the parent need in their turn */
		secondLevel := map[string]string{}
		for i, b := range branches {
			target := base + "/" + b
			switch b {
			case "author_outbox":
				doc := map[string]any{"id": v.p.URL(target), "type": "OrderedCollection", "totalItems": 1, "orderedItems": []any{
					map[string]any{"id": v.p.URL(target + "/a1"), "type": "Create", "actor": v.p.URL(base + "/authors"),
						"object": map[string]any{"id": v.p.URL(target + "/n1"), "type": "Note", "name": "STAMPauthor_outbox", "content": "<p>x</p>"}}}}
				secondLevel[b] = v.branch(target, doc, in.Fault[b], v.n+i)
			case "parent_author":
				secondLevel[b] = v.branch(target, person(target, b), in.Fault[b], v.n+i)
			}
		}
		for i, b := range branches {
			target := base + "/" + b
			var doc map[string]any
			switch b {
			case "author_outbox", "parent_author":
				continue
			case "parent":
				doc = map[string]any{"id": v.p.URL(target), "type": "Note", "name": "STAMPparent", "content": "<p>parent</p>"}
				if u, ok := secondLevel["parent_author"]; ok {
					doc["attributedTo"] = u
				}
			case "authors":
				doc = person(target, b)
				if u, ok := secondLevel["author_outbox"]; ok {
					doc["outbox"] = u
				}
			case "recipients":
				doc = person(target, b)
			case "replies":
				doc = map[string]any{"id": v.p.URL(target), "type": "Collection", "totalItems": 1, "items": []any{
					map[string]any{"id": v.p.URL(target + "/r1"), "type": "Note", "name": "STAMPreplies", "content": "<p>reply</p>", "inReplyTo": primaryURL}}}
			}
			ref[b] = v.branch(target, doc, in.Fault[b], v.n+i)
		}
		primary = map[string]any{"id": primaryURL, "type": "Note", "name": "primary", "content": "<p>text</p>", "published": "2024-01-02T03:04:05Z"}
		for b, key := range map[string]string{"parent": "inReplyTo", "authors": "attributedTo", "recipients": "audience", "replies": "replies"} {
			if u, ok := ref[b]; ok {
				primary[key] = u
			}
		}
	case "activity":
		for i, b := range branches {
			target := base + "/" + b
			var doc map[string]any
			switch b {
			case "actor":
				doc = person(target, b)
			case "object":
				doc = map[string]any{"id": v.p.URL(target), "type": "Note", "name": "STAMPobject", "content": "<p>object</p>"}
			}
			ref[b] = v.branch(target, doc, in.Fault[b], v.n+i)
		}
		primary = map[string]any{"id": primaryURL, "type": []string{"Announce", "Like", "Create"}[v.n%3], "published": "2024-01-02T03:04:05Z"}
		for b, key := range map[string]string{"actor": "actor", "object": "object"} {
			if u, ok := ref[b]; ok {
				primary[key] = u
			}
		}
	case "actor":
		entryActor := ""
		for i, b := range branches {
			if b == "entry_actor" {
				entryActor = v.branch(base+"/"+b, person(base+"/"+b, b), in.Fault[b], v.n+i)
			}
		}
		for i, b := range branches {
			if b == "entry_actor" {
				continue
			}
			target := base + "/" + b
			doc := map[string]any{"id": v.p.URL(target), "type": "OrderedCollection", "totalItems": 1, "orderedItems": []any{
				map[string]any{"id": v.p.URL(target + "/a1"), "type": "Create", "actor": primaryURL,
					"object": map[string]any{"id": v.p.URL(target + "/n1"), "type": "Note", "name": "STAMPoutbox", "content": "<p>x</p>"}}}}
			if entryActor != "" {
				/* a boost in the outbox names an actor that has to be fetched */
				doc["totalItems"] = 2
				doc["orderedItems"] = append(doc["orderedItems"].([]any), map[string]any{"id": v.p.URL(target + "/a2"), "type": "Announce", "actor": entryActor,
					"object": map[string]any{"id": v.p.URL(target + "/n2"), "type": "Note", "name": "boosted", "content": "<p>y</p>"}})
			}
			ref[b] = v.branch(target, doc, in.Fault[b], v.n+i)
		}
		primary = map[string]any{"id": primaryURL, "type": "Person", "name": "primary", "preferredUsername": "owner"}
		if u, ok := ref["outbox"]; ok {
			primary["outbox"] = u
		}
	}
	v.p.Set(base+"/primary", &verifsim.Route{Raw: verifHTTP(primary)})
	v.out.Emit(verifkit.M{"ev": "begin", "n": v.n, "kind": in.Kind, "fault": in.Fault})

	/* build */
	type built struct {
		item any
		pan  bool
		what string
	}
	done := make(chan built, 1)
	start := time.Now()
	go func() {
		var b built
		b.pan, b.what = verifkit.Try(func() { b.item = New(primaryURL, nil) })
		done <- b
	}()
	ev := verifkit.M{"ev": "assembled", "n": v.n, "kind": in.Kind, "fault": in.Fault, "stages": stages, "built": false, "panic": false,
		"ops": []verifkit.M{}, "rep": verifkit.M{}, "what": ""}
	var item any
	select {
	case b := <-done:
		ev["built"], ev["panic"], ev["what"] = !b.pan, b.pan, b.what
		item = b.item
	case <-time.After(time.Duration(3*stages+2) * verifAssemblyT):
		ev["what"] = "the item was still being assembled"
	}
	elapsed := time.Since(start)
	ev["ticks"], ev["ms"] = int(elapsed/verifAssemblyT), elapsed.Milliseconds()
	tangible, isTangible := item.(Tangible)
	ev["type"] = fmt.Sprintf("%T", item)
	if ev["built"] == true && isTangible {
		texts := []string{}
		ops := []verifkit.M{}
		op := func(name string, f func()) {
			finished := make(chan [2]string, 1)
			go func() {
				pan, what := verifkit.Try(f)
				outcome := "ok"
				if pan {
					outcome = "panic"
				}
				finished <- [2]string{outcome, what}
			}()
			select {
			case r := <-finished:
				ops = append(ops, verifkit.M{"op": name, "outcome": r[0], "what": verifkit.Clip(r[1], 200)})
			case <-time.After(8 * verifAssemblyT):
				ops = append(ops, verifkit.M{"op": name, "outcome": "hang", "what": ""})
			}
		}
		op("text", func() { texts = append(texts, tangible.String(80), tangible.Name()) })
		op("preview", func() { texts = append(texts, tangible.Preview(60)) })
		childError := false
		op("children", func() {
			/* as ui.loadSurroundings does */
			if children := tangible.Children(); children != nil {
				items, _, _ := children.Harvest(4, 0)
				for _, it := range items {
					texts = append(texts, it.String(80))
					if _, isFailure := it.(*Failure); isFailure {
						childError = true
					}
				}
			}
		})
		parentShownAsError, frontierKept, parentAuthorFailed := false, false, false
		op("parents", func() {
			/* as ui.switchTo and ui.loadSurroundings do: the frontier first, then the items above it */
			_, frontier := tangible.Parents(0)
			frontierKept = frontier != nil
			parents, _ := tangible.Parents(2)
			for _, it := range parents {
				texts = append(texts, it.String(80))
				if _, isFailure := it.(*Failure); isFailure {
					parentShownAsError = true
				}
				if parent, isPost := it.(*Post); isPost {
					for _, c := range parent.creators {
						if _, isFailure := c.(*Failure); isFailure {
							parentAuthorFailed = true
						}
					}
				}
			}
		})
		ev["ops"] = ops
		rep := verifkit.M{}
		for _, b := range branches {
			failed := false
			switch x := tangible.(type) {
			case *Post:
				switch b {
				case "parent":
					/* what a page shows: walking up from the post yields an error item */
					failed = parentShownAsError && frontierKept
				case "authors":
					for _, c := range x.creators {
						_, isFailure := c.(*Failure)
						failed = failed || isFailure
					}
				case "recipients":
					for _, c := range x.recipients {
						_, isFailure := c.(*Failure)
						failed = failed || isFailure
					}
				case "replies":
					failed = x.commentsErr != nil
				case "author_outbox":
					/* the author is shown; what failed is recorded with the author (or the author failed altogether) */
					for _, c := range x.creators {
						if a, isActor := c.(*Actor); isActor {
							failed = failed || a.postsErr != nil
						} else {
							failed = true
						}
					}
					if len(x.creators) == 0 {
						failed = true
					}
				case "parent_author":
					failed = parentAuthorFailed || x.parentErr != nil
				}
			case *Activity:
				switch b {
				case "actor":
					failed = x.actorErr != nil
				case "object":
					_, failed = x.target.(*Failure)
				}
			case *Actor:
				if b == "entry_actor" {
					/* the entry is not the owner's in any case: it is listed as an error item */
					failed = childError || x.postsErr != nil /* (nothing of the outbox is read when the outbox itself failed) */
				} else {
					failed = x.postsErr != nil
				}
			}
			switch {
			case verifContains(texts, "STAMP"+b):
				rep[b] = "value"
			case failed:
				rep[b] = "error"
			default:
				rep[b] = "absent"
			}
		}
		ev["rep"] = rep
	}
	v.out.Emit(ev)
}

func TestVerifAssembly(t *testing.T) {
	var in struct {
		Cases []verifAssemblyIn `json:"cases"`
	}
	verifkit.In(&in)
	out := verifkit.Out()
	defer out.Close()
	sim := verifsim.Get()
	defer sim.Cleanup()
	jtp.VerifSetTimeout(verifAssemblyT)
	jtp.VerifSetCache(4)
	v := &verifAssembly{sim: sim, p: sim.Host("P"), out: out}
	/* an address nobody listens on: connections are refused */
	v.dead = sim.Host("dead")
	deadCopy := *v.dead
	sim.DropHost("dead")
	v.dead = &deadCopy
	for _, c := range in.Cases {
		v.run(c)
	}
}
