//go:build verif

package pub

import (
	"encoding/json"
	"fmt"
	"net/url"
	"regexp"
	"servitor/config"
	"servitor/verifkit"
	"strings"
	"testing"
	"time"
)

/*
	Cards: one implementation test per field vector of Card.tla.  Every vector printed by TLC
	(MC_Card) is realised as a concrete ActivityStreams object without identifiers (so nothing is
	fetched), built with the real constructors, rendered in full and as a preview at a width where
	nothing wraps, and cut into lines of words; T_Card.tla compares the lines with the
	composition transcribed in Card.tla.
*/
type verifCardTime struct {
	C string `json:"c"`
	D int    `json:"d"`
}
type verifCardCount struct {
	C string `json:"c"`
	N int    `json:"n"`
}
type verifCardActor struct {
	Kind   string          `json:"kind"`
	Name   string          `json:"name"`
	Handle string          `json:"handle"`
	Id     string          `json:"id"`
	Joined string          `json:"joined"`
	Bio    string          `json:"bio"`
	Outbox *verifCardCount `json:"outbox"`
}
type verifCardPost struct {
	Kind       string           `json:"kind"`
	Title      string           `json:"title"`
	Parent     string           `json:"parent"`
	Creators   []verifCardActor `json:"creators"`
	Recipients []verifCardActor `json:"recipients"`
	Created    verifCardTime    `json:"created"`
	Body       string           `json:"body"`
	Atts       struct {
		C string   `json:"c"`
		L []string `json:"l"`
	} `json:"atts"`
	Comments verifCardCount `json:"comments"`
}
type verifCardActivity struct {
	Kind   string         `json:"kind"`
	Actor  verifCardActor `json:"actor"`
	Target verifCardPost  `json:"target"`
}

func verifCardCollection(c verifCardCount, k int) (any, bool) {
	kind := []string{"Collection", "OrderedCollection"}[k%2]
	switch c.C {
	case "absent":
		return nil, false
	case "number":
		return []any{5.0, true}[k%2], true
	case "untyped":
		return map[string]any{"totalItems": 3.0}, true
	case "nosize":
		return map[string]any{"type": kind}, true
	case "badsize":
		return map[string]any{"type": kind, "totalItems": []any{"many", -1.0, 1.5}[k%3]}, true
	}
	return map[string]any{"type": kind, "totalItems": float64(c.N)}, true
}

func verifCardActorObject(a verifCardActor, k int) any {
	switch a.Kind {
	case "failure":
		return []any{map[string]any{"type": "Note", "name": "nm"}, 5.0, map[string]any{"name": "nm"}}[k%3]
	}
	o := map[string]any{"type": map[string]string{"person": "Person", "group": "Group", "service": "Service"}[a.Kind]}
	switch a.Name {
	case "absent":
	case "bad":
		o["name"] = []any{7.0, []any{"nm"}}[k%2]
	default:
		o["name"] = a.Name
	}
	switch a.Handle {
	case "absent", "":
	case "bad":
		o["preferredUsername"] = 7.0
	default:
		o["preferredUsername"] = a.Handle
	}
	switch a.Joined {
	case "bad":
		o["published"] = []any{"yesterday", 5.0}[k%2]
	case "good":
		o["published"] = "2020-03-04T05:06:07Z"
	}
	switch a.Bio {
	case "bad":
		o["summary"] = 5.0
	case "plain":
		o["summary"] = "BODY"
	}
	if a.Outbox != nil {
		if c, ok := verifCardCollection(*a.Outbox, k); ok {
			o["outbox"] = c
		}
	}
	return o
}

func verifCardPostObject(p verifCardPost, k int, now time.Time) any {
	if p.Kind == "failure" {
		return []any{map[string]any{"type": "Banana"}, map[string]any{"type": "Tombstone"}}[k%2]
	}
	o := map[string]any{"type": map[string]string{"note": "Note", "article": "Article", "page": "Page"}[p.Kind]}
	switch p.Title {
	case "bad":
		o["name"] = 7.0
	case "good":
		o["name"] = "TITLE"
	}
	switch p.Parent {
	case "bad":
		o["inReplyTo"] = []any{5.0, map[string]any{"id": 5.0}}[k%2]
	case "good":
		o["inReplyTo"] = map[string]any{"type": "Note", "content": "elsewhere"}
	}
	people := func(key string, as []verifCardActor) {
		if len(as) == 0 {
			if k%2 == 1 {
				o[key] = []any{}
			}
			return
		}
		if len(as) == 1 && k%2 == 1 {
			o[key] = verifCardActorObject(as[0], k) /* a single value stands for a list of one */
			return
		}
		list := []any{}
		for i, a := range as {
			list = append(list, verifCardActorObject(a, k+i))
		}
		o[key] = list
	}
	people("attributedTo", p.Creators)
	people("audience", p.Recipients)
	switch p.Created.C {
	case "bad":
		o["published"] = []any{"yesterday", 5.0, "2020-03-04"}[k%3]
	case "good":
		o["published"] = now.Add(-time.Duration(p.Created.D) * time.Second).UTC().Format(time.RFC3339)
	}
	switch p.Body {
	case "bad":
		o["content"] = 5.0
	case "plain":
		o["content"] = "BODY"
	case "link":
		o["content"] = `<p><a href="https://l.example/1">BODY</a></p>`
	}
	if p.Atts.C != "absent" {
		list := []any{}
		for i, c := range p.Atts.L {
			n := fmt.Sprint(i + 1)
			switch c {
			case "named":
				list = append(list, map[string]any{"type": "Document", "name": "att" + n, "url": "https://u.example/x" + n})
			case "urlonly":
				list = append(list, map[string]any{"type": []string{"Document", "Image"}[k%2], "url": "https://u.example/url" + n})
			case "nourl":
				list = append(list, map[string]any{"type": "Document"})
			case "badname":
				list = append(list, map[string]any{"type": "Document", "name": 5.0, "url": "https://u.example/x" + n})
			case "notlink":
				list = append(list, []any{map[string]any{"type": "Note"}, "https://u.example/bare", 5.0}[k%3])
			case "untyped":
				list = append(list, map[string]any{"name": "att" + n, "url": "https://u.example/x" + n})
			}
		}
		o["attachment"] = list
	}
	if c, ok := verifCardCollection(p.Comments, k); ok {
		o[[]string{"replies", "comments"}[(k/2)%2]] = c
	}
	return o
}

var verifCardWords = regexp.MustCompile(`PROBLEM|TITLE|BODY|@hd@h\.example|https://u\.example/url[12]|cr[12]|rc1|nm|att[12]` +
	`|\((?:group|person|service)\)|comments disabled|comments enabled|\d+ comments?|\d+ posts?` +
	`|\d+ (?:days|hours|minutes) ago|1 (?:day|hour|minute) ago|seconds ago|retweeted:|upvoted:|downvoted:|joined|4 Mar 2020` +
	`|\b(?:note|article|page|comment|person|by|to|at)\b|•|,|‣|…|[⁰¹²³⁴⁵⁶⁷⁸⁹]+`)

var verifCardDigits = map[rune]rune{'⁰': '0', '¹': '1', '²': '2', '³': '3', '⁴': '4', '⁵': '5', '⁶': '6', '⁷': '7', '⁸': '8', '⁹': '9'}

/* a rendered card as lines of words; text in the error colour becomes the word "problem" */
func verifCardLines(text string) []verifkit.M {
	red := "38;2;" + config.Parsed.Style.Colors.Error
	lines := []verifkit.M{}
	var plain strings.Builder
	inRed := false
	lead, started := 0, false
	flush := func() {
		raw := plain.String()
		plain.Reset()
		inRed = false
		ind := lead
		lead, started = 0, false
		toks := []string{}
		last := 0
		gap := func(s string) {
			if s = strings.TrimSpace(s); s != "" {
				toks = append(toks, "?"+verifkit.Clip(s, 40))
			}
		}
		for _, m := range verifCardWords.FindAllStringIndex(raw, -1) {
			gap(raw[last:m[0]])
			last = m[1]
			w := raw[m[0]:m[1]]
			switch {
			case w == "PROBLEM":
				w = "problem"
			case w == "TITLE":
				w = "title"
			case w == "BODY":
				w = "body"
			case w == "4 Mar 2020":
				w = "date"
			case w == "@hd@h.example":
				w = "@hd"
			case strings.HasPrefix(w, "https://u.example/"):
				w = strings.TrimPrefix(w, "https://u.example/")
			default:
				if _, sup := verifCardDigits[[]rune(w)[0]]; sup {
					w = "^" + strings.Map(func(r rune) rune { return verifCardDigits[r] }, w)
				}
			}
			toks = append(toks, w)
		}
		gap(raw[last:])
		if len(toks) == 0 {
			ind = 0
		}
		lines = append(lines, verifkit.M{"ind": ind, "toks": toks})
	}
	for _, c := range verifkit.Cells(text) {
		if c.K == "nl" {
			flush()
			continue
		}
		if c.K == "sp" && c.C == " " && !started {
			lead++
		} else {
			started = true
		}
		isRed := false
		for _, s := range c.S {
			if strings.HasPrefix(s, "38;2;") {
				isRed = s == red
			}
		}
		if isRed && c.K != "sp" {
			if !inRed {
				plain.WriteString(" PROBLEM ")
			}
			inRed = true
			continue
		}
		if isRed && inRed {
			continue /* the spaces between the words of an error text */
		}
		inRed = false
		plain.WriteString(c.C)
	}
	flush()
	return lines
}

func TestVerifCard(t *testing.T) {
	var in struct {
		Cards []struct {
			What string          `json:"what"`
			F    json.RawMessage `json:"f"`
		} `json:"cards"`
	}
	verifkit.In(&in)
	out := verifkit.Out()
	defer out.Close()
	actorId, _ := url.Parse("https://h.example/actor")
	for k, c := range in.Cards {
		var f any
		json.Unmarshal(c.F, &f)
		ev := verifkit.M{"ev": "card", "n": k, "what": c.What, "f": f, "string": []any{}, "preview": []any{}, "built": true}
		for attempt := 0; attempt < 3; attempt++ {
			start := time.Now()
			var item Tangible
			var err error
			panicked, what := verifkit.Try(func() {
				switch c.What {
				case "post":
					var p verifCardPost
					json.Unmarshal(c.F, &p)
					item, err = NewPost(verifCardPostObject(p, k, start), nil)
				case "actor":
					var a verifCardActor
					json.Unmarshal(c.F, &a)
					var id *url.URL
					if a.Id == "some" {
						id = actorId
					}
					item, err = NewActorFromObject(verifCardActorObject(a, k).(map[string]any), id)
				case "activity":
					var a verifCardActivity
					json.Unmarshal(c.F, &a)
					o := map[string]any{"type": a.Kind, "object": verifCardPostObject(a.Target, k, start)}
					if a.Actor.Kind != "absent" {
						o["actor"] = verifCardActorObject(a.Actor, k)
					}
					item, err = NewActivityFromObject(o, nil)
				}
				if err != nil {
					ev["built"] = false
					ev["what_err"] = verifkit.Clip(err.Error(), 120)
					return
				}
				ev["string"] = verifCardLines(item.String(2000))
				ev["preview"] = verifCardLines(item.Preview(2000))
			})
			ev["panic"] = panicked
			if panicked {
				ev["what_panic"] = verifkit.Clip(what, 300)
			}
			if time.Since(start) < 2*time.Second {
				break /* relative times were computed close enough to the moment the object was dated */
			}
		}
		out.Emit(ev)
	}
}
