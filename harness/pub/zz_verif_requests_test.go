//go:build verif

package pub

import (
	"servitor/jtp"
	"fmt"
	"math/rand"
	"net/url"
	"servitor/client"
	"servitor/verifkit"
	"servitor/verifsim"
	"strings"
	"sync"
	"testing"
	"time"
)

/*
	C04 driver: hostile URLs and webfinger handles reach the fetcher (a) typed by the user,
	(b) through a Location header, (c) as a reference inside a fetched document.  Every
	connection the simulator sees is logged byte for byte together with the DECODED path and
	query of the URL it must be for; T_Request.tla judges the bytes.
*/

var verifPathSegs = []string{"..", ".", "", "x/../y", "a", "b c", "x%y", "é", `"q"`, "<t>", "a;b", "p=1&q", "~u", "\r\nX-Evil: 1", "\n", "\x00", "?", "#h", "\t", "日本", "%0d%0a", " ", "HTTP/1.0", "a b HTTP/1.1\r\nHost: evil"}
var verifQueryParts = []string{"filter={host}", "{accept}", "t={target}&h={host}", "a=1", "q=a b", "x=%", "r=\r\nX-Evil: 1", "k=é", "z=?", "f=#", " ", "a b HTTP/1.1\r\n\r\nGET /second HTTP/1.0", "%0d%0a", "+", "u=https://o.example/?a=b&c=d"}

const verifHex = "0123456789ABCDEF"

/* encode decoded bytes into something url.Parse reads back as the same bytes */
func verifEncode(rng *rand.Rand, decoded string, query bool) string {
	var b strings.Builder
	/* rune by rune, so that what is typed is valid UTF-8 whenever the decoded text is */
	for _, r := range decoded {
		chunk := string(r)
		c := chunk[0]
		must := c < 0x20 || c == 0x7f || c == '%' || c == '#' || (!query && c == '?')
		may := c == ' ' || c >= 0x80 || strings.IndexByte(`"<>;&=~+`, c) >= 0
		if must || (may && rng.Intn(2) == 0) {
			for i := 0; i < len(chunk); i++ {
				b.WriteByte('%')
				b.WriteByte(verifHex[chunk[i]>>4])
				if rng.Intn(2) == 0 {
					b.WriteByte(verifHex[chunk[i]&15])
				} else {
					b.WriteString(strings.ToLower(string(verifHex[chunk[i]&15])))
				}
			}
		} else {
			b.WriteString(chunk)
		}
	}
	/* a blank at the very end would be trimmed as trailing white space of a header value */
	encoded := b.String()
	if strings.HasSuffix(encoded, " ") {
		encoded = encoded[:len(encoded)-1] + "%20"
	}
	return encoded
}

type verifURL struct {
	typed string // what is handed to servitor
	path  string // decoded
	query string // decoded
}

func verifHostileURL(rng *rand.Rand, h *verifsim.Host, tag string) verifURL {
	path := "/" + tag
	for k := rng.Intn(3); k > 0; k-- {
		path += "/" + verifPathSegs[rng.Intn(len(verifPathSegs))]
	}
	query := ""
	typed := "https://"
	if rng.Intn(6) == 0 {
		typed += []string{"user:secret@", "admin@", "a%40b:p%3Aw@"}[rng.Intn(3)]
	}
	typed += h.Addr + verifEncode(rng, path, false)
	if rng.Intn(2) == 0 {
		parts := []string{}
		for k := 1 + rng.Intn(2); k > 0; k-- {
			parts = append(parts, verifQueryParts[rng.Intn(len(verifQueryParts))])
		}
		query = strings.Join(parts, "&")
		if strings.HasSuffix(query, " ") {
			/* trailing blanks of a header value are not part of it */
			query += "&end=1"
		}
		typed += "?" + verifEncode(rng, query, true)
	}
	if rng.Intn(5) == 0 {
		typed += "#" + []string{"frag", "a b", "x%0D%0AEvil:1"}[rng.Intn(3)]
	}
	return verifURL{typed, path, query}
}

/* An address found in a Location header or in a document is a reference that is resolved against the address it was
   found under; resolution (RFC 3986 5.2) removes dot segments.  What must arrive is the resolved address - computed
   here with net/url, independently of the program.  An address that is typed is not resolved: it arrives as written. */
func verifResolved(base string, u verifURL) verifURL {
	b, err1 := url.Parse(base)
	r, err2 := url.Parse(u.typed)
	if err1 != nil || err2 != nil {
		return u
	}
	resolved := b.ResolveReference(r)
	query, err := url.PathUnescape(resolved.RawQuery)
	if err != nil {
		query = u.query
	}
	return verifURL{typed: u.typed, path: resolved.Path, query: query}
}

/* concurrent fetches (as collection preloading does): every connection must still carry
   exactly one request, for its own host */
func verifConcurrentRequests(out *verifkit.Trace, sim *verifsim.Sim, rounds int) {
	hosts := []*verifsim.Host{sim.Host("h1"), sim.Host("h2"), sim.Host("h3")}
	for round := 0; round < rounds; round++ {
		sim.Reset()
		before := sim.ConnCount()
		var wg sync.WaitGroup
		for k := 0; k < 48; k++ {
			h := hosts[k%3]
			target := fmt.Sprintf("/conc/%d/%d?item=%d&pad=%s", round, k, k, strings.Repeat("x", k%17))
			wg.Add(1)
			go func() {
				defer wg.Done()
				verifkit.Try(func() { New(h.URL(target), nil) })
			}()
		}
		wg.Wait()
		sim.Quiesce(2 * time.Second)
		out.Emit(verifkit.M{"ev": "case", "id": 100000 + round, "mode": 9, "desc": fmt.Sprintf("48 concurrent fetches, round %d", round), "conns": sim.ConnCount() - before})
		for _, ev := range sim.PlainConnEvents(before, func(*verifsim.ConnLog) string { return verifsim.AcceptActivity }) {
			out.Emit(ev)
		}
		if got := sim.ConnCount() - before; got != 48 {
			out.Emit(verifkit.M{"ev": "noconn", "conns": got - 48})
		}
	}
}

/* URLs on the default https port, with the port left out or spelt out, for an IPv4 and an IPv6 literal:
   the Host header names the authority (brackets included), with or without the default port.  Needs the
   right to bind port 443 on loopback addresses; reported as skipped otherwise. */
func verifDefaultPort(out *verifkit.Trace, sim *verifsim.Sim, rng *rand.Rand) {
	type site struct{ listen, authority string }
	for k, st := range []site{{"127.0.0.241:443", "127.0.0.241"}, {"[::1]:443", "[::1]"}} {
		h, err := sim.HostAt(fmt.Sprintf("dp%d", k), st.listen)
		if err != nil {
			out.Emit(verifkit.M{"ev": "skipped", "what": "default port on " + st.listen, "why": err.Error()})
			continue
		}
		for i, authority := range []string{st.authority, st.authority + ":443"} {
			target := fmt.Sprintf("/dp/%d/%d", k, i)
			body := fmt.Sprintf(`{"id":"https://%s%s","type":"Note","content":"x"}`, authority, target)
			h.Set(target, &verifsim.Route{Raw: []byte("HTTP/1.0 200 OK\r\nContent-Type: application/activity+json\r\n\r\n" + body)})
			before := sim.ConnCount()
			typed := "https://" + authority + target
			verifkit.Try(func() { FetchUserInput(typed) })
			sim.Quiesce(2 * time.Second)
			conns := sim.Conns()[before:]
			out.Emit(verifkit.M{"ev": "case", "id": 200000 + 10*k + i, "mode": 10, "desc": typed, "conns": len(conns)})
			for _, c := range conns {
				ev := verifsim.ConnEvent(c, authority, verifsim.AcceptActivity, target, "")
				ev["host_alt"] = verifsim.Bytes(st.authority)
				out.Emit(ev)
			}
			if len(conns) != 1 {
				out.Emit(verifkit.M{"ev": "noconn", "conns": len(conns) - 1})
			}
		}
		/* webfinger handles whose domain part is this literal with a zone that smuggles a header line: the
		   connection may be attempted (the zone is ignored when dialling) but no request may carry the line -
		   in fact none can be sent, the certificate does not name "address%zone" */
		if strings.HasPrefix(st.authority, "[") {
			for i, zone := range []string{"%lo\r\nX-Injected: yes", "%25lo%0d%0aX-Injected:%20yes", "%eth0 HTTP/1.0\r\n\r\nGET /second"} {
				handle := "alice@" + strings.TrimSuffix(st.authority, "]") + zone + "]:443"
				before := sim.ConnCount()
				verifkit.Try(func() { FetchUserInput("@" + handle) })
				sim.Quiesce(time.Second)
				conns := sim.Conns()[before:]
				out.Emit(verifkit.M{"ev": "case", "id": 220000 + i, "mode": 13, "desc": "@" + handle, "conns": len(conns)})
				for _, c := range conns {
					ev := verifsim.ConnEvent(c, st.authority+":443", verifsim.AcceptWebfinger, "/.well-known/webfinger", "resource=acct:alice@"+st.authority+":443")
					ev["noreq_ok"] = true
					out.Emit(ev)
				}
			}
		}
		/* port numbers that are no port numbers: nothing may be dialled for them - in particular not the
		   default port, which is what they are congruent to modulo 2^16 or 2^32 */
		for i, port := range []string{"4294967739", "8589935035", "65979", "65536", "18446744073709552059", "99999"} {
			typed := "https://" + st.authority + ":" + port + fmt.Sprintf("/dp/%d/0", k)
			before := sim.ConnCount()
			verifkit.Try(func() { FetchUserInput(typed) })
			sim.Quiesce(time.Second)
			conns := sim.Conns()[before:]
			out.Emit(verifkit.M{"ev": "case", "id": 210000 + 10*k + i, "mode": 12, "desc": typed, "conns": len(conns)})
			out.Emit(verifkit.M{"ev": "noconn", "conns": len(conns)})
		}
	}
}

/* several documents fetched from one server one after the other: every connection is a stranger to the
   server (nothing at the TLS layer links it to an earlier one) */
func verifRepeatVisits(out *verifkit.Trace, sim *verifsim.Sim) {
	h := sim.Host("h3")
	sim.Reset()
	before := sim.ConnCount()
	for i := 0; i < 6; i++ {
		target := fmt.Sprintf("/visit/%d", i)
		body := fmt.Sprintf(`{"id":"https://%s%s","type":"Note","content":"x"}`, h.Addr, target)
		h.Set(target, &verifsim.Route{Raw: []byte("HTTP/1.0 200 OK\r\nContent-Type: application/activity+json\r\n\r\n" + body)})
		verifkit.Try(func() { FetchUserInput(h.URL(target)) })
		time.Sleep(20 * time.Millisecond)
	}
	sim.Quiesce(2 * time.Second)
	out.Emit(verifkit.M{"ev": "case", "id": 300000, "mode": 11, "desc": "six documents from one server, one after the other", "conns": sim.ConnCount() - before})
	for _, ev := range sim.PlainConnEvents(before, func(*verifsim.ConnLog) string { return verifsim.AcceptActivity }) {
		out.Emit(ev)
	}
}

func TestVerifRequests(t *testing.T) {
	var in struct {
		Random int `json:"random"`
		Rounds int `json:"rounds"`
	}
	verifkit.In(&in)
	out := verifkit.Out()
	defer out.Close()
	sim := verifsim.Get()
	defer sim.Cleanup()
	rng := verifkit.Rand()
	h1, h2 := sim.Host("h1"), sim.Host("h2")
	h1p := sim.HostLike("h1_p", "h1")
	defer verifConcurrentRequests(out, sim, in.Rounds)
	defer verifDefaultPort(out, sim, rng)
	defer verifRepeatVisits(out, sim)
	defer verifFailedWrite(out, sim)
	note := func(h *verifsim.Host, path string, extra string) *verifsim.Route {
		body := fmt.Sprintf(`{"id":"https://%s%s","type":"Note","content":"x","published":"2024-01-01T00:00:00Z"%s}`, h.Addr, path, extra)
		return &verifsim.Route{Raw: []byte("HTTP/1.0 200 OK\r\nContent-Type: application/activity+json\r\n\r\n" + body)}
	}
	for i := 0; i < in.Random; i++ {
		sim.Reset()
		tag := fmt.Sprintf("t%d", i)
		before := sim.ConnCount()
		expect := []verifURL{}
		hosts := []*verifsim.Host{}
		mode := rng.Intn(8)
		desc := ""
		accept := verifsim.AcceptActivity
		noconn := false
		switch mode {
		case 0: /* typed */
			u := verifHostileURL(rng, h1, tag)
			desc = u.typed
			expect, hosts = append(expect, u), append(hosts, h1)
			verifkit.Try(func() { FetchUserInput(u.typed) })
		case 1: /* Location header */
			if rng.Intn(3) == 0 {
				/* a Location that is relative to the address that issued it: path-relative, query-only, up a level */
				from := "/dir/sub/r" + tag
				forms := []struct{ loc, path, query string }{
					{"next" + tag + "?page=2", "/dir/sub/next" + tag, "page=2"}, {"?page=" + tag, from, "page=" + tag},
					{"../up" + tag, "/dir/up" + tag, ""}, {"./here" + tag + "?a=b c", "/dir/sub/here" + tag, "a=b c"}, {"/abs" + tag, "/abs" + tag, ""}}
				f := forms[rng.Intn(len(forms))]
				desc = "Location: " + f.loc + " (issued by " + from + ")"
				h1.Set(from, &verifsim.Route{Raw: []byte("HTTP/1.1 302 Found\r\nLocation: " + strings.ReplaceAll(f.loc, " ", "%20") + "\r\n\r\n")})
				expect = append(expect, verifURL{path: from}, verifURL{path: f.path, query: f.query})
				hosts = append(hosts, h1, h1)
				verifkit.Try(func() { FetchUserInput(h1.URL(from)) })
				break
			}
			u := verifHostileURL(rng, h2, tag)
			desc = "Location: " + u.typed
			h1.Set("/r"+tag, &verifsim.Route{Raw: []byte("HTTP/1.1 302 Found\r\nLocation: " + u.typed + "\r\n\r\n")})
			expect = append(expect, verifURL{path: "/r" + tag}, verifResolved(h1.URL("/r"+tag), u))
			hosts = append(hosts, h1, h2)
			verifkit.Try(func() { FetchUserInput(h1.URL("/r" + tag)) })
		case 2: /* reference inside a document */
			u := verifHostileURL(rng, h2, tag)
			desc = "inReplyTo: " + u.typed
			quoted := strings.NewReplacer(`\`, `\\`, `"`, `\"`).Replace(u.typed)
			h1.Set("/d"+tag, note(h1, "/d"+tag, `,"inReplyTo":"`+quoted+`"`))
			expect = append(expect, verifURL{path: "/d" + tag}, verifResolved(h1.URL("/d"+tag), u))
			hosts = append(hosts, h1, h2)
			verifkit.Try(func() { FetchUserInput(h1.URL("/d" + tag)) })
		case 7: /* the identifier of an object embedded in (or reduced to a stub by) a document of another host: it is fetched from there */
			u := verifHostileURL(rng, h2, tag)
			quoted := strings.NewReplacer(`\`, `\\`, `"`, `\"`).Replace(u.typed)
			inner := `{"id":"` + quoted + `","type":"Note","content":"embedded","published":"2024-01-01T00:00:00Z"}`
			key := "inReplyTo"
			switch rng.Intn(3) {
			case 1:
				inner = `{"id":"` + quoted + `"}`
			case 2:
				inner = `{"id":"` + quoted + `","type":"Person","name":"n"}`
				key = "attributedTo"
			}
			desc = key + ": " + inner
			h1.Set("/e"+tag, note(h1, "/e"+tag, `,"`+key+`":`+inner))
			/* an identifier is an address of its own, not a reference resolved against the document: it arrives as written */
			expect = append(expect, verifURL{path: "/e" + tag}, u)
			hosts = append(hosts, h1, h2)
			verifkit.Try(func() { FetchUserInput(h1.URL("/e" + tag)) })
		case 3: /* webfinger handle */
			account := []string{"alice", "a b", "a&resource=evil", "a\r\nX-Evil: 1", "é", "a%0d%0ab", "a#b", "a?b=c"}[rng.Intn(8)]
			handle := "@" + account + "@" + h1.Addr
			desc = handle
			accept = verifsim.AcceptWebfinger
			/* url.Values form-encodes: a space travels as '+' */
			expect = append(expect, verifURL{path: "/.well-known/webfinger", query: "resource=acct:" + strings.ReplaceAll(account, " ", "+") + "@" + h1.Addr})
			hosts = append(hosts, h1)
			verifkit.Try(func() { FetchUserInput(handle) })
		case 4: /* URLs that must never be dialled */
			target := []string{"http://" + h1.Addr + "/plain" + tag, "ftp://" + h1.Addr + "/x", "gopher://" + h1.Addr + "/", "HTTP://" + h1.Addr + "/upper", "//" + h1.Addr + "/noscheme"}[rng.Intn(5)]
			desc = target
			noconn = true
			/* a scheme-relative Location inherits https from its issuer and may be followed */
			if rng.Intn(2) == 0 || strings.HasPrefix(target, "//") {
				verifkit.Try(func() { FetchUserInput(target) })
			} else {
				h2.Set("/r"+tag, &verifsim.Route{Raw: []byte("HTTP/1.1 301 Moved\r\nLocation: " + target + "\r\n\r\n")})
				desc = "Location: " + target
				verifkit.Try(func() { client.FetchUnknown(h2.URL("/r"+tag), nil) })
				expect, hosts, noconn = append(expect, verifURL{path: "/r" + tag}), append(hosts, h2), false
			}
		case 6: /* two services on one host name (same address, different ports), one after the other */
			first, second := verifHostileURL(rng, h1, tag+"a"), verifHostileURL(rng, h1p, tag+"b")
			if rng.Intn(2) == 0 {
				first, second = verifHostileURL(rng, h1p, tag+"a"), verifHostileURL(rng, h1, tag+"b")
				hosts = append(hosts, h1p, h1)
			} else {
				hosts = append(hosts, h1, h1p)
			}
			desc = first.typed + " then " + second.typed
			expect = append(expect, first, second)
			verifkit.Try(func() { FetchUserInput(first.typed) })
			sim.Quiesce(time.Second)
			verifkit.Try(func() { FetchUserInput(second.typed) })
		case 5: /* webfinger handle with a hostile domain part */
			domain := []string{h1.Addr + "/evil?x=", h1.Addr + "\r\nX-Evil: 1", "user@" + h1.Addr, h1.Addr + " ", h1.Addr + "#f"}[rng.Intn(5)]
			desc = "@a@" + domain
			accept = verifsim.AcceptWebfinger
			noconn = true
			verifkit.Try(func() { FetchUserInput("@a@" + domain) })
		}
		sim.Quiesce(2 * time.Second)
		conns := sim.Conns()[before:]
		out.Emit(verifkit.M{"ev": "case", "id": i, "mode": mode, "desc": verifkit.Clip(desc, 200), "conns": len(conns)})
		if noconn {
			out.Emit(verifkit.M{"ev": "noconn", "conns": len(conns)})
		}
		for k, c := range conns {
			if k < len(expect) {
				out.Emit(verifsim.ConnEvent(c, hosts[k].Addr, accept, expect[k].path, expect[k].query))
				if c.Host != hosts[k].Name {
					/* the request went to another host or port than the one its URL names */
					out.Emit(verifkit.M{"ev": "noconn", "conns": 1})
				}
			} else {
				/* more connections than the case can explain */
				out.Emit(verifkit.M{"ev": "noconn", "conns": len(conns) - len(expect)})
				break
			}
		}
	}
}

/* a request that cannot be written (the peer shakes hands and never reads, the address is a megabyte long) fails; the
   request after it, to another host, is the one request for its own address and nothing else */
func verifFailedWrite(out *verifkit.Trace, sim *verifsim.Sim) {
	for round := 0; round < 3; round++ {
		sim.Reset()
		deaf, h2 := sim.Host("deaf"), sim.Host("h2")
		deaf.Set("*handshake*", &verifsim.Route{Fault: "noread", Delay: 3 * time.Second})
		after := fmt.Sprintf("/after%d", round)
		h2.Set(after, &verifsim.Route{Raw: []byte("HTTP/1.0 200 OK\r\nContent-Type: application/activity+json\r\n\r\n" +
			fmt.Sprintf(`{"id":"https://%s%s","type":"Note","content":"x"}`, h2.Addr, after))})
		jtp.VerifSetTimeout(400 * time.Millisecond)
		jtp.VerifSmallSendBuffer(true)
		verifkit.Try(func() { FetchUserInput(deaf.URL("/big?pad=" + strings.Repeat("a", 1<<20))) })
		jtp.VerifSmallSendBuffer(false)
		jtp.VerifSetTimeout(3 * time.Second)
		before := sim.ConnCount()
		verifkit.Try(func() { FetchUserInput(h2.URL(after)) })
		sim.Quiesce(2 * time.Second)
		conns := sim.Conns()[before:]
		out.Emit(verifkit.M{"ev": "case", "id": 400000 + round, "mode": 14, "desc": "a fetch after a request that could not be written", "conns": len(conns)})
		for _, c := range conns {
			out.Emit(verifsim.ConnEvent(c, h2.Addr, verifsim.AcceptActivity, after, ""))
		}
	}
	jtp.VerifSetTimeout(3 * time.Second)
}
