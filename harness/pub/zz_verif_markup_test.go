//go:build verif

package pub

import (
	"servitor/hypertext"
	"servitor/markdown"
	"servitor/plaintext"
	"servitor/gemtext"
	"sync"
	"crypto/sha1"
	"encoding/hex"
	"fmt"
	"math/rand"
	"regexp"
	"servitor/object"
	"servitor/verifkit"
	"strings"
	"testing"
)

/*
	C12 / C15 driver.  Document trees (from TLC: MC_Markup, and seeded random larger ones) are
	serialised to HTML, Markdown, gemtext and plain text where expressible, with unique tokens
	(L1, L2, ..) as link texts and unique targets.  A post is built around each; its full
	rendering is read back into marks (tokens and superscript numbers in reading order) and
	SelectLink is probed for -1..N+2 (C12).  The body markup is rendered along width sequences
	and compared with a fresh object (C15).  T_Markup.tla / T_Term.tla judge.
*/

type verifNode struct {
	T    string      `json:"t"`
	Kids []verifNode `json:"kids"`
}

type verifMark struct {
	T      string `json:"t"`
	Id     string `json:"id,omitempty"`
	N      int    `json:"n,omitempty"`
	Target string `json:"target,omitempty"`
}

type verifReal struct {
	markup string
	media  string
	text   string
	expect []verifMark
}

type verifCounter struct {
	tok, link int
	doc       int
}

func (c *verifCounter) token() string { c.tok++; return fmt.Sprintf("L%d", c.tok) }

/* targets are unique across documents, so that links leaking from one post into another show */
func (c *verifCounter) target() string {
	c.link++
	if (c.link+c.doc)%4 == 0 {
		/* a query whose parameters are named like character references: decoded once by the parser of the markup, never again */
		return fmt.Sprintf("https://t.example/d%d/%d%s", c.doc, c.link, verifOddQuery)
	}
	return fmt.Sprintf("https://t.example/d%d/%d", c.doc, c.link)
}

const verifOddQuery = "?pages=3&copy=2&reg=eu&lt=1"

/* expected marks: reading order; a link-bearing node's number follows its own text */
func verifExpect(nodes []verifNode, c *verifCounter, plain bool) []verifMark {
	out := []verifMark{}
	for _, n := range nodes {
		switch n.T {
		case "txt":
			out = append(out, verifMark{T: "tok", Id: c.token()})
		case "img":
			t := c.target()
			id := c.token()
			if plain {
				id = t
			}
			out = append(out, verifMark{T: "tok", Id: id}, verifMark{T: "lab", Target: t})
		case "a":
			t := c.target()
			out = append(out, verifExpect(n.Kids, c, plain)...)
			out = append(out, verifMark{T: "lab", Target: t})
		case "imgx": /* media without a source: its text, no number */
			out = append(out, verifMark{T: "tok", Id: c.token()})
		case "hr", "br", "long", "wide", "cmt":
		default:
			out = append(out, verifExpect(n.Kids, c, plain)...)
		}
	}
	return out
}

func verifHTML(rng *rand.Rand, nodes []verifNode, c *verifCounter, inA bool, inH bool) (string, bool) {
	var b strings.Builder
	for _, n := range nodes {
		switch n.T {
		case "txt":
			b.WriteString(c.token() + " ")
		case "img":
			t, id := c.target(), c.token()
			t = strings.ReplaceAll(t, "&", "&amp;")
			switch rng.Intn(4) {
			case 0:
				b.WriteString(fmt.Sprintf(`<img src="%s" alt="%s">`, t, id))
			case 1:
				b.WriteString(fmt.Sprintf(`<video src="%s" alt="%s"></video>`, t, id))
			case 2:
				b.WriteString(fmt.Sprintf(`<audio alt="%s" src="%s"></audio>`, id, t))
			default:
				b.WriteString(fmt.Sprintf(`<iframe src="%s" title="%s"></iframe>`, t, id))
			}
		case "imgx":
			switch id := c.token(); rng.Intn(3) {
			case 0:
				b.WriteString(fmt.Sprintf(`<img alt="%s">`, id))
			case 1:
				b.WriteString(fmt.Sprintf(`<video alt="%s"></video>`, id))
			default:
				b.WriteString(fmt.Sprintf(`<audio alt="%s"></audio>`, id))
			}
		case "hr":
			b.WriteString("<hr>")
		case "cmt":
			/* something that renders as nothing: a comment, a processing instruction */
			b.WriteString([]string{"<!-- more -->", "<!---->", "<?php echo 1 ?>", "<!-- a\nb -->"}[rng.Intn(4)])
		case "br":
			b.WriteString("<br>")
		case "long":
			b.WriteString(verifLongWord(c, 20+rng.Intn(120)) + " ")
		case "wide":
			/* nothing but white space, wider than a line, between explicit line breaks */
			n := 40 + rng.Intn(120)
			switch rng.Intn(3) {
			case 0:
				b.WriteString("<br><code>" + strings.Repeat(" ", n) + "</code><br>")
			case 1:
				b.WriteString("<br>" + strings.Repeat("&nbsp;", n) + "<br>")
			default:
				b.WriteString("<br>" + strings.Repeat("&nbsp; ", n/2) + "<br>")
			}
		case "ax":
			if inA {
				return "", false
			}
			kids, ok := verifHTML(rng, n.Kids, c, true, inH)
			if !ok {
				return "", false
			}
			b.WriteString("<a>" + kids + "</a>")
		case "pre":
			kids, ok := verifHTML(rng, n.Kids, c, inA, inH)
			if !ok {
				return "", false
			}
			/* preformatted text may begin with empty lines (the parser drops the first line break only) */
			lead := strings.Repeat("\n", rng.Intn(5))
			if rng.Intn(2) == 0 {
				b.WriteString("<pre>" + lead + kids + "</pre>")
			} else {
				b.WriteString("<pre><code>" + lead + kids + "</code></pre>")
			}
		case "unk":
			kids, ok := verifHTML(rng, n.Kids, c, inA, inH)
			if !ok {
				return "", false
			}
			tag := []string{"font", "center", "marquee", "x-custom", "small"}[rng.Intn(5)]
			b.WriteString("<" + tag + ">" + kids + "</" + tag + ">")
		case "a":
			if inA {
				return "", false /* anchors cannot nest in HTML */
			}
			t := c.target()
			kids, ok := verifHTML(rng, n.Kids, c, true, inH)
			if !ok {
				return "", false
			}
			b.WriteString(fmt.Sprintf(`<a href="%s">%s</a>`, strings.ReplaceAll(t, "&", "&amp;"), kids))
		case "sty":
			tag := []string{"b", "i", "em", "strong", "s", "u", "code", "mark", "span", "del", "ins"}[rng.Intn(11)]
			kids, ok := verifHTML(rng, n.Kids, c, inA, inH)
			if !ok {
				return "", false
			}
			b.WriteString("<" + tag + ">" + kids + "</" + tag + ">")
		case "blk":
			choice := rng.Intn(5)
			if inH && choice >= 3 {
				choice = 0 /* headings cannot nest */
			}
			heading := inH || choice >= 3
			kids, ok := verifHTML(rng, n.Kids, c, inA, heading)
			if !ok {
				return "", false
			}
			switch choice {
			case 0:
				b.WriteString("<blockquote>" + kids + "</blockquote>")
			case 1:
				b.WriteString("<ul><li>" + kids + "</li></ul>")
			case 2:
				b.WriteString("<div>" + kids + "</div>")
			default:
				h := fmt.Sprintf("h%d", 1+rng.Intn(6))
				b.WriteString("<" + h + ">" + kids + "</" + h + ">")
			}
		}
	}
	return b.String(), true
}

func verifMarkdown(nodes []verifNode, c *verifCounter, inA bool, inline bool, quote string) (string, bool) {
	var b strings.Builder
	for _, n := range nodes {
		switch n.T {
		case "txt":
			b.WriteString(c.token() + " ")
		case "img":
			t, id := c.target(), c.token()
			b.WriteString(fmt.Sprintf("![%s](%s) ", id, t))
		case "long":
			b.WriteString(verifLongWord(c, 100) + " ")
		case "wide":
			if inline {
				return "", false
			}
			b.WriteString("x  \n" + quote + strings.Repeat("&nbsp;", 130) + "  \n" + quote)
		case "hr":
			if inline {
				return "", false
			}
			b.WriteString("\n\n" + quote + "---\n\n" + quote)
		case "cmt":
			if inline {
				return "", false
			}
			b.WriteString("\n\n" + quote + "<!-- more -->\n\n" + quote)
		case "imgx", "br", "ax", "pre", "unk":
			return "", false
		case "a":
			if inA {
				return "", false
			}
			t := c.target()
			kids, ok := verifMarkdown(n.Kids, c, true, true, quote)
			if !ok {
				return "", false
			}
			b.WriteString(fmt.Sprintf("[%s](%s) ", strings.TrimSpace(kids), t))
		case "sty":
			kids, ok := verifMarkdown(n.Kids, c, inA, true, quote)
			if !ok {
				return "", false
			}
			b.WriteString("**" + strings.TrimSpace(kids) + "** ")
		case "blk":
			if inline {
				return "", false /* no block inside inline markup */
			}
			kids, ok := verifMarkdown(n.Kids, c, inA, false, quote+"> ")
			if !ok {
				return "", false
			}
			b.WriteString("\n\n" + quote + "> " + strings.TrimSpace(kids) + "\n\n" + quote)
		}
	}
	return b.String(), true
}

func verifFlatTokens(nodes []verifNode, c *verifCounter) (string, bool) {
	words := []string{}
	for _, n := range nodes {
		if n.T != "txt" {
			return "", false
		}
		words = append(words, c.token())
	}
	return strings.Join(words, " "), true
}

func verifGemtext(nodes []verifNode, c *verifCounter) (string, bool) {
	lines := []string{}
	for _, n := range nodes {
		switch n.T {
		case "txt":
			lines = append(lines, c.token())
		case "img":
			t, id := c.target(), c.token()
			lines = append(lines, "=> "+t+" "+id)
		case "a":
			t := c.target()
			alt, ok := verifFlatTokens(n.Kids, c)
			if !ok {
				return "", false
			}
			lines = append(lines, "=>"+t+"\t"+alt)
		case "blk":
			text, ok := verifFlatTokens(n.Kids, c)
			if !ok {
				return "", false
			}
			lines = append(lines, []string{"> ", "* ", "# ", "## ", "### ", ">"}[len(lines)%6]+text)
		case "long":
			lines = append(lines, verifLongWord(c, 130))
		case "wide":
			lines = append(lines, strings.Repeat(" ", 120), "```", strings.Repeat(" ", 110), "```")
		case "pre":
			text, ok := verifFlatTokens(n.Kids, c)
			if !ok {
				return "", false
			}
			/* a line that looks like a link, quoted inside the block: shown as it is, no link, no number */
			lines = append(lines, "```", "=> https://decoy.example/quoted quoted", text+" "+strings.Repeat("=", 90), "=>https://decoy.example/second", "```")
		case "hr":
			/* a preformatted block whose closing fence is missing */
			if len(lines) > 0 && len(nodes) > 0 && &n == &nodes[len(nodes)-1] {
				return "", false
			}
			lines = append(lines, strings.Repeat("-", 100))
		default:
			return "", false
		}
	}
	if len(nodes) > 0 && nodes[len(nodes)-1].T == "long" {
		/* end inside an unterminated preformatted block */
		lines = append(lines[:len(lines)-1], "```", strings.Repeat("x", 140))
	}
	return strings.Join(lines, "\n"), true
}

func verifPlain(nodes []verifNode, c *verifCounter) (string, bool) {
	words := []string{}
	for _, n := range nodes {
		switch n.T {
		case "txt":
			words = append(words, c.token())
		case "img":
			t := c.target()
			c.token()
			/* addresses as they stand in running text: in brackets, at the end of a sentence, before a comma; what is
			   underlined and numbered is the label, and that is what the number has to open */
			words = append(words, t+[]string{"", "_(x)", ".", ",", "?", ";p=1)", "!", ":", "/a_(b)_c"}[c.link%9])
		case "long":
			words = append(words, verifLongWord(c, 150))
		case "br":
			words = append(words, "\n        ")
		case "wide":
			words = append(words, "\n"+strings.Repeat(" ", 140)+"\n")
		default:
			return "", false
		}
	}
	return strings.Join(words, " "), true
}

/* all realisations of a document that its markup can express */
func verifRealise(rng *rand.Rand, doc []verifNode, di int) []verifReal {
	out := []verifReal{}
	if text, ok := verifHTML(rng, doc, &verifCounter{doc: di}, false, false); ok {
		out = append(out, verifReal{"html", "text/html", text, verifExpect(doc, &verifCounter{doc: di}, false)})
	}
	if text, ok := verifMarkdown(doc, &verifCounter{doc: di}, false, false, ""); ok {
		out = append(out, verifReal{"markdown", "text/markdown", text, verifExpect(doc, &verifCounter{doc: di}, false)})
	}
	if text, ok := verifGemtext(doc, &verifCounter{doc: di}); ok {
		out = append(out, verifReal{"gemtext", "text/gemini", text, verifExpect(doc, &verifCounter{doc: di}, false)})
	}
	if text, ok := verifPlain(doc, &verifCounter{doc: di}); ok {
		out = append(out, verifReal{"plain", "text/plain", text, verifExpect(doc, &verifCounter{doc: di}, true)})
	}
	return out
}

var verifSGR = regexp.MustCompile("\x1b\\[[0-9;]*m")
var verifMarkRe = regexp.MustCompile(`https://t\.example/d[0-9]+/[0-9]+(?:\?pages=3&copy=2&reg=eu&lt=1)?|[LA][0-9]+|[⁰¹²³⁴⁵⁶⁷⁸⁹]+`)

func verifReadMarks(rendered string) []verifMark {
	plain := verifSGR.ReplaceAllString(rendered, "")
	marks := []verifMark{}
	for _, m := range verifMarkRe.FindAllString(plain, -1) {
		r := []rune(m)
		if strings.ContainsRune("⁰¹²³⁴⁵⁶⁷⁸⁹", r[0]) {
			n := 0
			for _, d := range r {
				n = n*10 + strings.Index("⁰¹²³⁴⁵⁶⁷⁸⁹", string(d))/len("⁰")
				_ = d
			}
			marks = append(marks, verifMark{T: "lab", N: verifSuper(m)})
			_ = n
		} else {
			marks = append(marks, verifMark{T: "tok", Id: m})
		}
	}
	return marks
}

/* Numbers of nested link-bearing nodes can stand next to each other ("²⁴" = 2 then 4): when fewer marks were read than
   the document has, runs of two superscript digits are taken apart until the count fits. */
func verifSplitLabs(marks []verifMark, want int) []verifMark {
	for len(marks) < want {
		split := -1
		for i, m := range marks {
			if m.T == "lab" && m.N >= 10 && m.N%10 != 0 {
				split = i
				break
			}
		}
		if split < 0 {
			break
		}
		n := marks[split].N
		rest := append([]verifMark{{T: "lab", N: n / 10}, {T: "lab", N: n % 10}}, marks[split+1:]...)
		marks = append(marks[:split:split], rest...)
	}
	return marks
}

func verifSuper(s string) int {
	digits := []rune("⁰¹²³⁴⁵⁶⁷⁸⁹")
	n := 0
	for _, r := range s {
		for d, x := range digits {
			if x == r {
				n = n*10 + d
			}
		}
	}
	return n
}

func verifDigest(s string) string {
	sum := sha1.Sum([]byte(s))
	return hex.EncodeToString(sum[:8])
}

func verifRandomDoc(rng *rand.Rand, depth int) []verifNode {
	n := 1 + rng.Intn(4)
	out := make([]verifNode, n)
	for i := range out {
		kind := []string{"txt", "txt", "img", "a", "sty", "blk", "imgx", "hr", "br", "long", "ax", "pre", "unk", "img", "a", "wide", "cmt", "cmt"}[rng.Intn(18)]
		inner := kind == "a" || kind == "sty" || kind == "blk" || kind == "ax" || kind == "pre" || kind == "unk"
		if depth == 0 && inner {
			kind, inner = "txt", false
		}
		out[i] = verifNode{T: kind}
		if inner {
			out[i].Kids = verifRandomDoc(rng, depth-1)
		}
	}
	return out
}

func verifPostObject(r verifReal, attachments int) (object.Object, []verifMark) {
	o := object.Object{"type": "Note", "content": r.text, "mediaType": r.media, "published": "2024-01-02T03:04:05Z"}
	expect := append([]verifMark{}, r.expect...)
	if attachments > 0 && (len(r.text)+attachments)%7 == 3 {
		/* a list that is malformed at a later entry cannot be loaded: none of it is numbered, none of it opens */
		t := fmt.Sprintf("https://t.example/att%d-hidden", len(r.text))
		o["attachment"] = []any{map[string]any{"type": "Document", "url": t, "name": "A1"}, "not an attachment", map[string]any{"type": "Emoji", "name": ":x:"}}
		return o, expect
	}
	if attachments > 0 {
		list := []any{}
		for i := 0; i < attachments; i++ {
			t := fmt.Sprintf("https://t.example/att%d-%d", len(r.text), i+1)
			name := fmt.Sprintf("A%d", i+1)
			switch variant := (len(r.text) + i*7) % 6; {
			case variant == 5:
				/* an attachment whose description cannot be read (a number where a string belongs) but whose
				   address can: shown as an error, still counted - it carries its number, without a token */
				list = append(list, map[string]any{"type": "Document", "url": t, "name": 5 + i})
				expect = append(expect, verifMark{T: "lab", Target: t})
				continue
			case variant%2 == 0:
				list = append(list, map[string]any{"type": "Link", "href": t, "name": name, "mediaType": "image/png"})
			default:
				list = append(list, map[string]any{"type": "Document", "url": t, "name": name})
			}
			expect = append(expect, verifMark{T: "tok", Id: name}, verifMark{T: "lab", Target: t})
		}
		o["attachment"] = list
	}
	return o, expect
}

/*
	Narrow terminals: media and frames inside nested blocks, followed by further links, rendered at widths
	where the inner blocks have no room left.  The link list is collected once (at width 80); the numbers
	shown at every other width must still be 1..N in order and open their own targets.
*/
func verifNarrow(out *verifkit.Trace, rng *rand.Rand, count int) {
	for c := 0; c < count; c++ {
		depth := rng.Intn(13)
		open, close := "", ""
		for d := 0; d < depth; d++ {
			switch rng.Intn(3) {
			case 0:
				open, close = open+"<blockquote>", "</blockquote>"+close
			case 1:
				open, close = open+"<ul><li>", "</li></ul>"+close
			default:
				open, close = open+"<div>", "</div>"+close
			}
		}
		target := func(k int) string { return fmt.Sprintf("https://t.example/d9%03d/%d", c, k) }
		if c%4 == 3 {
			/* a list with a child that is no item: it is shown as it stands and the link in its place is no link -
			   at every width, also where the list has no room for its bullets */
			stray := []string{fmt.Sprintf(`<a href="%s">L1</a>`, target(9)), fmt.Sprintf(`<b><a href="%s">L1</a></b>`, target(9)), fmt.Sprintf(`<p><a href="%s">L1</a></p>`, target(9))}[rng.Intn(3)]
			doc := open + `<ul><li>L0</li>` + stray + `</ul>` + close + fmt.Sprintf(`<p><a href="%s">L2</a> <img src="%s" alt="L3"></p>`, target(2), target(3))
			expect := []verifMark{{T: "tok", Id: "L0"}, {T: "tok", Id: "L1"}, {T: "tok", Id: "L2"}, {T: "lab", Target: target(2)}, {T: "tok", Id: "L3"}, {T: "lab", Target: target(3)}}
			if !strings.HasPrefix(stray, `<a `) {
				/* inside an element that is no item the link is a link like any other */
				expect = []verifMark{{T: "tok", Id: "L0"}, {T: "tok", Id: "L1"}, {T: "lab", Target: target(9)}, {T: "tok", Id: "L2"}, {T: "lab", Target: target(2)}, {T: "tok", Id: "L3"}, {T: "lab", Target: target(3)}}
			}
			o, expect := verifPostObject(verifReal{markup: "html", media: "text/html", text: doc, expect: expect}, 0)
			post, err := NewPostFromObject(o, nil)
			if err != nil {
				continue
			}
			labs := 0
			for _, m := range expect {
				if m.T == "lab" {
					labs++
				}
			}
			sel := []string{}
			for k := -1; k <= labs+2; k++ {
				link := "panic"
				verifkit.Try(func() {
					t, _, present := post.SelectLink(k)
					link = t
					if !present {
						link = "none"
					}
				})
				sel = append(sel, link)
			}
			for _, w := range []int{5, 6, 7, 8, 9, 10, 12, 16, 30, 80} {
				var rendered string
				p2, what2 := verifkit.Try(func() { rendered = post.String(w) })
				marks, wanted := []verifMark{}, []verifMark{}
				for _, m := range verifReadMarks(rendered) {
					if m.T == "lab" {
						marks = append(marks, m)
					}
				}
				for _, m := range expect {
					if m.T == "lab" {
						wanted = append(wanted, m)
					}
				}
				ev := verifkit.M{"ev": "links", "markup": "html", "w": w, "marks": marks, "expect": wanted, "sel": sel, "doc": verifkit.Clip(doc, 300), "panic": p2, "narrow": true}
				if p2 {
					ev["what"] = what2
				}
				out.Emit(ev)
			}
			continue
		}
		inner := []string{
			fmt.Sprintf(`<iframe src="%s" title="L1"></iframe>`, target(1)),
			fmt.Sprintf(`<img src="%s" alt="L1">`, target(1)),
			fmt.Sprintf(`<video src="%s" alt="L1"></video>`, target(1)),
			fmt.Sprintf(`<a href="%s">L1</a>`, target(1)),
			fmt.Sprintf(`<audio src="%s" alt="L1"></audio>`, target(1))}[rng.Intn(5)]
		doc := open + inner + close + fmt.Sprintf(`<p><a href="%s">L2</a> <img src="%s" alt="L3"></p>`, target(2), target(3))
		expect := []verifMark{{T: "tok", Id: "L1"}, {T: "lab", Target: target(1)}, {T: "tok", Id: "L2"}, {T: "lab", Target: target(2)}, {T: "tok", Id: "L3"}, {T: "lab", Target: target(3)}}
		o, expect := verifPostObject(verifReal{markup: "html", media: "text/html", text: doc, expect: expect}, rng.Intn(3))
		post, err := NewPostFromObject(o, nil)
		if err != nil {
			continue
		}
		n := 0
		for _, m := range expect {
			if m.T == "lab" {
				n++
			}
		}
		sel := []string{}
		for k := -1; k <= n+2; k++ {
			link := "panic"
			verifkit.Try(func() {
				target, _, present := post.SelectLink(k)
				link = target
				if !present {
					link = "none"
				}
			})
			sel = append(sel, link)
		}
		for _, w := range []int{6 + rng.Intn(6), 12 + rng.Intn(10), 22 + rng.Intn(20), 80} {
			var rendered string
			p2, what2 := verifkit.Try(func() { rendered = post.String(w) })
			/* a token may be cut in two where there is no room; the (one-character) numbers cannot: judge those */
			marks, wanted := []verifMark{}, []verifMark{}
			for _, m := range verifReadMarks(rendered) {
				if m.T == "lab" {
					marks = append(marks, m)
				}
			}
			for _, m := range expect {
				if m.T == "lab" {
					wanted = append(wanted, m)
				}
			}
			if w == 80 {
				marks, wanted = verifReadMarks(rendered), expect
			}
			ev := verifkit.M{"ev": "links", "markup": "html", "w": w, "marks": marks, "expect": wanted,
				"sel": sel, "doc": verifkit.Clip(doc, 300), "panic": p2, "narrow": true}
			if p2 {
				ev["what"] = what2
			}
			out.Emit(ev)
		}
	}
}

/* documents rendered from several goroutines at once (loaders build new posts while the screen is drawn): each
   rendering equals the one made alone */
func verifConcurrentRenders(out *verifkit.Trace, rng *rand.Rand, reals []verifReal, obj *int) {
	if len(reals) < 8 {
		return
	}
	for round := 0; round < 1+len(reals)/200; round++ {
		type job struct {
			real   verifReal
			w      int
			markup interface{ Render(int) string }
			alone  string
			got    string
		}
		jobs := []*job{}
		for k := 0; k < 8; k++ {
			real := reals[rng.Intn(len(reals))]
			o := object.Object{"type": "Note", "content": real.text, "mediaType": real.media}
			m, _, err := o.GetMarkup("content", "mediaType")
			if err != nil {
				continue
			}
			w := 20 + rng.Intn(70)
			jobs = append(jobs, &job{real: real, w: w, markup: m, alone: m.Render(w)})
		}
		var wg sync.WaitGroup
		for _, j := range jobs {
			j := j
			wg.Add(1)
			go func() {
				defer wg.Done()
				verifkit.Try(func() {
					for n := 0; n < 60; n++ {
						/* a fresh object each time, so that the rendering is really computed */
						o := object.Object{"type": "Note", "content": j.real.text, "mediaType": j.real.media}
						m, _, err := o.GetMarkup("content", "mediaType")
						if err != nil {
							return
						}
						if j.got = m.Render(j.w); j.got != j.alone {
							break
						}
					}
				})
			}()
		}
		wg.Wait()
		for _, j := range jobs {
			*obj++
			out.Emit(verifkit.M{"ev": "robj", "obj": *obj, "markup": j.real.markup})
			out.Emit(verifkit.M{"ev": "render", "obj": *obj, "markup": j.real.markup, "w": j.w, "digest": verifDigest(j.got), "fresh": verifDigest(j.alone), "panic": false,
				"doc": verifkit.Clip(j.real.text, 200), "concurrent": true})
		}
	}
}

func TestVerifMarkup(t *testing.T) {
	var in struct {
		Docs   [][]verifNode `json:"docs"`
		Widths [][]int       `json:"widths"`
		Random int           `json:"random"`
	}
	verifkit.In(&in)
	out := verifkit.Out()
	defer out.Close()
	rng := verifkit.Rand()
	defer verifNarrow(out, rng, in.Random)
	defer verifDirectRenders(out)
	docs := in.Docs
	/* quoted (preformatted) material between links - in every markup that can say it */
	tx := func() verifNode { return verifNode{T: "txt"} }
	lk := func() verifNode { return verifNode{T: "a", Kids: []verifNode{tx()}} }
	pre := func() verifNode { return verifNode{T: "pre", Kids: []verifNode{tx()}} }
	docs = append(docs, []verifNode{tx(), pre(), {T: "img"}, lk()}, []verifNode{pre(), lk(), pre(), {T: "img"}, tx()}, []verifNode{lk(), pre(), lk()},
		[]verifNode{{T: "img"}, pre(), pre(), {T: "img"}, lk(), tx()}, []verifNode{pre(), {T: "img"}})
	/* styled stretches that end in white space of their own, with unstyled text after them */
	sty := func(kids ...verifNode) verifNode { return verifNode{T: "sty", Kids: kids} }
	for k := 0; k < 4; k++ {
		docs = append(docs, []verifNode{tx(), sty(tx()), tx()}, []verifNode{sty(tx(), tx()), tx(), {T: "blk", Kids: []verifNode{tx()}}}, []verifNode{sty(sty(tx())), tx(), lk()})
	}
	for i := 0; i < in.Random; i++ {
		if i%8 == 0 {
			/* many links: two-digit numbers */
			flat := []verifNode{}
			for k := 10 + rng.Intn(18); k > 0; k-- {
				if rng.Intn(3) == 0 {
					flat = append(flat, verifNode{T: "img"})
				} else {
					flat = append(flat, verifNode{T: "a", Kids: []verifNode{{T: "txt"}}})
				}
			}
			docs = append(docs, flat)
			continue
		}
		docs = append(docs, verifRandomDoc(rng, 1+rng.Intn(4)))
	}
	obj := 0
	var prevPost *Post
	var prevEvent verifkit.M
	allReals := []verifReal{}
	defer func() { verifConcurrentRenders(out, rng, allReals, &obj) }()
	for di, doc := range docs {
		for _, real := range verifRealise(rng, doc, di) {
			allReals = append(allReals, real)
			attachments := 0
			if di%3 == 0 {
				attachments = 1 + rng.Intn(4)
			}
			o, expect := verifPostObject(real, attachments)
			var post *Post
			panicked, what := verifkit.Try(func() {
				var err error
				post, err = NewPostFromObject(o, nil)
				if err != nil {
					panic(err)
				}
				if real.markup == "plain" {
					/* in plain text the label of a link is the stretch that is underlined: the number next to it opens that */
					runs := verifUnderlinedRuns(post.String(4000))
					expect = append([]verifMark{}, expect...)
					for i, m := range expect {
						if m.T != "lab" {
							continue
						}
						for _, run := range runs {
							if run == m.Target || (strings.HasPrefix(run, m.Target) && !strings.ContainsAny(run[len(m.Target):len(m.Target)+1], "0123456789")) {
								expect[i].Target = run
								break
							}
						}
					}
				}
			})
			if panicked {
				out.Emit(verifkit.M{"ev": "links", "markup": real.markup, "w": 0, "marks": []verifMark{}, "expect": expect, "sel": []string{}, "doc": real.text, "panic": true, "what": what})
				continue
			}
			n := 0
			for _, m := range expect {
				if m.T == "lab" {
					n++
				}
			}
			sel := []string{}
			for k := -1; k <= n+2; k++ {
				link := "panic"
				verifkit.Try(func() {
					target, _, present := post.SelectLink(k)
					link = target
					if !present {
						link = "none"
					}
				})
				sel = append(sel, link)
			}
			widths := []int{80, 44, 30}
			if strings.Contains(real.text, "<pre") || strings.Contains(real.text, "wwwwwwww") || strings.Contains(real.text, "漢漢漢漢") || strings.Contains(real.text, "한w한w") || (real.markup == "plain" && strings.Contains(real.text, verifOddQuery)) || strings.Contains(real.text, "```") {
				/* hard wrapping may cut a token in two: read the numbers at widths where it does not */
				widths = []int{220, 160}
			}
			for _, w := range widths {
				var rendered string
				p2, what2 := verifkit.Try(func() { rendered = post.String(w) })
				ev := verifkit.M{"ev": "links", "markup": real.markup, "w": w, "marks": verifSplitLabs(verifReadMarks(rendered), len(expect)), "expect": expect,
					"sel": sel, "doc": verifkit.Clip(real.text, 300), "panic": p2}
				if p2 {
					ev["what"] = what2
				}
				out.Emit(ev)
				out.Emit(verifkit.M{"ev": "out", "kind": "post-string", "chk": []string{"noctl", "neutral"}, "w": w, "h": 0,
					"toks": verifkit.Toks(rendered, nil), "expect": verifkit.M{}, "src": verifkit.Clip(real.text, 200)})
			}
			/* the post built before this one must still answer for its own links */
			if prevPost != nil {
				again := []string{}
				for k := -1; k <= len(prevEvent["sel"].([]string))-2; k++ {
					link := "panic"
					verifkit.Try(func() {
						target, _, present := prevPost.SelectLink(k)
						link = target
						if !present {
							link = "none"
						}
					})
					again = append(again, link)
				}
				var rendered string
				verifkit.Try(func() { rendered = prevPost.String(220) })
				ev := verifkit.M{}
				for k, val := range prevEvent {
					ev[k] = val
				}
				ev["sel"], ev["marks"], ev["w"], ev["later"] = again, verifSplitLabs(verifReadMarks(rendered), len(prevEvent["expect"].([]verifMark))), 220, true
				out.Emit(ev)
			}
			prevPost = post
			prevEvent = verifkit.M{"ev": "links", "markup": real.markup, "expect": expect, "sel": sel, "doc": verifkit.Clip(real.text, 300), "panic": false}
			/* C15: the body markup along a width sequence, against a fresh object each time */
			if post.bodyErr != nil {
				continue
			}
			obj++
			seq := []int{80, 1 + rng.Intn(100), 80}
			if len(in.Widths) > 0 {
				seq = in.Widths[(di+obj)%len(in.Widths)]
				seq = append(append([]int{}, seq...), 1+rng.Intn(120), 3+rng.Intn(40))
			}
			/* widths around the length of the longest line as written (where "nothing to wrap" shortcuts would sit) */
			longest := 0
			for _, line := range strings.Split(real.text, "\n") {
				if n := len([]rune(line)); n > longest && n < 200 {
					longest = n
				}
			}
			if longest > 2 {
				seq = append(seq, longest-1, longest, longest+1, longest+2, longest)
			}
			out.Emit(verifkit.M{"ev": "robj", "obj": obj, "markup": real.markup})
			for _, w := range seq {
				var rendered, fresh string
				p3, _ := verifkit.Try(func() {
					rendered = post.body.Render(w)
					other, _, err := o.GetMarkup("content", "mediaType")
					if err != nil {
						panic(err)
					}
					fresh = other.Render(w)
				})
				out.Emit(verifkit.M{"ev": "render", "obj": obj, "markup": real.markup, "w": w, "digest": verifDigest(rendered), "fresh": verifDigest(fresh), "panic": p3,
					"doc": verifkit.Clip(real.text, 200)})
				out.Emit(verifkit.M{"ev": "out", "kind": "render-" + real.markup, "chk": []string{"noctl", "neutral", "width"}, "w": w, "h": 0,
					"toks": verifkit.Toks(rendered, nil), "expect": verifkit.M{}, "src": verifkit.Clip(real.text, 200)})
			}
		}
	}
}

/*
	The four renderers called directly with text as it never comes through the JSON accessors (which expand tabs and
	replace malformed bytes first): tabs near the end of a line, bytes that are no UTF-8.  Every line of every rendering
	at every width from 1 to 40 has at most that many characters (one per character or stray byte).
*/
func verifDirectRenders(out *verifkit.Trace) {
	type renderer interface{ Render(int) string }
	texts := []string{"\tone\ttwo\tthree four five six seven", "a line with a tab\tnear its end", "col1\tcol2\tcol3\tcol4\tcol5\tcol6", "caf\xe9 au lait, d\xe9j\xe0 vu, na\xefve r\xe9sum\xe9",
		"\xe6\x97 broken \xf0\x9f tails \xc3", "```\n\tindented\tcode\twith\ttabs\n```\nafter\tthe\tblock", "=> https://x.example/a\tlabel\twith\ttabs", "> quote\twith\ttabs and more words to fill the line",
		"\xff\xfe\xfd\xfc\xfb\xfa 0123456789 0123456789"}
	/* what one document was rendered at says nothing about another: a document with long lines is drawn wide, then a new one of the
	   same text is made and drawn at 80 first thing; and a large document resized many times over gives, at each width, what it gave
	   the first time */
	long := strings.Repeat("word ", 60) + strings.Repeat("w", 150) + " tail"
	big := strings.Repeat("<b>x</b> <i>y</i> ", 1500)
	obj := 900000
	for name, build := range map[string]func(string) (renderer, error){
		"gemtext":   func(t string) (renderer, error) { m, _, err := gemtext.NewMarkup(t); return m, err },
		"plaintext": func(t string) (renderer, error) { m, _, err := plaintext.NewMarkup(t); return m, err },
		"markdown":  func(t string) (renderer, error) { m, _, err := markdown.NewMarkup(t); return m, err },
		"html":      func(t string) (renderer, error) { m, _, err := hypertext.NewMarkup("<p>" + t + "</p>"); return m, err },
	} {
		if first, err := build(long); err == nil {
			verifkit.Try(func() { first.Render(120); first.Render(33) })
			for _, w := range []int{120, 33, 80} {
				verifkit.Try(func() { first.Render(w) })
				if second, err := build(long); err == nil {
					var rendered string
					verifkit.Try(func() { rendered = second.Render(80) })
					out.Emit(verifkit.M{"ev": "out", "kind": "render-" + name + " (a new document after another was drawn at " + fmt.Sprint(w) + ")", "chk": []string{"width"}, "w": 80, "h": 0,
						"toks": verifkit.Toks(rendered, nil), "expect": verifkit.M{}, "src": "sixty words and a word of 150 letters"})
				}
			}
		}
		if name != "html" && name != "markdown" {
			continue
		}
		doc := big
		if name == "markdown" {
			doc = strings.Repeat("**x** _y_ ", 1500)
		}
		m, err := build(doc)
		if err != nil {
			continue
		}
		obj++
		out.Emit(verifkit.M{"ev": "robj", "obj": obj, "markup": name})
		firsts := map[int]string{}
		for k := 0; k < 40; k++ {
			w := []int{40, 41, 60}[k%3]
			var rendered string
			panicked, _ := verifkit.Try(func() { rendered = m.Render(w) })
			if _, seen := firsts[w]; !seen {
				firsts[w] = verifDigest(rendered)
			}
			out.Emit(verifkit.M{"ev": "render", "obj": obj, "markup": name, "w": w, "digest": verifDigest(rendered), "fresh": firsts[w], "panic": panicked, "doc": "3000 styled words, resized forty times"})
		}
	}
	for _, text := range texts {
		for name, build := range map[string]func(string) (renderer, error){
			"gemtext":   func(t string) (renderer, error) { m, _, err := gemtext.NewMarkup(t); return m, err },
			"plaintext": func(t string) (renderer, error) { m, _, err := plaintext.NewMarkup(t); return m, err },
			"markdown":  func(t string) (renderer, error) { m, _, err := markdown.NewMarkup(t); return m, err },
			"html":      func(t string) (renderer, error) { m, _, err := hypertext.NewMarkup("<p>" + t + "</p><pre>" + t + "</pre>"); return m, err },
		} {
			m, err := build(text)
			if err != nil {
				continue
			}
			for w := 1; w <= 40; w++ {
				var rendered string
				if panicked, _ := verifkit.Try(func() { rendered = m.Render(w) }); panicked {
					continue /* a crash is C06's matter */
				}
				toks := []verifkit.Tok{}
				for i, line := range strings.Split(rendered, "\n") {
					if i > 0 {
						toks = append(toks, verifkit.Tok{T: "nl"})
					}
					n := 0
					for _, c := range verifkit.Cells(line) {
						if c.K != "nl" {
							n++
						}
					}
					if n > 0 {
						toks = append(toks, verifkit.Tok{T: "ch", N: n})
					}
				}
				out.Emit(verifkit.M{"ev": "out", "kind": "render-" + name + " (called directly)", "chk": []string{"width"}, "w": w, "h": 0, "toks": toks, "expect": verifkit.M{},
					"src": verifkit.Clip(strings.ToValidUTF8(text, "?"), 120)})
			}
		}
	}
}

/* the stretches of a rendering that are underlined */
func verifUnderlinedRuns(rendered string) []string {
	runs := []string{}
	var cur strings.Builder
	for _, c := range verifkit.Cells(rendered) {
		underlined := false
		for _, sgr := range c.S {
			for _, p := range strings.Split(sgr, ";") {
				if p == "4" && !strings.HasPrefix(sgr, "38;") && !strings.HasPrefix(sgr, "48;") {
					underlined = true
				}
			}
		}
		if underlined && c.K == "g" {
			cur.WriteString(c.C)
			continue
		}
		if cur.Len() > 0 {
			runs = append(runs, cur.String())
			cur.Reset()
		}
	}
	if cur.Len() > 0 {
		runs = append(runs, cur.String())
	}
	return runs
}

/* a word longer than most lines: Latin letters, or characters a terminal draws two columns wide (the renderers
   count characters, so a line of `width` of them is what "fits" means), or both in turns */
func verifLongWord(c *verifCounter, n int) string {
	switch (c.doc + c.link + c.tok) % 3 {
	case 1:
		return strings.Repeat("漢", n)
	case 2:
		return strings.Repeat("한w", n/2+1)
	}
	return strings.Repeat("w", n)
}
