//go:build verif

package pub

import (
	"encoding/json"
	"fmt"
	"math/rand"
	"net/url"
	"os"
	"servitor/object"
	"servitor/jtp"
	"servitor/verifkit"
	"servitor/verifsim"
	"strings"
	"testing"
	"time"
)

/*
	C01 driver.  For every (source, class, encoding) obligation of Sanitize.tla - enumerated by
	TLC - the payload class is realised by its representatives (every C0 code, DEL, every C1
	code, as the encoding demands) at the start, in the middle and at the end of otherwise benign
	text that continues with "[31m" / "]0;title" so that a surviving ESC / CSI / OSC would form a
	real sequence, in every field the source names.  The item is built by the real constructors
	(network sources: through the simulator) and everything it can print - Name, Preview,
	String at two widths - is tokenised.  T_Term.tla (NoCtl) judges.
*/

type verifObligation struct {
	Src   string `json:"src"`
	Class string `json:"class"`
	Enc   string `json:"enc"`
}

func verifCodes(class string, all bool, rng *rand.Rand) []rune {
	var codes []rune
	switch class {
	case "print":
		codes = []rune{'x', '☃', ' ', '‮', '​'}
	case "nl":
		codes = []rune{'\n'}
	case "tab":
		codes = []rune{'\t'}
	case "esc":
		codes = []rune{0x1b}
	case "del":
		codes = []rune{0x7f}
	case "c0":
		for r := rune(0); r < 0x20; r++ {
			if r != '\t' && r != '\n' && r != 0x1b {
				codes = append(codes, r)
			}
		}
	case "c1":
		for r := rune(0x80); r <= 0x9f; r++ {
			codes = append(codes, r)
		}
	}
	if all || len(codes) <= 3 {
		return codes
	}
	/* boundary representatives plus a seeded one */
	picked := []rune{codes[0], codes[len(codes)-1], codes[rng.Intn(len(codes))]}
	if class == "c1" {
		picked = append(picked, 0x9b, 0x9d, 0x90) /* CSI, OSC, DCS */
	}
	if class == "c0" {
		picked = append(picked, 0x07, 0x08, 0x0d, 0x0e)
	}
	return picked
}

func verifEncodeRune(r rune, enc string, rng *rand.Rand) string {
	switch enc {
	case "raw":
		return string(r)
	case "netraw":
		/* on the wire a C1 control may also travel as a single 8-bit byte (not valid UTF-8) */
		if r >= 0x80 && r <= 0x9f && rng.Intn(2) == 0 {
			return string([]byte{byte(r)})
		}
		return string(r)
	case "htmlref":
		switch rng.Intn(3) {
		case 0:
			return fmt.Sprintf("&#%d;", r)
		case 1:
			return fmt.Sprintf("&#x%x;", r)
		default:
			return fmt.Sprintf("&#X%04X;", r)
		}
	case "pct":
		out := ""
		for _, b := range []byte(string(r)) {
			out += fmt.Sprintf("%%%02X", b)
		}
		return out
	}
	return string(r)
}

/* payload texts: the encoded character at the start, in the middle and at the end */
func verifPayloads(r rune, enc string, rng *rand.Rand) []string {
	e := verifEncodeRune(r, enc, rng)
	tail := []string{"[31mred", "]0;title\a", "[2J", "c"}[rng.Intn(4)]
	all := []string{e + tail, "ab" + e + tail + " cd", "ab cd" + e}
	if os.Getenv("VERIF_TIER") == "thorough" {
		return all
	}
	/* quick: the middle position and one of the ends */
	return []string{all[1], all[2*rng.Intn(2)]}
}

type verifSanitizer struct {
	out *verifkit.Trace
	sim *verifsim.Sim
	h   *verifsim.Host
	rng *rand.Rand
	n   int
}

func (v *verifSanitizer) emit(o verifObligation, what string, text string, field string) {
	v.out.Emit(verifkit.M{"ev": "out", "kind": "item-" + what, "chk": []string{"noctl", "neutral"}, "w": 0, "h": 0, "toks": verifkit.Toks(text, nil),
		"expect": verifkit.M{}, "ops": []string{}, "src": o.Src + "/" + o.Class + "/" + o.Enc + " via " + field, "raw": verifkit.Clip(fmt.Sprintf("%q", text), 300)})
}

func (v *verifSanitizer) show(o verifObligation, item any, field string) {
	t, ok := item.(Tangible)
	if !ok {
		if c, isCollection := item.(*Collection); isCollection {
			items, _, _ := c.Harvest(3, 0)
			for _, it := range items {
				v.show(o, it, field)
			}
		}
		return
	}
	panicked, what := verifkit.Try(func() {
		/* the very first drawing of a fresh item, at the width markup is pre-rendered for (80): nothing may be
		   left over from before the text was cleaned */
		v.emit(o, "preview", t.Preview(80), field)
		v.emit(o, "name", t.Name(), field)
		v.emit(o, "string", t.String(80), field)
		v.emit(o, "preview", t.Preview(23), field)
		if os.Getenv("VERIF_TIER") == "thorough" {
			v.emit(o, "string", t.String(84), field)
			v.emit(o, "string", t.String(23), field)
		}
		if parents, _ := t.Parents(1); len(parents) > 0 {
			v.emit(o, "parent", parents[0].String(60), field)
		}
		if p, isPost := t.(*Post); isPost {
			for _, c := range p.Creators() {
				v.emit(o, "creator", c.Name(), field)
			}
		}
		if a, isActivity := t.(*Activity); isActivity {
			v.emit(o, "actor", a.Actor().Name(), field)
		}
	})
	if panicked {
		v.out.Emit(verifkit.M{"ev": "out", "kind": "item-panic", "chk": []string{"noctl"}, "w": 0, "h": 0, "toks": []verifkit.Tok{{T: "ctl", Code: -1}}, "expect": verifkit.M{},
			"ops": []string{}, "src": o.Src + " via " + field, "raw": what})
	}
}

func (v *verifSanitizer) serveDoc(target string, doc map[string]any) string {
	doc["id"] = v.h.URL(target)
	data, _ := json.Marshal(doc)
	v.h.Set(target, &verifsim.Route{Raw: []byte("HTTP/1.1 200 OK\r\nContent-Type: application/activity+json\r\n\r\n" + string(data))})
	return v.h.URL(target)
}

func (v *verifSanitizer) obligation(o verifObligation, all bool) {
	for _, r := range verifCodes(o.Class, all, v.rng) {
		for _, payload := range verifPayloads(r, o.Enc, v.rng) {
			v.n++
			base := func() map[string]any {
				return map[string]any{"type": "Note", "content": "<p>plain</p>", "published": "2024-01-02T03:04:05Z", "name": "title"}
			}
			switch o.Src {
			case "json_field":
				/* the value as a string, and as JSON-LD likes to write a single value: a list of one (and of two) */
				shapes := []func(string) any{func(p string) any { return p }, func(p string) any { return []any{p} }, func(p string) any { return []any{p, "x"} },
					func(p string) any { return map[string]any{"@value": p} }}
				for fi, field := range []string{"name", "published", "updated", "mediaType", "type", "totalItems", "content", "content/plain", "content/gemini"} {
				for si, shape := range shapes {
					if si > 0 && (v.n+fi+si)%2 == 0 {
						continue
					}
					doc := base()
					if strings.HasPrefix(field, "content/") {
						doc["mediaType"] = "text/" + strings.TrimPrefix(field, "content/")
						doc["content"] = shape(payload)
					} else {
						doc[field] = shape(payload)
					}
					if field == "type" {
						doc[field] = shape("Note" + payload)
					}
					post, err := NewPostFromObject(doc, nil)
					if err != nil {
						v.show(o, NewFailure(err), "post."+field)
					} else {
						v.show(o, post, "post."+field)
					}
				}
				}
				for fi, field := range []string{"name", "preferredUsername", "published", "summary", "type"} {
					doc := map[string]any{"type": "Person", "name": "someone", "preferredUsername": "user", "id": "https://example.org/u"}
					doc[field] = shapes[(v.n+fi)%len(shapes)](payload)
					if field == "type" {
						doc[field] = "Person" + payload
					}
					id, _ := url.Parse("https://example.org/u")
					actor, err := NewActorFromObject(doc, id)
					if err != nil {
						v.show(o, NewFailure(err), "actor."+field)
					} else {
						v.show(o, actor, "actor."+field)
					}
				}
				/* attachments and links: names, media types */
				doc := base()
				doc["attachment"] = []any{map[string]any{"type": "Link", "href": "https://example.org/a", "name": shapes[v.n%2](payload)},
					map[string]any{"type": "Image", "url": "https://example.org/b", "mediaType": payload},
					map[string]any{"type": "Link" + payload, "href": "https://example.org/c"}}
				if post, err := NewPostFromObject(doc, nil); err == nil {
					v.show(o, post, "post.attachment")
				} else {
					v.show(o, NewFailure(err), "post.attachment")
				}
			case "html_text", "markdown", "gemtext", "plaintext":
				media := map[string]string{"html_text": "text/html", "markdown": "text/markdown", "gemtext": "text/gemini", "plaintext": "text/plain"}[o.Src]
				wraps := []string{"%s"}
				if o.Src == "html_text" {
					wraps = []string{"<p>%s</p>", "<unk%s>t</unk>", "<p><x-%s y=\"1\">t</p>", "<pre>%s</pre>", "<code>%s</code>", "<blockquote><b>%s</b></blockquote>", "<a href=\"https://e.example/\">%s</a>", "<unknown>%s</unknown>", "<ul><li>%s</li></ul>", "<h2>%s</h2>"}
				}
				if o.Src == "markdown" {
					wraps = []string{"%s", "**%s**", "> %s", "`%s`", "[%s](https://e.example/)", "# %s", "    %s"}
				}
				if o.Src == "gemtext" {
					wraps = []string{"%s", "=> https://e.example/ %s", "# %s", "* %s", "> %s", "```\n%s\n```"}
				}
				for _, wrap := range wraps {
					doc := base()
					doc["content"], doc["mediaType"] = fmt.Sprintf(wrap, payload), media
					if post, err := NewPostFromObject(doc, nil); err == nil {
						v.show(o, post, "post.content "+wrap)
					}
					adoc := map[string]any{"type": "Person", "name": "someone", "summary": fmt.Sprintf(wrap, payload), "mediaType": media}
					if actor, err := NewActorFromObject(adoc, nil); err == nil {
						v.show(o, actor, "actor.summary "+wrap)
					}
				}
			case "html_attr":
				for _, wrap := range []string{`<img src="https://e.example/i" alt="%s">`, `<img alt="%s">`, `<video src="%s"></video>`, `<iframe src="https://e.example/f" title="%s"></iframe>`,
					`<audio alt="%s" src="https://e.example/a"></audio>`, `<a href="%s">link</a>`, `<iframe title="%s"></iframe>`,
					/* attributes of elements the renderer does not know (shown by their names) */
					`<table summary="%s"><tr><td>cell</td></tr></table>`, `<section data-note="%s">text</section>`, `<input value="%s">`, `<ol title="%s"><li>item</li></ol>`, `<x-widget label="%s">w</x-widget>`} {
					doc := base()
					doc["content"] = fmt.Sprintf(wrap, payload)
					if post, err := NewPostFromObject(doc, nil); err == nil {
						v.show(o, post, "post.content "+wrap)
					}
				}
			case "link_url":
				doc := base()
				doc["attachment"] = []any{map[string]any{"type": "Link", "href": "https://example.org/files/" + payload},
					map[string]any{"type": "Document", "url": "https://ex" + payload + "ample.org/files/x"},
					map[string]any{"type": "Link", "href": "https://example.org/search?q=" + payload},
					map[string]any{"type": "Link", "href": "mailto:" + payload + "@example.org"},
					map[string]any{"type": "Image", "url": "https://user" + payload + "@example.org/x#frag" + payload}}
				doc["url"] = "https://example.org/media/" + payload
				if post, err := NewPostFromObject(doc, nil); err == nil {
					v.show(o, post, "post.attachment.href")
				} else {
					v.show(o, NewFailure(err), "post.attachment.href")
				}
			case "id_host":
				for _, id := range []string{"https://ex" + payload + "ample.org/users/u", "https://example.org" + payload + "/users/u"} {
					doc := map[string]any{"type": "Person", "name": "someone", "preferredUsername": "user", "id": id}
					/* the id as the code itself derives it from the document */
					parsed, err := object.Object(doc).GetURL("id")
					if err != nil {
						v.show(o, NewFailure(err), "actor.id")
						continue
					}
					if actor, err := NewActorFromObject(doc, parsed); err == nil {
						v.show(o, actor, "actor.id")
					}
				}
			case "status_line", "header_value", "location_host", "status_line_inline", "header_value_inline", "location_host_inline":
				target := fmt.Sprintf("/net%d", v.n)
				var raw string
				inline := strings.HasSuffix(o.Src, "_inline")
				switch strings.TrimSuffix(o.Src, "_inline") {
				case "status_line":
					raw = []string{"HTTP/1.1 200 " + payload + "\r\nContent-Type: application/activity+json\r\n\r\n{}", payload + "\r\n\r\n", "HTTP/9.9 " + payload + "\r\n\r\n",
						"HTTP/1.1 404 " + payload + "\r\n\r\n"}[v.rng.Intn(4)]
				case "header_value":
					raw = []string{"HTTP/1.1 200 OK\r\nContent-Type: " + payload + "\r\n\r\n{}", "HTTP/1.1 200 OK\r\nContent-Type: text/" + payload + "\r\n\r\n{}",
						"HTTP/1.1 302 Found\r\nLocation: " + payload + "\r\n\r\n", "HTTP/1.1 302 Found\r\nLocation: ht tp://" + payload + "\r\n\r\n",
						"HTTP/1.1 200 OK\r\nContent-Type: application/activity+json\r\n\r\n{\"type\": " + payload + "}"}[v.rng.Intn(5)]
				case "location_host":
					raw = "HTTP/1.1 302 Found\r\nLocation: https://ex" + payload + "ample.invalid/x\r\n\r\n"
				}
				v.h.Set(target, &verifsim.Route{Raw: []byte(raw)})
				jtp.VerifSetCache(8)
				if inline {
					/* the failed fetch is a secondary one; the item that asked for it prints the error itself */
					actor := v.serveDoc(target+"-actor", map[string]any{"type": "Person", "name": "someone", "preferredUsername": "user", "outbox": v.h.URL(target),
						"summary": "<p>bio</p>"})
					v.show(o, New(actor, nil), o.Src+" (outbox of an actor)")
					for _, kind := range []string{"Announce", "Like", "Dislike"} {
						activity := v.serveDoc(target+"-"+kind, map[string]any{"type": kind, "actor": v.h.URL(target), "published": "2024-01-02T03:04:05Z",
							"object": map[string]any{"type": "Note", "content": "<p>x</p>", "attributedTo": v.h.URL(target), "audience": v.h.URL(target)}})
						v.show(o, New(activity, nil), o.Src+" (actor of "+kind+")")
					}
					continue
				}
				v.show(o, New(v.h.URL(target), nil), o.Src)
				/* the same failure as a parent, a reply and an author */
				note := v.serveDoc(target+"-ref", map[string]any{"type": "Note", "name": "t", "content": "<p>x</p>", "inReplyTo": v.h.URL(target),
					"attributedTo": v.h.URL(target), "replies": v.h.URL(target)})
				v.show(o, New(note, nil), o.Src+" (referenced)")
			case "field_error":
				/* values of the wrong type: the message names keys and Go types only */
				doc := base()
				doc["name"] = map[string]any{payload: payload}
				doc["attachment"] = payload
				doc["inReplyTo"] = []any{payload}
				if post, err := NewPostFromObject(doc, nil); err == nil {
					v.show(o, post, "post wrong types")
				} else {
					v.show(o, NewFailure(err), "post wrong types")
				}
			}
		}
	}
}

func TestVerifSanitize(t *testing.T) {
	var in struct {
		Obligations []verifObligation `json:"obligations"`
		All         bool              `json:"all"`
	}
	verifkit.In(&in)
	out := verifkit.Out()
	defer out.Close()
	sim := verifsim.Get()
	defer sim.Cleanup()
	jtp.VerifSetTimeout(2 * time.Second)
	v := &verifSanitizer{out: out, sim: sim, h: sim.Host("s1"), rng: verifkit.Rand()}
	for _, o := range in.Obligations {
		if o.Src == "hook_output" || o.Src == "typed_text" {
			continue /* covered by the ui driver's frames */
		}
		v.obligation(o, in.All)
	}
}
