//go:build verif

package pub

import (
	"fmt"
	"servitor/verifkit"
	"strings"
	"testing"
)

/*
	SelectBestLink: one implementation test per model transition.  Every list of link classes
	enumerated by TLC (MC_SelectBest) is realised as concrete Link objects and handed to the real
	pub.SelectBestLink; T_SelectBest.tla compares the outcome with SelectM.
*/
type verifLinkClass struct {
	Mt string `json:"mt"`
	H  string `json:"h"`
	W  string `json:"w"`
}

func TestVerifSelectBest(t *testing.T) {
	var in struct {
		Lists [][]verifLinkClass `json:"lists"`
	}
	verifkit.In(&in)
	out := verifkit.Out()
	defer out.Close()
	for _, list := range in.Lists {
		links := make([]*Link, len(list))
		ok := true
		for i, c := range list {
			o := map[string]any{"type": "Link", "href": fmt.Sprintf("https://x.example/%d", i+1)}
			switch c.Mt {
			case "bad":
				o["mediaType"] = "garbage"
			case "match":
				o["mediaType"] = []string{"image/png", "image/jpeg; q=1"}[i%2]
			case "other":
				o["mediaType"] = []string{"video/mp4", "text/html"}[i%2]
			}
			dim := func(key, class string) {
				switch class {
				case "bad":
					o[key] = []any{"tall", 1.5, true}[i%3]
				case "1", "2", "3":
					o[key] = float64(class[0] - '0')
				}
			}
			dim("height", c.H)
			dim("width", c.W)
			link, err := NewLink(o)
			if err != nil {
				ok = false
				break
			}
			links[i] = link
		}
		if !ok {
			continue
		}
		res := verifkit.M{"t": "err", "i": 0, "field": "?"}
		panicked, what := verifkit.Try(func() {
			best, err := SelectBestLink(links, "image")
			if err == nil {
				uri, _, _ := best.Select()
				var idx int
				fmt.Sscanf(uri, "https://x.example/%d", &idx)
				res = verifkit.M{"t": "pick", "i": idx, "field": "none"}
				return
			}
			switch msg := err.Error(); {
			case strings.Contains(msg, "empty list"):
				res["field"] = "empty"
			case strings.Contains(msg, "mime type"):
				res["field"] = "mt"
			case strings.Contains(msg, "height") || strings.Contains(msg, "width"):
				res["field"] = "dim"
			default:
				res["field"] = verifkit.Clip(msg, 60)
			}
		})
		ev := verifkit.M{"ev": "select", "links": list, "res": res, "panic": panicked}
		if panicked {
			ev["what"] = what
		}
		out.Emit(ev)
	}
}
