//go:build verif

package pub

import (
	"bytes"
	"encoding/json"
	"fmt"
	"math/rand"
	"net/url"
	"os"
	"runtime/pprof"
	"sort"
	"servitor/jtp"
	"servitor/object"
	"servitor/verifkit"
	"strings"
	"testing"
	"time"
)

/*
	C06 driver.  Case i is a pure function of (seed, i): a JSON value shaped like - or unlike - an
	ActivityStreams actor, post, activity, collection or link (every known key x every value
	class, deep and recursive embeddings, huge and negative numbers), or a markup body with
	absurd nesting; the item is built and every method a frame may call is exercised at widths
	from negative to large, and SelectLink over the integer classes.  Each case runs under a
	watchdog: a case that does not finish gives up the whole process (exit 3) and the check
	resumes after it.  T_Outcome.tla judges (ok within the time bound; never panic or hang).
*/

func verifValue(rng *rand.Rand, depth int) any {
	switch rng.Intn(16) {
	case 0:
		return nil
	case 1:
		return rng.Intn(2) == 0
	case 2:
		return []float64{0, 1, -1, 5, 0.5, 1e300, -1e300, 18446744073709551616, 9007199254740993, 1e-9, 4294967296}[rng.Intn(11)]
	case 3:
		return ""
	case 4:
		return []string{"text", "Note", "Person", "Create", "OrderedCollection", "Link", "Image", "text/html", "text/markdown", "text/gemini", "text/plain", "image/png",
			"2024-01-02T03:04:05Z", "yesterday", "https://offline.invalid/x", "/relative", "http://[::1", "%zz", "@user@host", "\x1b[31m", strings.Repeat("long ", 300)}[rng.Intn(21)]
	case 5:
		return []any{}
	case 6, 7:
		if depth <= 0 {
			return "leaf"
		}
		n := rng.Intn(4)
		list := make([]any, n)
		for i := range list {
			list[i] = verifValue(rng, depth-1)
		}
		return list
	default:
		if depth <= 0 {
			return map[string]any{"type": "Note"}
		}
		return verifObject(rng, depth-1)
	}
}

var verifKeys = []string{"id", "type", "name", "preferredUsername", "summary", "content", "mediaType", "published", "updated", "inReplyTo", "url", "attributedTo", "audience",
	"attachment", "replies", "comments", "outbox", "icon", "image", "actor", "object", "items", "orderedItems", "first", "next", "totalItems", "href", "height", "width", "rel"}
var verifTypes = []string{"Note", "Article", "Video", "Image", "Audio", "Page", "Document", "Person", "Group", "Service", "Application", "Organization", "Create", "Announce", "Like", "Dislike",
	"Collection", "OrderedCollection", "CollectionPage", "OrderedCollectionPage", "Link", "Tombstone", "Mention", "", "note",
	/* the rest of the ActivityStreams vocabulary */
	"Update", "Delete", "Follow", "Add", "Remove", "Undo", "Accept", "Reject", "Block", "Flag", "Move", "Question", "Event", "Place", "Profile", "Relationship",
	"Arrive", "Ignore", "Invite", "Join", "Leave", "Listen", "Offer", "Read", "TentativeAccept", "TentativeReject", "Travel", "View", "Activity", "IntransitiveActivity", "Object"}

func verifMarkupBody(rng *rand.Rand) (string, string) {
	switch rng.Intn(12) {
	case 9: /* alternating kinds of blocks, each with text of its own */
		depth := []int{10, 40, 66, 100, 150}[rng.Intn(5)]
		unit := []string{"<blockquote>a<ul><li>", "<blockquote><h3><ul><li><b><code>", "<ul><li>x<ul><li>y", "<h2><blockquote>q", "<div><ul><li><blockquote>z "}[rng.Intn(5)]
		return strings.Repeat(unit, depth) + []string{"end", "text here", "<hr>", "<pre>a\nb</pre>"}[rng.Intn(4)], "text/html"
	case 10: /* hundreds of nested inline styles, the same or alternating, around styled text */
		unit := []string{"<b>", "<b><i>", "<b><i><u><s><code><mark>", "<a href=\"https://x.example/\">", "<i><a href=\"https://x.example/y\">"}[rng.Intn(5)]
		depth := []int{80, 300, 500, 1100}[rng.Intn(4)]
		if depth*len(unit) > 7000 {
			depth = 7000 / len(unit) /* keep it a document of a few kilobytes */
		}
		return strings.Repeat(unit, depth) + "<i>" + strings.Repeat("y", 20+rng.Intn(120)) + "</i> tail", "text/html"
	case 11: /* the same in Markdown */
		depth := 5 + rng.Intn(120)
		return strings.Repeat("> * ", depth) + "deep\n\n" + strings.Repeat("**_", 40) + "styled" + strings.Repeat("_**", 40), "text/markdown"
	case 0: /* nesting deeper than any terminal is wide */
		depth := []int{3, 20, 79, 80, 81, 82, 90, 120, 200}[rng.Intn(9)]
		tag := []string{"blockquote", "ul><li", "h6", "div", "b", "pre", "unknownx", "h1"}[rng.Intn(8)]
		open, close := "<"+tag+">", "</"+strings.Split(tag, ">")[0]+">"
		if tag == "ul><li" {
			close = "</li></ul>"
		}
		inner := []string{"two words", "<hr>", "<img src=\"https://x.example/i\" alt=\"alt text\">", "x", "<br>", strings.Repeat("word ", 40), "<pre>a\tb\n\tc</pre>"}[rng.Intn(7)]
		return strings.Repeat(open, depth) + inner + strings.Repeat(close, depth), "text/html"
	case 1:
		return strings.Repeat("<", 500) + strings.Repeat("&", 300) + "&#0;&#xD800;&#1114112;&bogus;" + strings.Repeat("<a href=", 50), "text/html"
	case 2:
		return strings.Repeat("> ", rng.Intn(120)) + "quoted " + strings.Repeat("\n* item", rng.Intn(40)) + "\n\n" + strings.Repeat("#", rng.Intn(9)) + " heading\n\n```\n" + strings.Repeat("code ", 80) + "\n" +
			strings.Repeat("[", rng.Intn(60)) + "x" + strings.Repeat("](y)", rng.Intn(60)), "text/markdown"
	case 3:
		return strings.Repeat("=> https://x.example/ link\n", rng.Intn(200)) + "```\n" + strings.Repeat("unterminated ", 200), "text/gemini"
	case 4:
		return strings.Repeat("https://x.example/"+strings.Repeat("a", rng.Intn(300))+" ", 1+rng.Intn(60)), "text/plain"
	case 5:
		return strings.Repeat("<ul><li>x<ul><li>y", rng.Intn(60)) + strings.Repeat("<table><tr><td>", rng.Intn(30)) + "cell", "text/html"
	case 6:
		return "", "text/html"
	case 7:
		return strings.Repeat("x", 4000), []string{"text/html", "text/plain", "text/gemini", "text/markdown", "application/x-unknown", "text"}[rng.Intn(6)]
	default:
		return "<p>" + strings.Repeat("<span>", 3000) + "deep" + "</p>", "text/html"
	}
}

func verifObject(rng *rand.Rand, depth int) map[string]any {
	o := map[string]any{"type": verifTypes[rng.Intn(len(verifTypes))]}
	if rng.Intn(12) == 0 {
		o["type"] = verifValue(rng, 0)
	}
	for k := rng.Intn(9); k > 0; k-- {
		o[verifKeys[rng.Intn(len(verifKeys))]] = verifValue(rng, depth)
	}
	if rng.Intn(3) == 0 {
		o["content"], o["mediaType"] = verifMarkupBody(rng)
	}
	if rng.Intn(5) == 0 {
		o["summary"], o["mediaType"] = verifMarkupBody(rng)
	}
	if rng.Intn(4) == 0 {
		/* well-formed skeleton with one or two deviations */
		o["published"] = "2024-01-02T03:04:05Z"
		o["name"] = "a name"
		o["attachment"] = []any{map[string]any{"type": "Link", "href": "https://x.example/a", "name": "att"}, verifValue(rng, 1)}
		o["url"] = verifValue(rng, 2)
	}
	return o
}

/* one call a frame may make: timed on its own, under the watchdog */
var verifWatchdog *time.Timer
var verifSlowest int64
var verifSlowestWhat string

func verifTimed(what string, f func() int) int {
	if verifWatchdog != nil {
		verifWatchdog.Reset(verifCallLimit)
	}
	start := time.Now()
	n := f()
	if ms := time.Since(start).Milliseconds(); ms > verifSlowest {
		verifSlowest, verifSlowestWhat = ms, what
	}
	return n
}

const verifCallLimit = 25 * time.Second

func verifExercise(item any) int {
	size := 0
	t, ok := item.(Tangible)
	if !ok {
		if c, isCollection := item.(*Collection); isCollection && c != nil {
			items, _, _ := c.Harvest(5, 0)
			for _, it := range items {
				size += verifExercise(it)
			}
		}
		return size
	}
	for _, w := range []int{-10, -1, 0, 1, 2, 3, 5, 9, 23, 80, 81, 132, 300, 1004} {
		w := w
		size += verifTimed(fmt.Sprintf("String(%d)", w), func() int { return len(t.String(w)) })
		size += verifTimed(fmt.Sprintf("Preview(%d)", w), func() int { return len(t.Preview(w)) })
	}
	size += len(t.Name())
	_ = t.Timestamp()
	parents, _ := t.Parents(3)
	for _, p := range parents {
		size += len(p.Preview(40))
	}
	if children := t.Children(); children != nil {
		items, _, _ := children.Harvest(3, 0)
		for _, it := range items {
			size += len(it.Preview(40))
		}
	}
	for _, k := range []int{-9223372036854775808, -1, 0, 1, 2, 3, 50, 9223372036854775807} {
		t.SelectLink(k)
	}
	switch x := t.(type) {
	case *Post:
		x.Media()
		for _, c := range append(x.Creators(), x.Recipients()...) {
			size += len(c.Name())
		}
	case *Actor:
		x.ProfilePic()
		x.Banner()
	case *Activity:
		size += len(x.Actor().Name()) + len(x.Target().Name())
	}
	return size
}

/*
	Systematic part: a well-formed skeleton of each kind with ONE key replaced by each value of a fixed
	list of classes (wrong types, null, empty, nested objects with and without ids and types, lists,
	numbers at the boundaries) - the schema-based enumeration next to the random values above.
*/
var verifSkeletons = []map[string]any{
	{"type": "Note", "id": "https://offline.invalid/n", "name": "title", "content": "<p>text <a href=\"https://x.example/\">l</a></p>", "mediaType": "text/html", "published": "2024-01-02T03:04:05Z",
		"updated": "2024-01-03T03:04:05Z", "attributedTo": map[string]any{"type": "Person", "id": "https://offline.invalid/a", "name": "author"},
		"audience": "https://offline.invalid/g", "inReplyTo": map[string]any{"type": "Note", "id": "https://offline.invalid/p", "content": "parent"},
		"url": []any{map[string]any{"type": "Link", "href": "https://x.example/v.mp4", "mediaType": "video/mp4"}},
		"attachment": []any{map[string]any{"type": "Image", "url": "https://x.example/i.png", "name": "pic"}},
		"replies": map[string]any{"type": "Collection", "id": "https://offline.invalid/n/replies", "totalItems": 1, "items": []any{map[string]any{"type": "Note", "id": "https://offline.invalid/r", "inReplyTo": "https://offline.invalid/n", "content": "reply"}}}},
	{"type": "Person", "id": "https://offline.invalid/a", "name": "someone", "preferredUsername": "some", "summary": "<p>bio</p>", "published": "2020-01-02T03:04:05Z",
		"icon": map[string]any{"type": "Image", "url": "https://x.example/i.png", "mediaType": "image/png"}, "image": []any{map[string]any{"type": "Image", "url": "https://x.example/b.png"}},
		"outbox": map[string]any{"type": "OrderedCollection", "id": "https://offline.invalid/a/outbox", "totalItems": 1, "orderedItems": []any{
			map[string]any{"type": "Create", "id": "https://offline.invalid/c", "actor": "https://offline.invalid/a", "object": map[string]any{"type": "Note", "id": "https://offline.invalid/n2", "content": "x"}}}}},
	{"type": "Announce", "id": "https://offline.invalid/c", "published": "2024-01-02T03:04:05Z", "actor": map[string]any{"type": "Person", "id": "https://offline.invalid/a", "name": "actor"},
		"object": map[string]any{"type": "Note", "id": "https://offline.invalid/n", "content": "announced", "attributedTo": map[string]any{"type": "Person", "id": "https://offline.invalid/a", "name": "author"}}},
	{"type": "OrderedCollection", "id": "https://offline.invalid/col", "totalItems": 2, "orderedItems": []any{map[string]any{"type": "Note", "id": "https://offline.invalid/n", "content": "item"}, "https://offline.invalid/gone"},
		"first": map[string]any{"type": "OrderedCollectionPage", "orderedItems": []any{map[string]any{"type": "Person", "id": "https://offline.invalid/a", "name": "a"}}}},
}

var verifDeviations = []any{"<p>above</p><hr><p>below</p>", "a\n\n---\n\nb", nil, true, 0.0, -1.0, 1.5, 1e300, 18446744073709551616.0, "", "text", "\x1b[31m", "https://offline.invalid/x", "/relative", "http://[::1", "not a date", "text/plain", []any{}, []any{nil}, []any{"a", 1.0, map[string]any{}},
	map[string]any{}, map[string]any{"type": "Note"}, map[string]any{"type": "Person"}, map[string]any{"type": "Person", "name": "no id"}, map[string]any{"id": "https://offline.invalid/z"},
	map[string]any{"type": "Link"}, map[string]any{"type": "Link", "href": 7.0}, map[string]any{"type": "Collection", "items": "https://offline.invalid/single"}, map[string]any{"type": "Create"},
	map[string]any{"type": "Note", "id": "https://other.invalid/foreign", "content": "foreign"},
	/* several renditions of which a later one states its media type unusably (wrong JSON type, no media type at all) */
	[]any{map[string]any{"type": "Link", "href": "https://offline.invalid/r1", "mediaType": "image/png", "width": 10.0, "height": 10.0}, map[string]any{"type": "Link", "href": "https://offline.invalid/r2", "mediaType": 5.0}},
	[]any{map[string]any{"type": "Image", "url": "https://offline.invalid/r1", "mediaType": "image/png"}, map[string]any{"type": "Image", "url": "https://offline.invalid/r2", "mediaType": "garbage"}, map[string]any{"type": "Link", "href": "https://offline.invalid/r3", "mediaType": []any{"image/png"}}},
	/* post-like objects that are refused for another reason than their type: deleted, or written by somebody elsewhere */
	map[string]any{"type": "Tombstone", "id": "https://offline.invalid/gone", "formerType": "Note"},
	map[string]any{"type": "Tombstone", "formerType": "Note", "deleted": "2024-01-02T03:04:05Z"},
	map[string]any{"type": "Note", "id": "https://offline.invalid/n9", "content": "x", "attributedTo": map[string]any{"type": "Person", "id": "https://elsewhere.invalid/a", "name": "elsewhere"}}, []any{map[string]any{"type": "Person", "name": "first without id"}, map[string]any{"type": "Person", "id": "https://offline.invalid/a2", "name": "second"}}}

/* stress bodies: every nesting unit at the depth that keeps the document at a few kilobytes */
func verifStressBodies() [][2]string {
	bodies := [][2]string{}
	inner := "<i>" + strings.Repeat("y", 120) + "</i> tail"
	for _, unit := range []string{"<b>", "<b><i>", "<b><i><u><s><code><mark>", "<i><a href=\"https://x.example/y\">", "<blockquote>", "<blockquote>a<ul><li>",
		"<blockquote><h3><ul><li><b><code>", "<ul><li>x<ul><li>y", "<h2><blockquote>q", "<div><ul><li><blockquote>z ", "<pre>", "<h6>", "<pre><code>", "<span>", "<unknownx>",
		/* each heading level on its own (a block between them keeps the parser from closing them), lists, paragraphs */
		"<h1><div>", "<h2><div>", "<h3><div>", "<h4><div>", "<h5><div>", "<h6><div>", "<ul><li>", "<p><div>", "<li>", "<div>"} {
		depth := 6000 / len(unit)
		if depth > 1100 {
			depth = 1100
		}
		bodies = append(bodies, [2]string{strings.Repeat(unit, depth) + inner, "text/html"})
	}
	bodies = append(bodies, [2]string{strings.Repeat("> ", 1000) + "deep quote", "text/markdown"},
		[2]string{strings.Repeat("* ", 500) + "deep list\n\n" + strings.Repeat("**_", 300) + "styled" + strings.Repeat("_**", 300), "text/markdown"},
		[2]string{strings.Repeat("> * ", 400) + "mixed", "text/markdown"},
		[2]string{strings.Repeat("```\n", 500) + strings.Repeat("x", 3000), "text/gemini"},
		[2]string{strings.Repeat("=> https://x.example/ l\n", 250), "text/gemini"},
		[2]string{strings.Repeat("https://x.example/a ", 300), "text/plain"})
	return bodies
}

func verifSystematicCount() int {
	n := len(verifStressBodies()) + len(verifSkeletons)*len(verifTypes)
	for _, sk := range verifSkeletons {
		n += (len(sk) + 3) * len(verifDeviations)
	}
	return n
}

func verifSystematic(index int) (map[string]any, int, string) {
	if stress := verifStressBodies(); index < len(stress) {
		o := map[string]any{}
		for k, v := range verifSkeletons[0] {
			o[k] = v
		}
		o["content"], o["mediaType"] = stress[index][0], stress[index][1]
		return o, 0, "stress body " + verifkit.Clip(stress[index][0], 50) + fmt.Sprintf(" (%d bytes, %s)", len(stress[index][0]), stress[index][1])
	} else {
		index -= len(stress)
	}
	/* every skeleton under every type name of the vocabulary, through the constructor of its own kind and
	   (by the caller's choice) through New */
	if index < len(verifSkeletons)*len(verifTypes) {
		kind, typeName := index/len(verifTypes), verifTypes[index%len(verifTypes)]
		o := map[string]any{}
		for k, v := range verifSkeletons[kind] {
			o[k] = v
		}
		o["type"] = typeName
		return o, kind, fmt.Sprintf("skeleton %d, type := %q", kind, typeName)
	} else {
		index -= len(verifSkeletons) * len(verifTypes)
	}
	extraKeys := []string{"height", "width", "href"}
	for kind, sk := range verifSkeletons {
		keys := []string{}
		for k := range sk {
			keys = append(keys, k)
		}
		sort.Strings(keys)
		keys = append(keys, extraKeys...)
		span := len(keys) * len(verifDeviations)
		if index >= span {
			index -= span
			continue
		}
		key, dev := keys[index/len(verifDeviations)], verifDeviations[index%len(verifDeviations)]
		o := map[string]any{}
		for k, v := range sk {
			o[k] = v
		}
		if dev == nil && index%2 == 0 {
			delete(o, key)
		} else {
			o[key] = dev
		}
		return o, []int{0, 1, 2, 3}[kind], fmt.Sprintf("skeleton %d, %s := %v", kind, key, verifkit.Clip(fmt.Sprint(dev), 40))
	}
	return verifSkeletons[0], 0, "skeleton 0 unchanged"
}

func TestVerifRender(t *testing.T) {
	var in struct {
		From       int `json:"from"`
		Count      int `json:"count"`
		Systematic int `json:"systematic"`
		Only       int `json:"only"`
	}
	verifkit.In(&in)
	if in.Systematic < 0 || in.Systematic > verifSystematicCount() {
		in.Systematic = verifSystematicCount()
	}
	out := verifkit.Out()
	defer out.Close()
	out.Emit(verifkit.M{"ev": "meta", "systematic": verifSystematicCount()})
	jtp.VerifSetTimeout(500 * time.Millisecond)
	base := verifkit.Seed()
	for i := in.From; i < in.Count && (in.Only == 0 || i < in.From+in.Only); i++ {
		rng := rand.New(rand.NewSource(base*1000003 + int64(i)))
		o := verifObject(rng, 2+rng.Intn(3))
		kind := rng.Intn(6)
		alsoNew := false
		desc := fmt.Sprintf("type=%v keys=%d kind=%d", o["type"], len(o), kind)
		if i >= in.Count-in.Systematic {
			/* the last cases are the systematic single deviations */
			var what string
			o, kind, what = verifSystematic(i - (in.Count - in.Systematic))
			/* always through the constructor of its own kind; a third of them through New as well (below) */
			alsoNew = rng.Intn(3) == 0
			desc = what
		}
		if c, ok := o["content"].(string); ok {
			desc += " content=" + verifkit.Clip(c, 60) + fmt.Sprintf("(%d bytes, %v)", len(c), o["mediaType"])
		}
		/* the size of the document as a server would send it (json.Marshal would write < and > as six bytes each) */
		var encoded bytes.Buffer
		encoder := json.NewEncoder(&encoded)
		encoder.SetEscapeHTML(false)
		encoder.Encode(o)
		size0 := encoded.Len()
		out.Emit(verifkit.M{"ev": "begin", "i": i, "desc": desc})
		if path := os.Getenv("VERIF_PRINT"); path != "" {
			/* replay support: write the generated value instead of exercising it */
			data, _ := json.MarshalIndent(o, "", " ")
			os.WriteFile(path, data, 0o644)
			continue
		}
		verifSlowest, verifSlowestWhat = 0, ""
		verifWatchdog = time.AfterFunc(verifCallLimit, func() {
			out.Emit(verifkit.M{"ev": "render", "i": i, "outcome": "timeout", "ms": verifCallLimit.Milliseconds(), "size": 0, "desc": desc, "what": "a single call did not return", "total_ms": 0, "bytes": size0})
			/* where it is stuck, for the replay file */
			pprof.Lookup("goroutine").WriteTo(os.Stderr, 1)
			os.Exit(3)
		})
		watchdog := verifWatchdog
		start := time.Now()
		size := 0
		panicked, what := verifkit.Try(func() {
			id, _ := url.Parse("https://offline.invalid/x")
			var item any
			var err error
			switch kind {
			case 0:
				item, err = NewPostFromObject(object.Object(o), id)
			case 1:
				item, err = NewActorFromObject(object.Object(o), id)
			case 2:
				item, err = NewActivityFromObject(object.Object(o), nil)
			case 3:
				item, err = NewCollectionFromObject(object.Object(o), id, NewTangible)
			case 4:
				item = New(map[string]any(o), nil)
			default:
				var link *Link
				link, err = NewLink(map[string]any(o))
				if err == nil {
					link.Alt()
					link.Select()
					SelectBestLink([]*Link{link, link}, "image")
					SelectBestLink([]*Link{}, "image")
				}
			}
			if err != nil {
				item = NewFailure(err)
			}
			if ms := time.Since(start).Milliseconds(); ms > verifSlowest {
				verifSlowest, verifSlowestWhat = ms, "construction"
			}
			size = verifExercise(item)
			if alsoNew && kind != 4 {
				size += verifExercise(New(map[string]any(o), nil))
			}
		})
		watchdog.Stop()
		outcome := "ok"
		if panicked {
			outcome = "panic"
		}
		if !panicked {
			what = verifSlowestWhat
		}
		out.Emit(verifkit.M{"ev": "render", "i": i, "outcome": outcome, "ms": verifSlowest, "total_ms": time.Since(start).Milliseconds(), "size": size, "desc": desc, "what": verifkit.Clip(what, 200), "bytes": size0})
	}
}

/*
	Reading leaves the document as it is (C17, at the level of the constructors): every systematic object is built
	through the constructor of its kind and through New, exercised, and compared with what it was - documents are
	shared through the cache, a reader that rewrites one changes what every later reader sees.
*/
func TestVerifUnchanged(t *testing.T) {
	out := verifkit.Out()
	defer out.Close()
	jtp.VerifSetTimeout(300 * time.Millisecond)
	canon := func(v any) string {
		data, err := json.Marshal(v)
		if err != nil {
			return "unmarshalable"
		}
		return string(data)
	}
	for i := len(verifStressBodies()); i < verifSystematicCount(); i++ {
		o, kind, desc := verifSystematic(i)
		before := canon(o)
		id, _ := url.Parse("https://offline.invalid/x")
		panicked, what := verifkit.Try(func() {
			var item any
			var err error
			switch kind {
			case 0:
				item, err = NewPostFromObject(object.Object(o), id)
			case 1:
				item, err = NewActorFromObject(object.Object(o), id)
			case 2:
				item, err = NewActivityFromObject(object.Object(o), nil)
			case 3:
				item, err = NewCollectionFromObject(object.Object(o), id, NewTangible)
			default:
				item = New(map[string]any(o), nil)
			}
			if err == nil {
				verifExercise(item)
			}
		})
		ev := verifkit.M{"ev": "accessor", "acc": "GetAny", "class": "obj", "json": verifkit.Clip(desc, 80), "outcome": "value", "got": "", "want": "", "again": "",
			"panic": false, "mutated": canon(o) != before}
		if panicked {
			ev["what"] = what /* a crash is C06's matter; here only the document counts */
		}
		out.Emit(ev)
	}
}
