//go:build verif

package pub

import (
	"math"
	"runtime/debug"
	"fmt"
	"math/rand"
	"net/url"
	"os"
	"servitor/jtp"
	"servitor/mime"
	"servitor/verifkit"
	"servitor/verifsim"
	"testing"
	"time"
)

/*
	C10 driver: page layouts (from TLC and seeded random) realised either as one embedded JSON
	document or page by page on the simulator; the collection is harvested with the given
	request sizes, each call continuing where the previous one stopped.  Judged by T_Paging.tla.
*/

type verifTag struct{ tag []int }

func (verifTag) String(int) string                      { return "" }
func (verifTag) Preview(int) string                     { return "" }
func (verifTag) Parents(uint) ([]Tangible, Tangible)    { return nil, nil }
func (verifTag) Children() Container                    { return nil }
func (verifTag) Timestamp() time.Time                   { return time.Time{} }
func (verifTag) Name() string                           { return "" }
func (verifTag) SelectLink(int) (string, *mime.MediaType, bool) { return "", nil, false }

func verifConstructTag(input any, source *url.URL) Tangible {
	var p, i int
	if s, ok := input.(string); ok {
		if _, err := fmt.Sscanf(s, "p%di%d", &p, &i); err == nil {
			return verifTag{[]int{p, i}}
		}
	}
	return NewFailure(fmt.Errorf("unexpected item %v", input))
}

type verifPage struct {
	N    int `json:"n"`
	Next int `json:"next"`
}

type verifPagingIn struct {
	Pages []verifPage `json:"pages"`
	Sizes []uint      `json:"sizes"`
	/* set when a session is run again to see whether what it showed shows again: the choices the first run drew */
	Style    *int  `json:"style,omitempty"`
	Embedded *bool `json:"embedded_again,omitempty"`
}

func verifItems(p, n int) []any {
	items := make([]any, n)
	for i := range items {
		items[i] = fmt.Sprintf("p%di%d", p, i+1)
	}
	return items
}

func verifAcyclic(pages []verifPage) bool {
	for p, pg := range pages {
		if pg.Next == -1 || (pg.Next != 0 && pg.Next <= p+1) {
			return false
		}
	}
	return true
}

/* page p (1-based) as a JSON object; link renders the reference to another page */
func verifPageObject(rng *rand.Rand, pages []verifPage, p int, ordered bool, link func(q int) any, advisory func(q int) any) map[string]any {
	obj := map[string]any{}
	kind := "Collection"
	key := "items"
	if ordered {
		kind, key = "OrderedCollection", "orderedItems"
	}
	nextKey := "first"
	if p > 1 {
		kind += "Page"
		nextKey = "next"
	}
	obj["type"] = kind
	pg := pages[p-1]
	switch {
	case pg.N == 1 && rng.Intn(3) == 0:
		obj[key] = verifItems(p, 1)[0] /* a single value instead of a list */
	case pg.N > 0 || rng.Intn(3) == 0:
		obj[key] = verifItems(p, pg.N)
	case rng.Intn(2) == 0:
		obj[key] = nil /* "orderedItems": null - what a nil slice becomes in some servers: no items */
	}
	/* the key that does not belong to the kind (items on an ordered page, orderedItems on a plain one) holds nothing of the collection */
	if rng.Intn(4) == 0 {
		other := "orderedItems"
		if ordered {
			other = "items"
		}
		obj[other] = []any{fmt.Sprintf("p99i%d", p), "p99i0"}
	}
	/* totalItems is advisory: servers hide it, report 0, or let it go stale */
	switch rng.Intn(5) {
	case 0:
		obj["totalItems"] = 99
	case 1:
		obj["totalItems"] = 0
	case 2:
		obj["totalItems"] = pg.N
	}
	if pg.Next != 0 {
		obj[nextKey] = link(pg.Next)
	}
	/* links that say where else one could go but are no part of the forward walk: pages point back to the
	   first page, to their predecessor and to the collection they are part of; roots name their last page */
	if advisory != nil && rng.Intn(2) == 0 {
		if p > 1 {
			obj["partOf"] = advisory(1)
			obj["first"] = advisory(minInt(2, len(pages)))
			obj["prev"] = advisory(p - 1)
			if rng.Intn(2) == 0 {
				obj["last"] = advisory(len(pages))
			}
		} else {
			obj["last"] = advisory(len(pages))
			obj["current"] = advisory(1)
		}
	}
	return obj
}

func minInt(a, b int) int {
	if a < b {
		return a
	}
	return b
}

var verifLastStyle int

func verifRunPaging(out *verifkit.Trace, rng *rand.Rand, sim *verifsim.Sim, sid int, in verifPagingIn, extraCalls int) {
	ordered := rng.Intn(2) == 0
	embedded := verifAcyclic(in.Pages) && rng.Intn(2) == 0
	if in.Embedded != nil {
		embedded = *in.Embedded && verifAcyclic(in.Pages)
	}
	var root *Collection
	var err error
	jtp.VerifSetCache(64)
	sim.Reset()
	h := sim.Host("p1")
	/* said before anything is built: a process that dies while the collection is opened has said which one it was */
	pagesOut := make([]verifkit.M, len(in.Pages))
	for i, pg := range in.Pages {
		pagesOut[i] = verifkit.M{"n": pg.N, "next": pg.Next}
	}
	out.Emit(verifkit.M{"ev": "begin", "sid": sid, "pages": pagesOut, "sizes": in.Sizes, "embedded": embedded})
	if embedded {
		var build func(p int) any
		build = func(p int) any {
			return verifPageObject(rng, in.Pages, p, ordered, build, func(q int) any { return fmt.Sprintf("https://elsewhere.invalid/col/page%d", q) })
		}
		root, err = NewCollectionFromObject(build(1).(map[string]any), nil, verifConstructTag)
	} else {
		/* how the pages of a collection are addressed: own paths; one path with a query that has non-ASCII text in it;
		   cursors that differ in letter case only; or one canonical path with a page number, every page also reachable
		   under an alias that serves the same document (whose id names the canonical address), next links relative */
		style := rng.Intn(5)
		if in.Style != nil {
			style = *in.Style
		}
		verifLastStyle = style
		pagePath := func(p int) string {
			switch {
			case p == 1:
				return fmt.Sprintf("/col%d", sid)
			case style == 1:
				return fmt.Sprintf("/col%d/pages?tag=café日本&page=%d", sid, p)
			case style == 2:
				return fmt.Sprintf("/col%d/pages?max_id=9z%s%d", sid, []string{"AbQ", "abq", "aBq", "ABQ"}[p%4], p/4)
			case style == 3:
				return fmt.Sprintf("/col%d/c?page=%d", sid, p)
			}
			return fmt.Sprintf("/col%d/page%d", sid, p)
		}
		aliasPath := func(p int) string { return fmt.Sprintf("/col%d/alias%d", sid, p) }
		register := func(path string, raw []byte) {
			h.Set(path, &verifsim.Route{Raw: raw})
			/* the request target as a client writes it (non-ASCII escaped byte by byte) */
			if parsed, err := url.Parse(h.URL(path)); err == nil {
				escaped := ""
				for _, b := range []byte(parsed.RequestURI()) {
					if b >= 0x80 || b == ' ' {
						escaped += fmt.Sprintf("%%%02X", b)
					} else {
						escaped += string(b)
					}
				}
				if escaped != path {
					h.Set(escaped, &verifsim.Route{Raw: raw})
				}
			}
		}
		for p := range in.Pages {
			obj := verifPageObject(rng, in.Pages, p+1, ordered, func(q int) any {
				if q == -1 {
					return h.URL(fmt.Sprintf("/col%d/missing", sid))
				}
				/* a page is named by its address, or by a stub that only carries the address (and the type) */
				pageKind := "CollectionPage"
				if ordered {
					pageKind = "OrderedCollectionPage"
				}
				if style == 3 && q > 1 {
					/* from a page of the canonical path the next page is named relatively; from the root by a stub
					   that carries the alias */
					if p+1 > 1 {
						return fmt.Sprintf("?page=%d", q)
					}
					return map[string]any{"id": h.URL(aliasPath(q)), "type": pageKind}
				}
				switch rng.Intn(7) {
				case 0:
					return map[string]any{"id": h.URL(pagePath(q)), "type": pageKind}
				case 1:
					return map[string]any{"id": h.URL(pagePath(q))}
				case 2:
					if style == 0 && q > 1 {
						/* the page is named by an address that redirects to it with a Location relative to itself */
						hop := fmt.Sprintf("/col%d/hop%d", sid, q)
						h.Set(hop, &verifsim.Route{Raw: []byte(fmt.Sprintf("HTTP/1.1 302 Found\r\nLocation: page%d\r\n\r\n", q))})
						return h.URL(hop)
					}
				}
				return h.URL(pagePath(q))
			}, func(q int) any { return h.URL(pagePath(q)) })
			obj["id"] = h.URL(pagePath(p + 1))
			w := &verifsim.World{Sim: sim}
			raw := w.Render("p1"+pagePath(p+1), verifsim.Resp{Status: 200, Ct: []string{"activity"}, Body: "obj", JSON: obj}, rng)
			register(pagePath(p+1), raw)
			if style == 3 {
				register(aliasPath(p+1), raw)
			}
		}
		if rng.Intn(2) == 0 {
			/* a missing page may also be something that is not a collection at all */
			h.Set(fmt.Sprintf("/col%d/missing", sid), &verifsim.Route{Raw: []byte("HTTP/1.0 200 OK\r\nContent-Type: application/activity+json\r\n\r\n" +
				`{"id":"` + h.URL(fmt.Sprintf("/col%d/missing", sid)) + `","type":"Note","content":"not a page"}`)})
		}
		if style == 0 && sid%6 == 3 {
			/* the collection itself comes without an id (as a document that was opened, or an anonymous first page), and names its
			   next page by a stub that carries only the address and the type */
			pageKind := "CollectionPage"
			if ordered {
				pageKind = "OrderedCollectionPage"
			}
			anon := verifPageObject(rng, in.Pages, 1, ordered, func(q int) any {
				if q == -1 {
					return h.URL(fmt.Sprintf("/col%d/missing", sid))
				}
				return map[string]any{"id": h.URL(pagePath(q)), "type": pageKind}
			}, nil)
			delete(anon, "id")
			root, err = NewCollection(anon, nil, verifConstructTag)
		} else {
			root, err = NewCollection(h.URL(pagePath(1)), nil, verifConstructTag)
		}
	}
	ev := verifkit.M{"ev": "paging", "sid": sid, "pages": pagesOut, "embedded": embedded, "ordered": ordered, "panic": false}
	/* a session that does not finish is an observation too: the whole process is given up */
	watchdog := time.AfterFunc(6*time.Second, func() {
		out.Emit(verifkit.M{"ev": "hang", "sid": sid, "style": verifLastStyle})
		os.Exit(3)
	})
	defer watchdog.Stop()
	calls := []verifkit.M{}
	if err != nil {
		ev["panic"] = true
		ev["what"] = "root collection failed to build: " + err.Error()
		ev["calls"] = calls
		out.Emit(ev)
		return
	}
	var cont Container = root
	start := uint(0)
	/* a start offset of the caller's choosing on the first request (the statement quantifies over them): the first
	   page then counts from there - everything before the offset is skipped, an offset beyond its end skips the
	   whole page and nothing else.  Reported as the layout whose first page is shorter by what was skipped, items
	   renumbered; only where no page leads back to the first one. */
	skipped := 0
	backToFirst := false
	for _, pg := range in.Pages {
		backToFirst = backToFirst || pg.Next == 1
	}
	if !backToFirst && len(in.Pages) > 0 && (sid%4 == 1 || sid%7 == 3) {
		start = uint(1 + (sid/4)%(in.Pages[0].N+3))
		skipped = int(start)
		if skipped > in.Pages[0].N {
			skipped = in.Pages[0].N
		}
		pagesOut[0] = verifkit.M{"n": in.Pages[0].N - skipped, "next": in.Pages[0].Next}
		ev["start0"] = start
	}
	sizes := append([]uint{}, in.Sizes...)
	for k := 0; k < extraCalls; k++ {
		sizes = append(sizes, uint(rng.Intn(4)))
	}
	if sid%5 == 2 && verifAcyclic(in.Pages) {
		/* "everything that is left": a request size beyond any collection (on a chain that ends: on a cycle the
		   work a request may do grows with its size) */
		sizes = append(sizes, []uint{1 << 48, math.MaxInt}[(sid/5)%2])
	}
	for _, n := range sizes {
		if cont == nil {
			break
		}
		before := sim.ConnCount()
		var items []Tangible
		var next Container
		var nextStart uint
		n := n
		panicked, what := verifkit.Try(func() { items, next, nextStart = cont.Harvest(n, start) })
		if panicked {
			ev["panic"] = true
			ev["what"] = what
			break
		}
		tags := [][]int{}
		failed := false
		tail := 0
		for _, it := range items {
			switch x := it.(type) {
			case verifTag:
				if failed {
					tail++
				} else if skipped > 0 && len(x.tag) == 2 && x.tag[0] == 1 {
					/* item i of the first page is item i - skipped of the layout as reported (an item from before
					   the offset gets a number that is none) */
					tags = append(tags, []int{1, x.tag[1] - skipped})
				} else {
					tags = append(tags, x.tag)
				}
			default:
				if failed {
					tail++
				}
				failed = true
			}
		}
		reported := n
		if reported > 1000000 {
			reported = 1000000 /* (the judge counts in 32 bits; no layout here is that long) */
		}
		calls = append(calls, verifkit.M{"n": reported, "items": tags, "err": failed, "done": next == nil, "tail": tail,
			"visits": sim.ConnCount() - before})
		cont, start = next, nextStart
	}
	ev["calls"] = calls
	out.Emit(ev)
}

/*
	Two collections whose pages live under ONE path and differ in the query only, drained at the same time
	by two goroutines: each must come out as its own sequence.
*/
func verifRunPagingPair(out *verifkit.Trace, rng *rand.Rand, sim *verifsim.Sim, sid int) {
	jtp.VerifSetCache(64)
	sim.Reset()
	h := sim.Host("p1")
	layouts := [2][]verifPage{}
	for side := 0; side < 2; side++ {
		k := 2 + rng.Intn(4)
		for p := 0; p < k; p++ {
			next := p + 2
			if p == k-1 {
				next = 0
			}
			layouts[side] = append(layouts[side], verifPage{N: rng.Intn(4), Next: next})
		}
	}
	address := func(side, p int) string { return fmt.Sprintf("/pair%d?p=%d", sid, 100*side+p) }
	for side := 0; side < 2; side++ {
		for p := range layouts[side] {
			obj := verifPageObject(rng, layouts[side], p+1, true, func(q int) any { return h.URL(address(side, q)) }, nil)
			/* items carry their side so that a page handed to the wrong reader shows */
			if items, ok := obj["orderedItems"].([]any); ok {
				for i := range items {
					items[i] = fmt.Sprintf("p%di%d", 100*side+p+1, i+1)
				}
			} else if item, ok := obj["orderedItems"].(string); ok && item != "" {
				obj["orderedItems"] = fmt.Sprintf("p%di1", 100*side+p+1)
			}
			obj["id"] = h.URL(address(side, p+1))
			w := &verifsim.World{Sim: sim}
			raw := w.Render("p1"+address(side, p+1), verifsim.Resp{Status: 200, Ct: []string{"activity"}, Body: "obj", JSON: obj}, rng)
			h.Set(address(side, p+1), &verifsim.Route{Raw: raw, Delay: time.Duration(1+rng.Intn(3)) * time.Millisecond})
		}
	}
	type result struct {
		calls []verifkit.M
		pan   bool
		what  string
	}
	results := [2]result{}
	done := make(chan int, 2)
	for side := 0; side < 2; side++ {
		side := side
		go func() {
			defer func() { done <- side }()
			results[side].pan, results[side].what = verifkit.Try(func() {
				root, err := NewCollection(h.URL(address(side, 1)), nil, verifConstructTag)
				if err != nil {
					panic(err)
				}
				var cont Container = root
				start := uint(0)
				for cont != nil && len(results[side].calls) < 12 {
					n := uint(1 + rng.Intn(3))
					items, next, nextStart := cont.Harvest(n, start)
					tags := [][]int{}
					failed := false
					for _, it := range items {
						if x, ok := it.(verifTag); ok && !failed {
							/* back to the numbering of the layout: page = tag page - 100*side */
							tags = append(tags, []int{x.tag[0] - 100*side, x.tag[1]})
						} else {
							failed = true
						}
					}
					results[side].calls = append(results[side].calls, verifkit.M{"n": n, "items": tags, "err": failed, "done": next == nil, "tail": 0, "visits": 0})
					cont, start = next, nextStart
				}
			})
		}()
	}
	watchdog := time.After(10 * time.Second)
	for finished := 0; finished < 2; finished++ {
		select {
		case <-done:
		case <-watchdog:
			out.Emit(verifkit.M{"ev": "hang", "sid": sid})
			os.Exit(3)
		}
	}
	for side := 0; side < 2; side++ {
		pagesOut := make([]verifkit.M, len(layouts[side]))
		for i, pg := range layouts[side] {
			pagesOut[i] = verifkit.M{"n": pg.N, "next": pg.Next}
		}
		ev := verifkit.M{"ev": "paging", "sid": sid*10 + side, "pages": pagesOut, "embedded": false, "ordered": true, "panic": results[side].pan, "calls": results[side].calls, "pair": true}
		if results[side].pan {
			ev["what"] = results[side].what
		}
		out.Emit(ev)
	}
}

func verifRandomLayout(rng *rand.Rand) verifPagingIn {
	k := 1 + rng.Intn(9)
	pages := make([]verifPage, k)
	for p := range pages {
		n := 0
		if rng.Intn(5) > 1 {
			n = 1 + rng.Intn(4)
		}
		next := p + 2
		if p == k-1 {
			next = 0
		}
		switch rng.Intn(14) {
		case 0:
			next = -1
		case 1:
			next = 1 + rng.Intn(k) /* anywhere, back edges included */
		case 2:
			next = 0
		}
		pages[p] = verifPage{N: n, Next: next}
	}
	sizes := make([]uint, 1+rng.Intn(6))
	for i := range sizes {
		sizes[i] = uint(rng.Intn(7))
		if rng.Intn(6) == 0 {
			sizes[i] = uint(10 + rng.Intn(20))
		}
	}
	if rng.Intn(3) == 0 {
		/* requests that end exactly at page ends */
		for i := range sizes {
			if i < len(pages) && pages[i].N > 0 {
				sizes[i] = uint(pages[i].N)
			}
		}
	}
	return verifPagingIn{Pages: pages, Sizes: sizes}
}

func TestVerifPaging(t *testing.T) {
	var in struct {
		Sessions []verifPagingIn `json:"sessions"`
		Random   int             `json:"random"`
	}
	verifkit.In(&in)
	out := verifkit.Out()
	defer out.Close()
	sim := verifsim.Get()
	defer sim.Cleanup()
	rng := verifkit.Rand()
	jtp.VerifSetTimeout(3 * time.Second)
	/* a walk that calls itself without end shows as a crash within seconds, not as a gigabyte of stack */
	debug.SetMaxStack(48 << 20)
	sid := 0
	for _, s := range in.Sessions {
		sid++
		verifRunPaging(out, rng, sim, sid, s, 0)
	}
	for i := 0; i < in.Random; i++ {
		sid++
		verifRunPaging(out, rng, sim, sid, verifRandomLayout(rng), rng.Intn(3))
	}
	for i := 0; i < in.Random/3; i++ {
		sid++
		out.Emit(verifkit.M{"ev": "begin", "sid": sid, "pages": []verifkit.M{}, "sizes": []uint{}, "embedded": false})
		verifRunPagingPair(out, rng, sim, 100000+sid)
	}
}
