//go:build verif

package feed

import (
	"servitor/mime"
	"servitor/pub"
	"servitor/verifkit"
	"testing"
	"time"
)

/* a tagged stand-in for pub.Tangible; the feed never looks inside its items */
type verifItem int

func (verifItem) String(int) string                            { return "" }
func (verifItem) Preview(int) string                           { return "" }
func (verifItem) Parents(uint) ([]pub.Tangible, pub.Tangible) { return nil, nil }
func (verifItem) Children() pub.Container                      { return nil }
func (verifItem) Timestamp() time.Time                         { return time.Time{} }
func (verifItem) Name() string                                 { return "" }
func (verifItem) SelectLink(int) (string, *mime.MediaType, bool) {
	return "", nil, false
}

type verifOp struct {
	Op string `json:"op"`
	K  int    `json:"k"`
}

func verifTag(x pub.Tangible) int {
	if x == nil {
		return -1
	}
	return int(x.(verifItem))
}

func verifObserve(f *Feed) verifkit.M {
	contains := make([]bool, 9)
	get := make([]int, 9)
	parent := make([]bool, 9)
	child := make([]bool, 9)
	for i := 0; i < 9; i++ {
		off := i - 4
		contains[i] = f.Contains(off)
		parent[i] = f.IsParent(off)
		child[i] = f.IsChild(off)
		get[i] = -1
		/* outside the contents Get may panic or return nothing; inside it must answer */
		panicked, _ := verifkit.Try(func() { get[i] = verifTag(f.Get(off)) })
		if panicked && contains[i] {
			get[i] = -2
		}
	}
	return verifkit.M{"contains": contains, "get": get, "parent": parent, "child": child,
		"current": verifTag(f.Current())}
}

func verifSession(out *verifkit.Trace, sid int, ops []verifOp) {
	verifSessionPool(out, sid, ops, 0)
}

/* pool > 0: the items come from a pool of that many (so that the same item is handed over again and again, also twice
   in a row and right after itself) */
func verifSessionPool(out *verifkit.Trace, sid int, ops []verifOp, pool int) {
	out.Emit(verifkit.M{"ev": "reset", "sid": sid, "kind": "feed"})
	var f *Feed
	next := 1
	var lastTags []int
	fresh := func(k int) []pub.Tangible {
		items := make([]pub.Tangible, k)
		lastTags = make([]int, k)
		for i := range items {
			tag := next
			if pool > 0 {
				tag = 1 + (next*7/3)%pool
			}
			items[i] = verifItem(tag)
			lastTags[i] = tag
			next++
		}
		return items
	}
	for _, op := range ops {
		var obs verifkit.M
		panicked, _ := verifkit.Try(func() {
			switch op.Op {
			case "create":
				f = Create(fresh(1)[0])
			case "createlist":
				f = CreateAndAppend(fresh(op.K))
			case "append":
				f.Append(fresh(op.K))
			case "prepend":
				f.Prepend(fresh(op.K))
			case "up":
				f.MoveUp()
			case "down":
				f.MoveDown()
			case "center":
				f.MoveToCenter()
			}
			obs = verifObserve(f)
		})
		if panicked {
			obs = verifkit.M{}
		}
		ev := verifkit.M{"ev": "f_op", "op": op.Op, "k": op.K, "obs": obs, "panic": panicked}
		if pool > 0 && (op.Op == "append" || op.Op == "prepend" || op.Op == "createlist") {
			ev["tags"] = lastTags
		}
		out.Emit(ev)
		if panicked {
			return
		}
	}
}

func TestVerifFeed(t *testing.T) {
	var in struct {
		Sessions [][]verifOp `json:"sessions"`
		Random   int         `json:"random"`
		MaxLen   int         `json:"maxlen"`
		Long     []int       `json:"long"`
	}
	verifkit.In(&in)
	out := verifkit.Out()
	defer out.Close()
	sid := 0
	for _, s := range in.Sessions {
		sid++
		verifSession(out, sid, s)
	}
	rng := verifkit.Rand()
	names := []string{"append", "prepend", "up", "down", "center", "up", "down"}
	for i := 0; i < in.Random; i++ {
		n := 1 + rng.Intn(in.MaxLen)
		ops := make([]verifOp, n)
		if rng.Intn(2) == 0 {
			ops[0] = verifOp{Op: "create", K: 1}
		} else {
			ops[0] = verifOp{Op: "createlist", K: rng.Intn(5)}
		}
		for j := 1; j < n; j++ {
			ops[j].Op = names[rng.Intn(len(names))]
			if ops[j].Op == "append" || ops[j].Op == "prepend" {
				ops[j].K = rng.Intn(5)
			}
		}
		sid++
		if i%4 == 3 && ops[0].Op == "createlist" {
			verifSessionPool(out, sid, ops, 1+i%3)
		} else {
			verifSession(out, sid, ops)
		}
	}
	/* long threads and timelines: n chunks appended, walked to the last item and back, as many prepended, walked to
	   the first item, back to the centre */
	for _, n := range in.Long {
		for _, first := range []verifOp{{Op: "create", K: 1}, {Op: "createlist", K: 3}} {
			ops := []verifOp{first}
			total := 0
			for i := 0; i < n; i++ {
				k := 1 + i%3
				ops = append(ops, verifOp{Op: "append", K: k})
				total += k
			}
			rep := func(op string, k int) {
				for i := 0; i < k; i++ {
					ops = append(ops, verifOp{Op: op})
				}
			}
			rep("down", total+5)
			rep("up", total+8)
			for i := 0; i < n; i++ {
				ops = append(ops, verifOp{Op: "prepend", K: 1 + (i+1)%3})
			}
			rep("up", total+5)
			rep("center", 1)
			rep("down", 3)
			sid++
			verifSession(out, sid, ops)
		}
	}
}
