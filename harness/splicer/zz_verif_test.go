//go:build verif

package splicer

import (
	"encoding/json"
	"fmt"
	"math/rand"
	"regexp"
	"servitor/jtp"
	"servitor/mime"
	"servitor/pub"
	"servitor/verifkit"
	"servitor/verifsim"
	"sync"
	"testing"
	"time"
)

/*
	C11 driver: a Splicer is built (in-package) over synthetic paged sources with exact control of
	timestamps; a tree of Harvest calls is made following the UI's own protocol (a continuation
	is used iff it compares non-nil).  Judged by T_Splice.tla.
*/

type verifItem struct{ s, k, ts int }

func (verifItem) String(int) string                            { return "" }
func (verifItem) Preview(int) string                           { return "" }
func (verifItem) Parents(uint) ([]pub.Tangible, pub.Tangible) { return nil, nil }
func (verifItem) Children() pub.Container                      { return nil }
func (verifItem) Name() string                                 { return "" }
func (verifItem) SelectLink(int) (string, *mime.MediaType, bool) {
	return "", nil, false
}
func (v verifItem) Timestamp() time.Time {
	if v.ts == 0 {
		return time.Time{}
	}
	return time.Date(2024, 1, 1, v.ts, 0, 0, 0, time.UTC)
}

/* a paged source honouring the Container contract */
type verifSource struct {
	items []pub.Tangible
	page  int // at most this many per call (servers page their collections)
	slow  bool
}

func (s *verifSource) Harvest(quantity uint, start uint) ([]pub.Tangible, pub.Container, uint) {
	if s.slow {
		time.Sleep(300 * time.Microsecond)
	}
	if int(start) >= len(s.items) {
		return []pub.Tangible{}, nil, 0
	}
	end := int(start) + int(quantity)
	if end > len(s.items) {
		end = len(s.items)
	}
	out := make([]pub.Tangible, end-int(start))
	copy(out, s.items[start:end])
	if end == len(s.items) {
		return out, nil, 0
	}
	return out, s, uint(end)
}

type verifCall struct {
	On    int  `json:"on"`
	Q     uint `json:"q"`
	Start uint `json:"start"`
}

type verifSession struct {
	Sources [][]int     `json:"sources"`
	Failed  []int       `json:"failed"`
	Calls   []verifCall `json:"calls"`
}

func verifRun(out *verifkit.Trace, sid int, in verifSession) { verifRunTwice(out, sid, in, false) }

/* twice: every call is made by two goroutines at the same time on the same continuation (a Splicer value is
   immutable, so both must get the same, correct answer and both continuations must be good) */
func verifRunTwice(out *verifkit.Trace, sid int, in verifSession, twice bool) {
	out.Emit(verifkit.M{"ev": "reset", "sid": sid, "sources": in.Sources, "failed": in.Failed, "twice": twice})
	s := make(Splicer, len(in.Sources))
	for i, tss := range in.Sources {
		items := make([]pub.Tangible, len(tss))
		for k, ts := range tss {
			items[k] = verifItem{i + 1, k + 1, ts}
		}
		s[i].elements = []pub.Tangible{}
		s[i].page = &verifSource{items: items, slow: twice}
		for _, f := range in.Failed {
			if f == i+1 {
				s[i].page = nil
			}
		}
	}
	conts := []pub.Container{&s}
	for _, c := range in.Calls {
		if c.On < 1 || c.On > len(conts) {
			continue
		}
		cont := conts[c.On-1]
		type answer struct {
			items    []pub.Tangible
			next     pub.Container
			panicked bool
			what     string
		}
		askers := 1
		if twice {
			askers = 2
		}
		answers := make([]answer, askers)
		var wg sync.WaitGroup
		for a := range answers {
			a := a
			wg.Add(1)
			go func() {
				defer wg.Done()
				answers[a].panicked, answers[a].what = verifkit.Try(func() { answers[a].items, answers[a].next, _ = cont.Harvest(c.Q, c.Start) })
			}()
		}
		wg.Wait()
		stop := false
		for _, ans := range answers {
			tags := [][]int{}
			for _, it := range ans.items {
				if v, ok := it.(verifItem); ok {
					tags = append(tags, []int{v.s, v.k, v.ts})
				} else {
					tags = append(tags, []int{0, 0, 0})
				}
			}
			ev := verifkit.M{"ev": "call", "on": c.On, "q": c.Q, "start": c.Start, "items": tags, "done": ans.next == nil, "panic": ans.panicked}
			if ans.panicked {
				ev["what"] = ans.what
				stop = true
			}
			out.Emit(ev)
			/* exactly what ui does: the continuation is kept and used iff it is not nil */
			if ans.next != nil {
				conts = append(conts, ans.next)
			}
		}
		if stop {
			return
		}
	}
}

var verifNameRe = regexp.MustCompile(`s([0-9]+)k([0-9]+)t([0-9]+)`)
var verifSGRe = regexp.MustCompile("\x1b\\[[0-9;]*m")

/*
	The same session through NewSplicer: every source is a paged collection served by the simulator
	(a failed source: an address that cannot be fetched), fetched side by side with random latencies -
	the source listed first is often the slowest.  The order in which the fetches complete must not
	show in the feed.
*/
func verifRunServed(out *verifkit.Trace, sim *verifsim.Sim, rng *rand.Rand, sid int, in verifSession) {
	/* one source, some of the time, has a second page that cannot be fetched: what it contributes is its first page
	   and then one failure entry (undated, so it sorts last) - once, after which the source is exhausted */
	broken, breakAt := -1, 0
	if rng.Intn(3) == 0 {
		candidates := []int{}
		for i, tss := range in.Sources {
			isFailed := false
			for _, f := range in.Failed {
				isFailed = isFailed || f == i+1
			}
			if len(tss) >= 2 && !isFailed {
				candidates = append(candidates, i)
			}
		}
		if len(candidates) > 0 {
			broken = candidates[rng.Intn(len(candidates))]
			breakAt = 1 + rng.Intn(len(in.Sources[broken])-1)
			copied := make([][]int, len(in.Sources))
			copy(copied, in.Sources)
			copied[broken] = append(append([]int{}, in.Sources[broken][:breakAt]...), 0)
			in.Sources = copied
		}
	}
	out.Emit(verifkit.M{"ev": "reset", "sid": sid, "sources": in.Sources, "failed": in.Failed, "served": true})
	sim.Reset()
	jtp.VerifSetCache(64)
	hosts := []*verifsim.Host{sim.Host("f1"), sim.Host("f2")}
	serve := func(h *verifsim.Host, target string, doc map[string]any, delay time.Duration) {
		doc["id"] = h.URL(target)
		data, _ := json.Marshal(doc)
		h.Set(target, &verifsim.Route{Raw: []byte("HTTP/1.1 200 OK\r\nContent-Type: application/activity+json\r\n\r\n" + string(data)), Delay: delay})
	}
	inputs := make([]string, len(in.Sources))
	for i, tss := range in.Sources {
		h := hosts[i%2]
		root := fmt.Sprintf("/feed%d/src%d", sid, i+1)
		inputs[i] = h.URL(root)
		failed := false
		for _, f := range in.Failed {
			failed = failed || f == i+1
		}
		if i == broken {
			/* first page with the items before the break, then a link that leads nowhere */
			items := []any{}
			for k := 0; k < breakAt; k++ {
				note := map[string]any{"id": h.URL(fmt.Sprintf("%s/n%d", root, k+1)), "type": "Note", "name": fmt.Sprintf("s%dk%dt%d", i+1, k+1, tss[k]), "content": "<p>x</p>"}
				if tss[k] != 0 {
					note["published"] = fmt.Sprintf("2024-01-01T%02d:00:00Z", tss[k])
				}
				items = append(items, note)
			}
			serve(h, root+"?page=1", map[string]any{"type": "OrderedCollectionPage", "orderedItems": items, "next": h.URL(root + "?page=gone")}, 0)
			serve(h, root, map[string]any{"type": "OrderedCollection", "totalItems": len(tss), "first": h.URL(root + "?page=1")}, 0)
			continue
		}
		/* a source is a collection, or an actor listed by its address (then the feed takes the actor's outbox) */
		asActor := rng.Intn(2) == 0
		actorURL := h.URL(root + "/actor")
		if failed {
			switch rng.Intn(3) {
			case 0: /* an actor without an outbox */
				serve(h, root+"/actor", map[string]any{"type": "Person", "name": "quiet", "preferredUsername": "quiet"}, 0)
				inputs[i] = actorURL
			case 1: /* an actor whose outbox cannot be fetched */
				serve(h, root+"/actor", map[string]any{"type": "Person", "name": "broken", "preferredUsername": "broken", "outbox": h.URL(root + "/missing")}, 0)
				inputs[i] = actorURL
			}
			continue /* otherwise nothing is served there: 404 */
		}
		items := make([]any, len(tss))
		for k, ts := range tss {
			note := map[string]any{"id": h.URL(fmt.Sprintf("%s/n%d", root, k+1)), "type": "Note", "name": fmt.Sprintf("s%dk%dt%d", i+1, k+1, ts), "content": "<p>x</p>"}
			if ts != 0 {
				note["published"] = fmt.Sprintf("2024-01-01T%02d:00:00Z", ts)
			}
			items[k] = note
			if asActor {
				/* an outbox holds activities of its actor */
				act := map[string]any{"id": h.URL(fmt.Sprintf("%s/a%d", root, k+1)), "type": "Create", "actor": actorURL, "object": note}
				if ts != 0 {
					act["published"] = note["published"]
				}
				items[k] = act
			}
		}
		if asActor {
			serve(h, root+"/actor", map[string]any{"type": "Person", "name": "src", "preferredUsername": "src", "outbox": h.URL(root)}, 0)
			inputs[i] = actorURL
		}
		/* the listed-first source answers last more often than not */
		delay := time.Duration(rng.Intn(8)) * time.Millisecond
		if i == 0 && rng.Intn(3) > 0 {
			delay = time.Duration(25+rng.Intn(30)) * time.Millisecond
		}
		split := len(items)
		if len(items) > 1 && rng.Intn(2) == 0 {
			split = 1 + rng.Intn(len(items)-1)
		}
		doc := map[string]any{"type": "OrderedCollection", "totalItems": len(items)}
		/* the count a collection states is advisory: servers hide it, leave it at 0 or let it go stale */
		switch rng.Intn(4) {
		case 0:
			doc["totalItems"] = 0
		case 1:
			doc["totalItems"] = 99
		case 2:
			delete(doc, "totalItems")
		}
		if len(items) >= 2 && rng.Intn(3) == 0 {
			/* one item to a page, and one or two empty pages between them (never more than three empty ones in a
			   row, the collection itself included): a source like any other */
			doc["first"] = h.URL(root + "?page=1")
			page := 1
			for k := range items {
				this := map[string]any{"type": "OrderedCollectionPage", "orderedItems": []any{items[k]}}
				at := page
				page++
				if k < len(items)-1 {
					this["next"] = h.URL(fmt.Sprintf("%s?page=%d", root, page))
					for e := 1 + rng.Intn(2); e > 0; e-- {
						empty := map[string]any{"type": "OrderedCollectionPage", "next": h.URL(fmt.Sprintf("%s?page=%d", root, page+1))}
						if rng.Intn(2) == 0 {
							empty["orderedItems"] = []any{}
						}
						serve(h, fmt.Sprintf("%s?page=%d", root, page), empty, 0)
						page++
					}
				}
				serve(h, fmt.Sprintf("%s?page=%d", root, at), this, 0)
			}
		} else if split == len(items) && rng.Intn(2) == 0 {
			doc["orderedItems"] = items
		} else if split < len(items) && rng.Intn(3) == 0 {
			/* the first items on the collection itself, the rest on a page behind `first` */
			doc["orderedItems"] = items[:split]
			doc["first"] = h.URL(root + "?page=1")
			serve(h, root+"?page=1", map[string]any{"type": "OrderedCollectionPage", "orderedItems": items[split:], "partOf": h.URL(root)}, 0)
		} else {
			doc["first"] = h.URL(root + "?page=1")
			page1 := map[string]any{"type": "OrderedCollectionPage", "orderedItems": items[:split]}
			if split < len(items) {
				page1["next"] = h.URL(root + "?page=2")
				page2 := map[string]any{"type": "OrderedCollectionPage", "orderedItems": items[split:]}
				if rng.Intn(2) == 0 {
					/* pages say where the collection begins and which one came before: no part of the walk */
					page2["first"], page2["prev"], page2["partOf"] = h.URL(root+"?page=1"), h.URL(root+"?page=1"), h.URL(root)
					page1["first"], page1["partOf"] = h.URL(root+"?page=1"), h.URL(root)
				}
				serve(h, root+"?page=2", page2, 0)
			}
			serve(h, root+"?page=1", page1, 0)
		}
		serve(h, root, doc, delay)
	}
	var sp *Splicer
	if panicked, what := verifkit.Try(func() { sp = NewSplicer(inputs) }); panicked {
		out.Emit(verifkit.M{"ev": "call", "on": 1, "q": 0, "start": 0, "items": [][]int{}, "done": false, "panic": true, "what": "NewSplicer: " + what})
		return
	}
	conts := []pub.Container{sp}
	for _, c := range in.Calls {
		if c.On < 1 || c.On > len(conts) {
			continue
		}
		cont := conts[c.On-1]
		var items []pub.Tangible
		var next pub.Container
		panicked, what := verifkit.Try(func() { items, next, _ = cont.Harvest(c.Q, c.Start) })
		tags := [][]int{}
		for _, it := range items {
			var a, b, ts int
			if _, isFailure := it.(*pub.Failure); isFailure && broken >= 0 {
				/* the failure entry of the source whose second page is gone */
				a, b, ts = broken+1, breakAt+1, 0
			} else if m := verifNameRe.FindStringSubmatch(verifSGRe.ReplaceAllString(it.Name(), "")); m != nil {
				fmt.Sscanf(m[1], "%d", &a)
				fmt.Sscanf(m[2], "%d", &b)
				fmt.Sscanf(m[3], "%d", &ts)
			}
			tags = append(tags, []int{a, b, ts})
		}
		ev := verifkit.M{"ev": "call", "on": c.On, "q": c.Q, "start": c.Start, "items": tags, "done": next == nil, "panic": panicked}
		if panicked {
			ev["what"] = what
		}
		out.Emit(ev)
		if panicked {
			return
		}
		if next != nil {
			conts = append(conts, next)
		}
	}
}

func verifRandom(rng *rand.Rand) verifSession {
	var s verifSession
	n := 1 + rng.Intn(5)
	for i := 0; i < n; i++ {
		k := rng.Intn(9)
		tss := make([]int, k)
		ts := 1 + rng.Intn(20)
		for j := range tss {
			switch rng.Intn(6) {
			case 0:
				tss[j] = 0
			case 1:
				tss[j] = 1 + rng.Intn(23) /* unsorted */
			default:
				tss[j] = ts
				if ts > 1 && rng.Intn(3) > 0 {
					ts--
				}
			}
		}
		s.Sources = append(s.Sources, tss)
		if k == 0 && rng.Intn(2) == 0 {
			s.Failed = append(s.Failed, i+1)
		}
	}
	if s.Failed == nil {
		s.Failed = []int{}
	}
	conts := 1
	for c := 2 + rng.Intn(8); c > 0; c-- {
		on := conts
		if rng.Intn(4) == 0 {
			on = 1 + rng.Intn(conts)
		}
		call := verifCall{On: on, Q: uint(rng.Intn(7)), Start: 0}
		if rng.Intn(5) == 0 {
			call.Start = uint(rng.Intn(3))
		}
		s.Calls = append(s.Calls, call)
		conts++
	}
	return s
}

func TestVerifSplice(t *testing.T) {
	var in struct {
		Sessions []verifSession `json:"sessions"`
		Random   int            `json:"random"`
		Served   int            `json:"served"`
	}
	verifkit.In(&in)
	if in.Served < 1 {
		in.Served = 1
	}
	out := verifkit.Out()
	defer out.Close()
	sid := 0
	for _, s := range in.Sessions {
		sid++
		verifRun(out, sid, s)
	}
	rng := verifkit.Rand()
	for i := 0; i < in.Random; i++ {
		sid++
		verifRun(out, sid, verifRandom(rng))
	}
	/* a share of the sessions with every call made twice at the same time */
	for i := 0; i < len(in.Sessions); i += 1 + len(in.Sessions)/(2*in.Served) {
		sid++
		verifRunTwice(out, sid, in.Sessions[i], true)
	}
	for i := 0; i < in.Served; i++ {
		sid++
		verifRunTwice(out, sid, verifRandom(rng), true)
	}
	/* a share of the sessions again through NewSplicer over served collections */
	sim := verifsim.Get()
	defer sim.Cleanup()
	jtp.VerifSetTimeout(3 * time.Second)
	stride := 1 + len(in.Sessions)/in.Served
	for i := 0; i < len(in.Sessions); i += stride {
		sid++
		verifRunServed(out, sim, rng, sid, in.Sessions[i])
	}
	for i := 0; i < in.Served/2; i++ {
		sid++
		s := verifRandom(rng)
		/* ties between sources are what matters here */
		for a := range s.Sources {
			for b := range s.Sources[a] {
				if s.Sources[a][b] != 0 {
					s.Sources[a][b] = 1 + s.Sources[a][b]%3
				}
			}
		}
		verifRunServed(out, sim, rng, sid, s)
	}
}
