//go:build verif

package splicer

import (
	"math/rand"
	"servitor/mime"
	"servitor/pub"
	"servitor/verifkit"
	"testing"
	"time"
)

/*
	C11 driver: a Splicer is built (in-package) over synthetic paged sources with exact control of
	timestamps; a tree of Harvest calls is made following the UI's own protocol (a continuation
	is used iff it compares non-nil).  Judged by T_Splice.tla.
*/

type verifItem struct{ s, k, ts int }

func (verifItem) String(int) string                            { return "" }
func (verifItem) Preview(int) string                           { return "" }
func (verifItem) Parents(uint) ([]pub.Tangible, pub.Tangible) { return nil, nil }
func (verifItem) Children() pub.Container                      { return nil }
func (verifItem) Name() string                                 { return "" }
func (verifItem) SelectLink(int) (string, *mime.MediaType, bool) {
	return "", nil, false
}
func (v verifItem) Timestamp() time.Time {
	if v.ts == 0 {
		return time.Time{}
	}
	return time.Date(2024, 1, 1, v.ts, 0, 0, 0, time.UTC)
}

/* a paged source honouring the Container contract */
type verifSource struct {
	items []pub.Tangible
	page  int // at most this many per call (servers page their collections)
}

func (s *verifSource) Harvest(quantity uint, start uint) ([]pub.Tangible, pub.Container, uint) {
	if int(start) >= len(s.items) {
		return []pub.Tangible{}, nil, 0
	}
	end := int(start) + int(quantity)
	if end > len(s.items) {
		end = len(s.items)
	}
	out := make([]pub.Tangible, end-int(start))
	copy(out, s.items[start:end])
	if end == len(s.items) {
		return out, nil, 0
	}
	return out, s, uint(end)
}

type verifCall struct {
	On    int  `json:"on"`
	Q     uint `json:"q"`
	Start uint `json:"start"`
}

type verifSession struct {
	Sources [][]int     `json:"sources"`
	Failed  []int       `json:"failed"`
	Calls   []verifCall `json:"calls"`
}

func verifRun(out *verifkit.Trace, sid int, in verifSession) {
	out.Emit(verifkit.M{"ev": "reset", "sid": sid, "sources": in.Sources, "failed": in.Failed})
	s := make(Splicer, len(in.Sources))
	for i, tss := range in.Sources {
		items := make([]pub.Tangible, len(tss))
		for k, ts := range tss {
			items[k] = verifItem{i + 1, k + 1, ts}
		}
		s[i].elements = []pub.Tangible{}
		s[i].page = &verifSource{items: items}
		for _, f := range in.Failed {
			if f == i+1 {
				s[i].page = nil
			}
		}
	}
	conts := []pub.Container{&s}
	for _, c := range in.Calls {
		if c.On < 1 || c.On > len(conts) {
			continue
		}
		cont := conts[c.On-1]
		var items []pub.Tangible
		var next pub.Container
		panicked, what := verifkit.Try(func() { items, next, _ = cont.Harvest(c.Q, c.Start) })
		tags := [][]int{}
		for _, it := range items {
			if v, ok := it.(verifItem); ok {
				tags = append(tags, []int{v.s, v.k, v.ts})
			} else {
				tags = append(tags, []int{0, 0, 0})
			}
		}
		ev := verifkit.M{"ev": "call", "on": c.On, "q": c.Q, "start": c.Start, "items": tags, "done": next == nil, "panic": panicked}
		if panicked {
			ev["what"] = what
		}
		out.Emit(ev)
		if panicked {
			return
		}
		/* exactly what ui does: the continuation is kept and used iff it is not nil */
		if next != nil {
			conts = append(conts, next)
		}
	}
}

func verifRandom(rng *rand.Rand) verifSession {
	var s verifSession
	n := 1 + rng.Intn(5)
	for i := 0; i < n; i++ {
		k := rng.Intn(9)
		tss := make([]int, k)
		ts := 1 + rng.Intn(20)
		for j := range tss {
			switch rng.Intn(6) {
			case 0:
				tss[j] = 0
			case 1:
				tss[j] = 1 + rng.Intn(23) /* unsorted */
			default:
				tss[j] = ts
				if ts > 1 && rng.Intn(3) > 0 {
					ts--
				}
			}
		}
		s.Sources = append(s.Sources, tss)
		if k == 0 && rng.Intn(2) == 0 {
			s.Failed = append(s.Failed, i+1)
		}
	}
	if s.Failed == nil {
		s.Failed = []int{}
	}
	conts := 1
	for c := 2 + rng.Intn(8); c > 0; c-- {
		on := conts
		if rng.Intn(4) == 0 {
			on = 1 + rng.Intn(conts)
		}
		call := verifCall{On: on, Q: uint(rng.Intn(7)), Start: 0}
		if rng.Intn(5) == 0 {
			call.Start = uint(rng.Intn(3))
		}
		s.Calls = append(s.Calls, call)
		conts++
	}
	return s
}

func TestVerifSplice(t *testing.T) {
	var in struct {
		Sessions []verifSession `json:"sessions"`
		Random   int            `json:"random"`
	}
	verifkit.In(&in)
	out := verifkit.Out()
	defer out.Close()
	sid := 0
	for _, s := range in.Sessions {
		sid++
		verifRun(out, sid, s)
	}
	rng := verifkit.Rand()
	for i := 0; i < in.Random; i++ {
		sid++
		verifRun(out, sid, verifRandom(rng))
	}
}
