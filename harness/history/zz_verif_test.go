//go:build verif

package history

import (
	"servitor/verifkit"
	"testing"
)

type verifOp struct {
	Op string `json:"op"`
	V  int    `json:"v"`
}

/* projection through the public API only: walk a copy to both ends */
func verifObserve(h *History[int]) verifkit.M {
	obs := verifkit.M{"empty": h.IsEmpty(), "current": -1, "elems": []int{}, "idx": 0}
	if h.IsEmpty() {
		return obs
	}
	obs["current"] = h.Current()
	probe := *h
	back := 0
	for {
		before := probe.Current()
		probe.Back()
		/* elements are distinct tags, so an unchanged Current means saturation */
		if probe.Current() == before {
			break
		}
		back++
		if back > 100000 {
			panic("Back does not saturate")
		}
	}
	elems := []int{probe.Current()}
	for {
		before := probe.Current()
		probe.Forward()
		if probe.Current() == before {
			break
		}
		elems = append(elems, probe.Current())
		if len(elems) > 100000 {
			panic("Forward does not saturate")
		}
	}
	obs["elems"] = elems
	obs["idx"] = back + 1
	return obs
}

/* with equal elements next to each other the walk through the public operations cannot tell positions apart:
   such sessions are observed through the fields (this file is part of the package) */
func verifObserveFields(h *History[int]) verifkit.M {
	obs := verifkit.M{"empty": h.IsEmpty(), "current": -1, "elems": []int{}, "idx": 0}
	if h.IsEmpty() {
		return obs
	}
	obs["current"] = h.Current()
	obs["elems"] = append([]int{}, h.elements...)
	obs["idx"] = h.index + 1
	return obs
}

func verifSession(out *verifkit.Trace, sid int, ops []verifOp) {
	out.Emit(verifkit.M{"ev": "reset", "sid": sid, "kind": "history"})
	h := History[int]{}
	next := 1
	equalNeighbours := false
	for _, op := range ops {
		equalNeighbours = equalNeighbours || op.Op == "readd"
	}
	for _, op := range ops {
		var obs verifkit.M
		panicked, _ := verifkit.Try(func() {
			switch op.Op {
			case "readd":
				/* the page that is shown is opened once more: an entry like any other */
				if h.IsEmpty() {
					h.Add(0)
				} else {
					h.Add(h.Current())
				}
			case "add":
				h.Add(next)
			case "back":
				h.Back()
			case "forward":
				h.Forward()
			}
			if equalNeighbours {
				obs = verifObserveFields(&h)
			} else {
				obs = verifObserve(&h)
			}
		})
		if op.Op == "add" {
			next++
		}
		if panicked {
			obs = verifkit.M{}
		}
		out.Emit(verifkit.M{"ev": "h_op", "op": op.Op, "obs": obs, "panic": panicked})
		if panicked {
			return
		}
	}
}

func TestVerifHistory(t *testing.T) {
	var in struct {
		Sessions [][]verifOp `json:"sessions"`
		Random   int         `json:"random"`
		MaxLen   int         `json:"maxlen"`
		Long     []int       `json:"long"`
	}
	verifkit.In(&in)
	out := verifkit.Out()
	defer out.Close()
	sid := 0
	for _, s := range in.Sessions {
		sid++
		verifSession(out, sid, s)
	}
	rng := verifkit.Rand()
	names := []string{"add", "back", "forward", "back", "forward", "add", "back", "forward", "back", "forward", "readd"}
	for i := 0; i < in.Random; i++ {
		n := 1 + rng.Intn(in.MaxLen)
		ops := make([]verifOp, n)
		for j := range ops {
			ops[j].Op = names[rng.Intn(len(names))]
		}
		sid++
		verifSession(out, sid, ops)
	}
	/* long histories: n pages opened one after another, walked back to the first and forward to the last,
	   then a page opened from the middle; and histories that mostly grow */
	for _, n := range in.Long {
		ops := []verifOp{}
		rep := func(op string, k int) {
			for i := 0; i < k; i++ {
				ops = append(ops, verifOp{Op: op})
			}
		}
		rep("add", n)
		rep("back", n)
		rep("forward", n)
		rep("back", n/2)
		rep("add", 1)
		rep("forward", 2)
		rep("back", n)
		sid++
		verifSession(out, sid, ops)
		ops = make([]verifOp, 2*n)
		for j := range ops {
			ops[j].Op = []string{"add", "add", "add", "add", "add", "add", "add", "back", "forward", "back"}[rng.Intn(10)]
		}
		sid++
		verifSession(out, sid, ops)
	}
}
