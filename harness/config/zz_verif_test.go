//go:build verif

package config

import (
	"fmt"
	"servitor/verifkit"
	"strconv"
	"testing"
)

/*
	C19, colour half: every 6-digit hex string (2^24, upper and lower case digits mixed by a
	fixed rule) through hexToAnsi, compared with an independent per-channel computation;
	plus malformed strings, which must all be refused.  Only counts are reported.
*/
func TestVerifColours(t *testing.T) {
	out := verifkit.Out()
	defer out.Close()
	mismatches := 0
	checked := 0
	digits := "0123456789abcdef"
	upper := "0123456789ABCDEF"
	buf := []byte("#000000")
	for v := 0; v < 1<<24; v++ {
		for i := 0; i < 6; i++ {
			d := (v >> (4 * (5 - i))) & 15
			if (v>>i)&1 == 0 {
				buf[1+i] = digits[d]
			} else {
				buf[1+i] = upper[d]
			}
		}
		got, err := hexToAnsi(string(buf))
		want := strconv.Itoa(v>>16) + ";" + strconv.Itoa((v>>8)&255) + ";" + strconv.Itoa(v&255)
		if err != nil || got != want {
			mismatches++
		}
		checked++
	}
	malformed := []string{"", "#", "#12345", "#1234567", "123456", "x123456", "#12345g", "#+12345", "#-12345", "#12 456", "#1234\n6", "##12345", "#12345 ", " #12345",
		"#0x1234", "#１２３４５６", "rgb(1,2,3)", "#12_456", "#1.3456", "#+1+2+3", "#-1-2-3", "# 1 2 3"}
	accepted := 0
	for _, m := range malformed {
		m := m
		/* a crash on a malformed string is no better than accepting it */
		panicked, _ := verifkit.Try(func() {
			if _, err := hexToAnsi(m); err == nil {
				accepted++
			}
		})
		if panicked {
			accepted++
		}
	}
	out.Emit(verifkit.M{"ev": "colours", "checked": checked, "mismatches": mismatches, "malformed_tried": len(malformed), "accepted_malformed": accepted,
		"sample": fmt.Sprint(hexToAnsi("#A4f59b"))})
}
