"""Extra coverage (not a listed property): client.ResolveWebfinger transcribed in TLA+ (Webfinger.tla); every
list of JRD link classes up to a length is served by the simulator and resolved by the real function."""
import vlib
from checks.common import run_harness


def run(ctx):
    res = vlib.Result(ctx, "model_checking")
    q = ctx.quick
    r = ctx.tlc("MC_Webfinger", "MC_Webfinger.cfg", consts={"MaxLen": 2 if q else 3}).require_clean()
    res.add_tlc(r)
    lists = ctx.tlc("MC_Webfinger", "Gen_Webfinger.cfg", consts={"MaxLen": 2}).json_lines("GEN")
    evs, _, _ = run_harness(ctx, "client", "TestVerifWebfinger", {"lists": lists}, timeout=1800)
    bad, r2 = vlib.judge(ctx, "T_Webfinger", "T_Webfinger.cfg", evs)
    res.traces = len(evs)
    for e in evs:
        res.case(e["links"])
    res.rule = "a case is one JRD document whose links realise a list of entry classes, resolved by the real ResolveWebfinger through the simulator; distinct = distinct class list"
    for e in evs[:1] + evs[-1:]:
        res.sample({"links": e["links"], "res": e["res"]})
    for b in bad:
        e = evs[b["line"] - 1]
        path = vlib.save_replay(ctx.pid, "l%d" % b["line"], e)
        res.violations.append(({"monitor": "T_Webfinger", "why": b["why"]}, path, "ResolveWebfinger over %s = %s, model says otherwise" % (e["links"], e["res"])))
    return res
