"""Extra coverage (not a listed property): the coalescing of simultaneous fetches of one address (client.FetchURL:
singleflight Do + Forget) as Coalesce.tla.  TLC: every caller gets the result of the flight it joined (Agreement),
and - a design-level observation - "no two requests at the same time" (the comment in client.go) is refuted by a
late Forget; without Forget it holds.  The driver lets many goroutines fetch one slow address once each and reports how
many connections were open at once: the same observation on the implementation.  Nothing here is a verdict on a
listed property; exit 0 unless a caller was handed a wrong result."""
import vlib
from checks.common import run_harness


def run(ctx):
    res = vlib.Result(ctx, "model_checking")
    q = ctx.quick
    r = ctx.tlc("Coalesce", "MC_Coalesce.cfg").require_clean()
    res.add_tlc(r)
    one = ctx.tlc("Coalesce", "MC_Coalesce_one.cfg")
    res.add_tlc(one)
    res.extra["OneAtATime_with_Forget"] = "refuted" if one.violated else "holds"
    no = ctx.tlc("Coalesce", "MC_Coalesce_one.cfg", consts={"Variant": '"noforget"'}).require_clean()
    res.add_tlc(no)
    res.extra["OneAtATime_without_Forget"] = "holds"
    evs, _, _ = run_harness(ctx, "client", "TestVerifCoalesce", {"callers": 48, "millis": 60, "rounds": 40 if q else 400}, timeout=900)
    rounds = [e for e in evs if e["ev"] == "coalesce"]
    res.traces = len(rounds)
    for e in rounds:
        res.case([e["round"], e["calls"], e["connections"], e["max_open"]])
        res.sample({k: e[k] for k in ("callers", "calls", "connections", "max_open")}, limit=3)
    res.extra["largest_number_of_simultaneous_connections_to_one_address"] = max([e["max_open"] for e in rounds] or [0])
    res.extra["calls_per_connection"] = round(sum(e["calls"] for e in rounds) / max(1, sum(e["connections"] for e in rounds)), 1)
    res.rule = "a case is one round of 48 goroutines fetching, once each at a random moment within 60 ms, one failing address that answers after 20 ms, through the real client.FetchURL; recorded: calls, connections, connections open at once"
    for e in rounds:
        if e["wrong_results"]:
            path = vlib.save_replay(ctx.pid, "r%d" % e["round"], e)
            res.violations.append(({"monitor": "Agreement"}, path, "a caller was handed a document for an address that only ever answers with an error"))
    return res
