"""Extra coverage (not a listed property): what a built post, actor or activity looks like - the
composition of title, byline, body, attachments and footer out of readable, unreadable and absent
fields, transcribed in Card.tla.  TLC checks the design-level expectations (every unreadable field is said
once, link numbers are dense, previews are short and start like the card) on every field vector of five
families and prints the vectors; the pub driver builds each with the real constructors, renders it in full
and as a preview and cuts the text into lines of words; T_Card compares them with the transcription -
one implementation test per vector.  A panic would be a C06 matter; a differing card is reported as a
refinement mismatch of the transcription."""
import random
import vlib
from checks.common import run_harness

FAMILIES = ["post_header", "post_time", "post_blocks", "actor", "activity"]


def run(ctx):
    res = vlib.Result(ctx, "model_checking")
    q = ctx.quick
    cards = []
    fam = {}
    for f in FAMILIES:
        r = ctx.tlc("MC_Card", "MC_Card.cfg", consts={"Family": '"%s"' % f}).require_clean(f)
        res.add_tlc(r)
        fam[f] = ctx.tlc("MC_Card", "Gen_Card.cfg", consts={"Family": '"%s"' % f}, quiet=True).json_lines("GEN")
        if len(fam[f]) < 10:
            raise vlib.Inconclusive("family %s: %d vectors" % (f, len(fam[f])))
    rnd = random.Random(ctx.seed)
    for f in FAMILIES:
        xs = fam[f]
        if q and len(xs) > 1500:
            xs = rnd.sample(xs, 1500)
        cards += xs
    # full vectors: the header of one, the time of another, the blocks of a third
    for _ in range(300 if q else 6000):
        h, t, b = (rnd.choice(fam[k])["f"] for k in ("post_header", "post_time", "post_blocks"))
        p = dict(h)
        p["created"] = t["created"]
        for k in ("body", "atts", "comments"):
            p[k] = b[k]
        if rnd.random() < 0.3:
            a = rnd.choice(fam["activity"])["f"]
            cards.append({"what": "activity", "f": {"kind": a["kind"], "actor": a["actor"], "target": p}})
        else:
            cards.append({"what": "post", "f": p})
    evs, _, _ = run_harness(ctx, "pub", "TestVerifCard", {"cards": cards}, timeout=1500)
    if len(evs) != len(cards):
        raise vlib.Inconclusive("driver produced %d of %d cards" % (len(evs), len(cards)))
    bad, r2 = vlib.judge(ctx, "T_Card", "T_Card.cfg", evs)
    res.traces = len(evs)
    for e in evs:
        res.case([e["what"], e["f"]])
    res.rule = ("a case is one field vector (every field absent, unreadable or readable; bylines up to two people; "
                "relative times on both sides of every unit boundary; counts 0, 1, 2, 11) realised as a concrete object, "
                "built with the real constructors and rendered in full and as a preview at width 2000; distinct = distinct vector")
    for e in evs[:1] + evs[-1:]:
        res.sample({"what": e["what"], "f": e["f"], "string": e["string"], "preview": e["preview"]})
    res.extra["vectors_per_family"] = {f: len(fam[f]) for f in FAMILIES}
    for b in bad:
        e = evs[b["line"] - 1]
        path = vlib.save_replay(ctx.pid, "l%d" % b["line"], e)
        res.violations.append(({"monitor": "T_Card", "why": ",".join(b["why"]), "what": e["what"]}, path,
                               "%s %s: %s; full card %s, preview %s" % (e["what"], e["f"], b["why"], e["string"], e["preview"])))
    return res
