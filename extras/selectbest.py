"""Extra coverage (not a listed property): pub.SelectBestLink transcribed in TLA+ (SelectBest.tla), every
list of link classes up to a length enumerated by TLC and executed on the real function - one
implementation test per model transition.  A panic would be a C06 matter; a differing outcome is
reported as a refinement mismatch of the transcription."""
import vlib
from checks.common import run_harness


def run(ctx):
    res = vlib.Result(ctx, "model_checking")
    q = ctx.quick
    r = ctx.tlc("MC_SelectBest", "MC_SelectBest.cfg", consts={"MaxLen": 2 if q else 3}).require_clean()
    res.add_tlc(r)
    lists = ctx.tlc("MC_SelectBest", "Gen_SelectBest.cfg", consts={"MaxLen": 2}).json_lines("GEN")
    if not q:
        import random
        more = ctx.tlc("MC_SelectBest", "Gen_SelectBest.cfg", consts={"MaxLen": 3}, quiet=True).json_lines("GEN")
        random.Random(ctx.seed).shuffle(more)
        lists += [x for x in more if len(x) == 3][:40000]
    evs, _, _ = run_harness(ctx, "pub", "TestVerifSelectBest", {"lists": lists})
    bad, r2 = vlib.judge(ctx, "T_SelectBest", "T_SelectBest.cfg", evs)
    res.traces = len(evs)
    for e in evs:
        res.case(e["links"])
    res.rule = "a case is one list of link classes (media type x height x width classes) realised as concrete Links and given to the real SelectBestLink; distinct = distinct class list"
    for e in evs[:1] + evs[-1:]:
        res.sample({"links": e["links"], "res": e["res"]})
    for b in bad:
        e = evs[b["line"] - 1]
        path = vlib.save_replay(ctx.pid, "l%d" % b["line"], e)
        res.violations.append(({"monitor": "T_SelectBest", "why": b["why"]}, path, "SelectBestLink(%s) = %s, model says otherwise" % (e["links"], e["res"])))
    return res
