"""Outputs of the other drivers for C14 (and C01): UI frames, full post renderings and body renderings."""
from checks import uidrv, c12


def collect(ctx, res, want="C14"):
    evs = []
    ui = uidrv.ui_events(ctx, res, frames=True)
    evs += [e for e in ui if e["ev"] == "out"]
    mk = c12.markup_events(ctx, res, small=True)
    evs += [e for e in mk if e["ev"] == "out"]
    # items whose links / attributes carry encoded payloads (styling must stay exactly what was applied)
    from checks import c01
    evs += [dict(e) for e in c01.sanitize_events(ctx, res, only=("link_url", "html_attr", "id_host", "html_text", "json_field", "status_line_inline", "header_value_inline", "location_host_inline")) if e["ev"] == "out"]
    for e in evs:
        e.setdefault("ops", [])
        e["chk"] = [c for c in e["chk"] if c in ("noctl", "neutral")]
    res.extra["outputs_from_other_drivers"] = len(evs)
    return evs
