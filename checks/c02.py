"""C02 - an object is only attributed to the host that actually served it.

Spec: Provenance.tla (FetchUnknownM over adversarial worlds, ProvOK).  MC_Provenance: every world over a
small URL set x every input form (reference, embedded full object, embedded stub, with/without id) x every
source: invariant Prov.  TLC samples (world, input, source) triples; the client driver realises them on the
loopback multi-host TLS world (every served document stamped with its serving host), adds seeded inputs on a
warm cache of random capacity, and T_Prov judges every accepted object.  pub-level constructors are
covered through the C09 driver's accept events.
"""
import vlib
from checks.common import run_harness


def pub_accepts(ctx, res):
    try:
        from checks import c09
    except ImportError:
        return []
    return c09.collect_events(ctx, res, light=True)


def attacks():
    """The corner of MC_Provenance's space where one host tries to speak for another, laid out systematically instead of
    drawn: every ordered pair (victim address, attacker address) x the ways the attacker's document gets looked at."""
    urls = ["A/x", "A_p/x", "B/x", "M/x"]
    host = {"A/x": "A", "A_p/x": "A_p", "B/x": "B", "M/x": "M"}
    err = {"t": "err"}
    out = []
    for v in urls:
        for a in urls:
            if host[a] == host[v]:
                continue
            third = [u for u in urls if u not in (v, a)][0]
            for stub in (False, True):
                claim = {"t": "doc", "id": v, "stub": stub}
                worlds = []
                w = {u: err for u in urls}; w[v] = {"t": "redir", "to": a}; w[a] = claim; worlds.append(w)          # the victim's address leads to the attacker
                w = {u: err for u in urls}; w[a] = claim; worlds.append(w)                                           # the attacker claims the victim's id
                w = {u: err for u in urls}; w[a] = claim; w[v] = {"t": "doc", "id": v, "stub": False}; worlds.append(w)  # ... while the victim has its own
                w = {u: err for u in urls}; w[third] = {"t": "redir", "to": a}; w[a] = claim; worlds.append(w)       # a bystander leads to the attacker
                w = {u: err for u in urls}; w[v] = {"t": "redir", "to": a}; w[a] = {"t": "redir", "to": v}; worlds.append(w)
                for w in worlds:
                    inputs = [{"t": "ref", "u": v}, {"t": "ref", "u": a}, {"t": "ref", "u": third}]
                    for holder in urls:
                        inputs += [{"t": "emb", "id": a, "stub": True, "stamp": host[holder]}, {"t": "emb", "id": v, "stub": True, "stamp": host[holder]},
                                   {"t": "emb", "id": a, "stub": False, "stamp": host[holder]}, {"t": "emb", "id": v, "stub": False, "stamp": host[holder]}]
                    for inp in inputs:
                        for src in ["none"] + urls:
                            if inp["t"] == "emb" and src != "none" and inp["stamp"] != host[src]:
                                continue        # InputOK: an embedded object inside a validated document was served by that document's host
                            if inp["t"] == "emb" and src == "none" and inp["stamp"] != host[urls[0]] and not inp["stub"]:
                                continue
                            out.append({"world": w, "inp": inp, "src": src})
    return out


def run(ctx):
    res = vlib.Result(ctx, "model_checking")
    q = ctx.quick
    # hosts are symmetric in the model; in the real world "A_p" shares A's host name and differs in the port only
    urlsets = ['{"A/x", "A_p/x", "M/x"}'] if q else ['{"A/x", "B/x", "B/y", "M/x"}', '{"A/x", "A_p/x", "B/x", "M/x"}']
    cases = []
    for us in urlsets:
        r = ctx.tlc("MC_Provenance", "MC_Provenance.cfg", consts={"UrlSet": us}, timeout=3000).require_clean()
        res.add_tlc(r)
        g = ctx.tlc("MC_Provenance", "Gen_Provenance.cfg", workers=1, consts={"UrlSet": us, "GenN": 500 if q else 4000}, extra=["-seed", str(ctx.seed)])
        cases += g.json_lines("GEN")
    cases += attacks()
    seen = set()
    uniq = []
    import json as _j
    for c in cases:
        k = _j.dumps(c, sort_keys=True)
        if k not in seen:
            seen.add(k)
            uniq.append(c)
    if len(uniq) < 50:
        raise vlib.Inconclusive("generator produced %d cases" % len(uniq))
    evs, _, _ = run_harness(ctx, "client", "TestVerifProvenance", {"cases": uniq, "extra": 3}, timeout=2400)
    evs += pub_accepts(ctx, res)
    bad, r2 = vlib.judge(ctx, "T_Prov", "T_Prov.cfg", evs)
    world = None
    sess = {}
    for i, e in enumerate(evs):
        if e["ev"] == "reset":
            world = e
        elif e["ev"] == "accept":
            res.case([world["world"] if world else None, e.get("inp"), e.get("src"), e.get("via"), e.get("desc")])
        sess[i + 1] = world
    res.traces = sum(1 for e in evs if e["ev"] == "reset")
    v = r2.verdict
    res.extra["drift_lines"] = len(v.get("drift", []))
    res.extra["accepted_with_id"] = sum(1 for e in evs if e["ev"] == "accept" and e["ok"] and e["id"] != "none")
    res.rule = ("a case is one call of the real client.FetchUnknown (or one item built by a pub constructor) in a world where every "
                "served document is stamped with its serving host; judged by T_Prov (id present => stamp host = id host); distinct = "
                "distinct (world, input, source); worlds/inputs are sampled by TLC from the space MC_Provenance checks exhaustively, "
                "plus, laid out systematically, every (victim address, attacker address) pair with redirects to the attacker, claimed ids and two-step refetches, "
                "plus seeded inputs on the same world with a warm cache")
    acc = [e for e in evs if e["ev"] == "accept"]
    for e in acc[:2] + acc[-1:]:
        res.sample({k: e.get(k) for k in ("via", "inp", "src", "ok", "id", "stamp", "desc")})
    res.assumptions = ["FetchURL is treated as cache-transparent in the model (established by C03)",
                       "ground-truth stamps travel in the fragment of each document's id (never sent, not inspected by servitor, key count unchanged)"]
    for b in bad:
        e = evs[b["line"] - 1]
        if e["ev"] != "accept":
            continue  # listing and author lines are C09's to report
        w = sess[b["line"]]
        sig = {"monitor": "T_Prov", "why": b["why"], "via": e.get("via")}
        path = vlib.save_replay(ctx.pid, "l%d" % b["line"], {"world": w and w.get("world"), "event": e})
        res.violations.append((sig, path, "%s accepted id %s (host %s) but the JSON was served by %s; input %s source %s" % (
            e.get("via"), e["id"], e["id_host"], e["stamp"], e.get("inp") or e.get("desc"), e.get("src"))))
    return res
