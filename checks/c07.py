"""C07 - keys do what the keymap says on every history and never crash the UI.

Spec: UI.tla - the keymap as a reference over an abstract content world (threads, actors with outboxes,
activities, multi-author posts, failing items, a feed).  MC_UI: every reachable state within history and
buffer bounds (state-based, so key sequences of any length inside the bounds).  TLC simulation emits key
sequences; the ui driver presses them on a real ui.State over the same world served by the simulator,
waiting for exact quiescence after each key; T_UI carries the set of reference states compatible with the
observations and rejects a key whose outcome the keymap does not allow.  Wild sessions (arbitrary bytes,
20-digit numbers, empty and failing pages, resizes) must neither crash nor wedge.
"""
import vlib
from checks import uidrv


def run(ctx):
    res = vlib.Result(ctx, "model_checking")
    q = ctx.quick
    for world in ("w1", "w2"):
        r = ctx.tlc("MC_UI", "MC_UI.cfg", consts={"MaxPages": 2 if q else 3, "MaxBuf": 2, "World": '"%s"' % world}, timeout=3000).require_clean()
        res.add_tlc(r)
    # the assumption the reference rests on: at quiescence a neighbour is loaded iff it exists (any interleaving
    # of keys and load completions, several thread shapes and preload amounts)
    for up, down, context in ((5, 4, 1), (5, 4, 2), (3, 6, 3)) if q else ((7, 6, 1), (7, 6, 2), (5, 8, 3), (0, 9, 2), (9, 0, 4)):
        r = ctx.tlc("Preload", "MC_Preload.cfg", consts={"Up": up, "Down": down, "Context": context}, quiet=True).require_clean()
        res.add_tlc(r)
    evs = uidrv.ui_events(ctx, res)
    keys, bad = [], []
    for world in ("w1", "w2"):
        part = [e for e in evs if e["ev"] in ("reset", "key", "wild", "hookexit", "resync", "unsettled") and e["world"] == world]
        # session ids are per world: make them unique
        for e in part:
            if "sid" in e and not e.get("_renumbered"):
                e["sid"] = e["sid"] + (0 if world == "w1" else 100000)
                e["_renumbered"] = True
        b, r2 = vlib.judge(ctx, "T_UI", "T_UI.cfg", [{k: v for k, v in e.items() if k != "_renumbered"} for e in part], name="T_UI_" + world, consts={"World": '"%s"' % world})
        bad += [dict(x, line=x["line"] + len(keys)) for x in b]
        keys += part
    sess = {}
    cur = None
    for e in keys:
        if e["ev"] == "reset":
            cur = e["sid"]
            sess[cur] = {"start": e["start"], "keys": e["keys"], "steps": []}
        elif e["ev"] == "unsettled":
            sess[cur]["steps"].append(e)
        elif e["ev"] in ("hookexit", "resync"):
            e["k"] = e["ev"]
            sess[cur]["steps"].append(e)
            res.case([e["world"], sess[cur]["start"], [s["k"] for s in sess[cur]["steps"]]])
        elif e["ev"] == "key":
            sess[cur]["steps"].append(e)
            res.case([e["world"], sess[cur]["start"], [s["k"] for s in sess[cur]["steps"]]])
        else:
            res.case(["wild", e["world"], e["start"], e["keys"]])
    res.traces = len(sess) + sum(1 for e in keys if e["ev"] == "wild")
    res.rule = ("a case is one key (all bytes of its token) pressed on a real ui.State in the history of its session, after "
                "background loads have settled, judged by T_UI against the keymap reference (mode, history length and index, "
                "highlighted item, page centre, cursor position, buffer length, hook calls); distinct = distinct key prefix; wild "
                "sessions count once each; key sequences come from TLC simulation of MC_UI plus pinned regression sequences")
    for sid in list(sess)[:1] + list(sess)[-1:]:
        s = sess[sid]
        res.sample({"start": s["start"], "keys": s["keys"], "last_obs": s["steps"][-1]["obs"] if s["steps"] else None})
    res.extra["wild_sessions"] = sum(1 for e in keys if e["ev"] == "wild")
    res.extra["frames_seen"] = sum(1 for e in evs if e["ev"] == "out")
    res.assumptions = ["observations are taken at quiescence (no load in flight, no open connection, hook exited)",
                       "a non-digit key while selecting may cancel only or cancel and act; keys while opening act as in normal mode",
                       "held sessions: hooks end only at the `hookexit` steps (all pending ones at once); backspace while opening only shortens the address shown",
                       "preload_amount = 2; failures are not told apart (all 'fail')"]
    for b in bad:
        e = keys[b["line"] - 1]
        if e["ev"] == "wild":
            sig = {"monitor": "T_UI", "why": b["why"], "wild": True}
            text = "wild session on %s with keys %s: %s %s" % (e["start"], e["keys"][:80], b["why"], (e.get("what") or "")[:200])
            replay = e
        else:
            s = sess[b["sid"]]
            done = [x["k"] for x in s["steps"]]
            done = done[:[id(x) for x in s["steps"]].index(id(e)) + 1] if any(x is e for x in s["steps"]) else done
            sig = {"monitor": "T_UI", "why": b["why"], "key": e["k"], "wild": False}
            text = "start %s keys %s: after %r %s; observed %s %s" % (s["start"], done, e["k"], b["why"], e["obs"], (e.get("what") or "")[:200])
            replay = {"start": s["start"], "keys": done, "rejected": e}
        path = vlib.save_replay(ctx.pid, "s%d" % b["sid"], replay)
        res.violations.append((sig, path, text))
    return res
