"""C06 - rendering any fetched object at any terminal size neither crashes nor hangs.

Spec: MC_Width (effective width and output size through nested indenting blocks: NoBadArgument,
SizePolynomial, depth up to 95, widths -10..200) and the accessor table of Values.tla for the schema.
The pub driver turns seeded JSON values (shaped like and unlike actors, posts, activities, collections and
links; markup bodies with absurd nesting in all four media types) into items with the real constructors and
exercises every method a frame may call at widths -10..300 and SelectLink over the integer classes, each
case under a watchdog; a case that does not return gives up the process and the check resumes after it.
T_Outcome judges every case.
"""
import vlib
from checks.common import run_harness


def run(ctx):
    res = vlib.Result(ctx, "exploration")
    q = ctx.quick
    r = ctx.tlc("MC_Width", "MC_Width.cfg").require_clean()
    res.add_tlc(r)
    # the last `systematic` cases are single deviations from well-formed skeletons (every key x every value class)
    systematic = 1839
    count = (1000 if q else 12000) + systematic
    events = []
    start = 0
    restarts = 0
    while start < count and restarts <= 25:
        evs, rc, txt = run_harness(ctx, "pub", "TestVerifRender", {"from": start, "count": count, "systematic": systematic}, timeout=3000, allow_fail=True, name="render-%d" % start)
        events += [e for e in evs if e["ev"] == "render"]
        for m in evs:
            if m["ev"] == "meta" and m["systematic"] != systematic:
                raise vlib.Inconclusive("the driver has %d systematic cases, the check expects %d" % (m["systematic"], systematic))
        if rc == 0:
            break
        begun = [e for e in evs if e["ev"] == "begin"]
        if not begun:
            raise vlib.Inconclusive("render harness failed:\n" + txt[-2000:])
        last = begun[-1]["i"]
        finished = {e["i"] for e in evs if e["ev"] == "render"}
        if last not in finished:
            # the process died inside this case without a report: a crash outside the harness's recover
            events.append({"ev": "render", "i": last, "outcome": "panic", "ms": 0, "size": 0, "bytes": 0, "desc": begun[-1]["desc"], "what": "process died: " + txt[-400:]})
        start = last + 1
        restarts += 1
    bad, r2 = vlib.judge(ctx, "T_Outcome", "T_Outcome.cfg", events)
    res.traces = len(events)
    for e in events:
        res.case([e["i"], e["desc"]])
    slow = sorted(events, key=lambda e: -e["ms"])[:3]
    res.extra["slowest_ms"] = [(e["ms"], e["desc"][:80]) for e in slow]
    res.extra["process_restarts"] = restarts
    res.rule = ("a case is one seeded JSON value (random keys of the ActivityStreams vocabulary x value classes, deep embeddings, huge/negative "
                "numbers, markup bodies nested up to 200 levels or thousands of elements, in all four media types) built through one of six "
                "constructors and exercised (String/Preview at 14 widths from -10 to 1004, Name, Timestamp, Parents, Children.Harvest, "
                "SelectLink at 8 integers incl. min/max int, Media/ProfilePic/Banner/Actor/Target); judged by T_Outcome (returned normally "
                "every single call within 5 s for documents of a few kilobytes); distinct = distinct case index")
    for e in events[:2] + slow[:1]:
        res.sample({k: e[k] for k in ("i", "desc", "outcome", "ms", "size")})
    res.assumptions = ["time bound 5 s per single call for documents up to 8 kB (the slowest call of the current tree takes under 1 s here, also under load); a slow call only counts when it is slow again twice on its own",
                       "references inside generated values point at unresolvable hosts (fetches fail fast)"]
    for b in bad:
        e = events[b["line"] - 1]
        if b["why"] == "took longer than the time bound":
            # timing verdicts need two reproductions of the case on its own
            again = []
            for k in range(2):
                evs2, _, _ = run_harness(ctx, "pub", "TestVerifRender", {"from": e["i"], "count": count, "systematic": systematic, "only": 1}, timeout=600, allow_fail=True, name="render-repro-%d-%d" % (e["i"], k))
                again += [x for x in evs2 if x["ev"] == "render"]
            if len(again) < 2 or not all(x["outcome"] == "timeout" or x["ms"] > 5000 for x in again):
                res.extra.setdefault("slow_once_not_reproduced", []).append([e["i"], e["ms"], [x["ms"] for x in again]])
                continue
        shape = "nesting" if "content=<" in e["desc"] and ("<blockquote><blockquote>" in e["desc"] or "<ul><li><ul>" in e["desc"] or "<h6><h6>" in e["desc"] or "<h1><h1>" in e["desc"]) else "other"
        sig = {"monitor": "T_Outcome", "why": b["why"], "shape": shape}
        path = vlib.save_replay(ctx.pid, "i%d" % e["i"], e)
        res.violations.append((sig, path, "case %d (%s): %s after %d ms %s" % (e["i"], e["desc"][:120], b["why"], e["ms"], e.get("what", "")[:150])))
    return res
