"""C12 - the number shown next to a link opens exactly that link.

Spec: Markup.tla (document trees, numbering as coded, NumberingOK / ObservedOK).  MC_Markup: every document
of the bounded shape (leaves word / media, inner nodes link / inline style / block, depth <= 2, pairs of
depth-1 trees).  TLC enumerates the documents; the pub driver serialises each to HTML, Markdown, gemtext and
plain text where expressible, builds a post around it (sometimes with attachments), reads the numbers back
from the full rendering at three widths and probes SelectLink for -1..N+2.  T_Markup judges.  Numbers as
they are typed (digits, then Enter or '.'; also numbers beyond every integer type) run as key sessions of
UI.tla on real pages and are judged by T_UI.
"""
import vlib
from checks.common import run_harness

_cache = {}


def markup_events(ctx, res, small=False):
    if ctx.pid in _cache:
        return _cache[ctx.pid]
    q = ctx.quick
    docs = ctx.tlc("MC_Markup", "Gen_Markup.cfg").json_lines("GEN")
    if len(docs) < 1000:
        raise vlib.Inconclusive("document generator produced %d documents" % len(docs))
    widths = ctx.tlc("MC_Markup", "Gen_Markup.cfg", consts={"Mode": '"cache"'}).json_lines("GEN")
    if len(widths) < 100:
        raise vlib.Inconclusive("width-sequence generator produced %d sequences" % len(widths))
    if q:
        import random
        rnd = random.Random(ctx.seed)
        rnd.shuffle(docs)
        docs = docs[:120 if small else 450]
    evs, mrc, mtxt = run_harness(ctx, "pub", "TestVerifMarkup", {"docs": docs, "widths": widths, "random": (60 if small else 150) if q else (600 if small else 3000)}, timeout=2400, allow_fail=True)
    if mrc != 0:
        first = [l for l in mtxt.splitlines() if "fatal error:" in l or l.startswith("panic:")][:1]
        if not first or not evs:
            raise vlib.Inconclusive("harness pub/TestVerifMarkup failed (rc=%d):\n%s" % (mrc, mtxt[-3000:]))
        # the process died while documents were being rendered (side by side, at the end of the run): an observation like any other
        evs.append({"ev": "robj", "obj": 999999, "markup": "markdown"})
        evs.append({"ev": "render", "obj": 999999, "markup": "markdown", "w": 80, "digest": "none", "fresh": "none", "panic": True, "doc": "the process ended: " + first[0], "concurrent": True})
    res.extra["documents_from_tlc"] = len(docs)
    res.extra["width_sequences_from_tlc"] = len(widths)
    _cache[ctx.pid] = evs
    return evs


def run(ctx):
    res = vlib.Result(ctx, "model_checking")
    r = ctx.tlc("MC_Markup", "MC_Markup.cfg").require_clean()
    res.add_tlc(r)
    evs = markup_events(ctx, res)
    links = [e for e in evs if e["ev"] == "links"]
    bad, r2 = vlib.judge(ctx, "T_Markup", "T_Markup.cfg", links)
    res.traces = len(links)
    for e in links:
        res.case([e["markup"], e["doc"], e["w"], len(e["expect"])])
    res.extra["by_markup"] = {m: sum(1 for e in links if e["markup"] == m) for m in ("html", "markdown", "gemtext", "plain")}
    res.rule = ("a case is one full rendering (post.String at width 80/44/30) of a real post whose body is a generated document in "
                "one of the four markups, with SelectLink probed for -1..N+2; marks (tokens and superscript numbers in reading order) "
                "are judged by T_Markup (ObservedOK); distinct = distinct (markup, document text, width, attachments)")
    for e in links[:1] + links[-1:]:
        res.sample({k: e[k] for k in ("markup", "doc", "w", "marks", "sel")})
    res.assumptions = ["numbers are read next to tokens in reading order; a link-bearing node's number follows its own text",
                       "HTML realisations avoid nestings the HTML parser restructures (anchor in anchor, heading in heading)"]
    # numbers as they are typed: digits, then Enter or '.', on real pages (UI.tla; also numbers beyond every integer type)
    from checks import uidrv
    kevs, kbad = uidrv.number_sessions(ctx, res)
    cur = None
    typed = {}
    for i, e in enumerate(kevs):
        if e["ev"] == "reset":
            cur = {"world": e["world"], "start": e["start"], "keys": []}
        else:
            cur["keys"] = cur["keys"] + [e.get("k", "hookexit")]
            if e.get("k") in ("enter", "dot"):
                res.case(["typed", cur["world"], cur["start"], cur["keys"]])
                res.traces += 1
        typed[i + 1] = dict(cur)
    res.extra["typed_number_sessions"] = sum(1 for e in kevs if e["ev"] == "reset")
    for b in kbad:
        e, s = kevs[b["line"] - 1], typed[b["line"]]
        sig = {"monitor": "T_UI", "why": b["why"], "key": e.get("k")}
        path = vlib.save_replay(ctx.pid, "typed-l%d" % b["line"], {"world": s["world"], "start": s["start"], "keys": s["keys"], "rejected": e})
        res.violations.append((sig, path, "world %s start %s keys %s: %s; observed %s" % (s["world"], s["start"], "".join(k if len(k) == 1 else " " + k + " " for k in s["keys"]), b["why"], e.get("obs"))))
    for b in bad:
        e = links[b["line"] - 1]
        labs = [m.get("n") for m in e["marks"] if m["t"] == "lab"]
        nested = "<a" in e["doc"] and any(t in e["doc"].split("<a", 1)[1].split("</a>")[0] for t in ("<img", "<video", "<audio", "<iframe")) or "[![" in e["doc"]
        sig = {"monitor": "ObservedOK", "why": b["why"], "markup": e["markup"], "media_inside_link": bool(nested)}
        path = vlib.save_replay(ctx.pid, "l%d" % b["line"], e)
        res.violations.append((sig, path, "%s document %r at width %d: numbers shown %s, SelectLink %s" % (e["markup"], e["doc"][:100], e["w"], labs, e["sel"])))
    return res
