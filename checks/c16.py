"""C16 - every frame is exactly as tall as the terminal.

Spec: Layout.tla CenterOK / ReplaceLastOK + MC_Center (CenterVertically as coded => CenterOK for all
geometries up to a bound).  Conformance: the real ansi.CenterVertically / ReplaceLastLine over every
enumerated geometry and seeded random larger ones; UI frames (LineCount, footer on last line) of
generated key histories come from the ui driver (frames section below).  TLC judges every observation.
"""
import vlib
from checks.common import run_harness


def frames_part(ctx, res):
    """UI frames: added by checks/uiframes.py once the ui driver is available."""
    try:
        from checks import uiframes
    except ImportError:
        return []
    return uiframes.collect(ctx, res, want="C16")


def run(ctx):
    res = vlib.Result(ctx, "model_checking")
    q = ctx.quick
    r = ctx.tlc("MC_Center", "MC_Center.cfg", consts={"MaxBlock": 10 if q else 16, "MaxH": 12 if q else 20})
    res.add_tlc(r)
    model_ok = not (r.error or r.violated)
    if not model_ok:
        res.extra["drift"] = "model of CenterVertically violates CenterOK (candidate only): %s" % r.violated
    evs, _, _ = run_harness(ctx, "ansi", "TestVerifCenter",
                            {"maxh": 9 if q else 14, "maxblock": 7 if q else 11, "random": 300 if q else 3000})
    bad, r2 = vlib.judge(ctx, "T_Layout", "T_Layout.cfg", evs)
    res.traces = len(evs)
    for e in evs:
        if e["ev"] == "center":
            res.case(["center", len(e["pre"]), e["pre"] == ["_"], len(e["cen"]), len(e["suf"]), e["suf"] == ["_"], e["h"]])
        else:
            res.case(["replacelast", len(e["orig"])])
    res.rule = ("a case is one call of the real CenterVertically (then ReplaceLastLine) on labelled blocks; distinct = "
                "distinct geometry (prefix lines, block lines, suffix lines, height); every geometry with blocks up to the "
                "bound is enumerated, larger ones are seeded random; UI frames are judged by LineCount in the ui part")
    res.sample({k: evs[0][k] for k in ("pre", "cen", "suf", "h", "out")})
    res.sample({k: evs[len(evs) // 2][k] for k in evs[len(evs) // 2] if k != "ev"})
    res.assumptions = ["height >= 2", "blocks are sequences of labelled lines; the empty string is one blank line"]
    for b in bad:
        e = evs[b["line"] - 1]
        if e["ev"] == "center":
            spare = e["h"] - len(e["cen"])
            sig = {"monitor": "CenterOK", "spare_rows": spare if spare <= 2 else "many", "lines_minus_h": len(e["out"]) - e["h"], "panic": e["panic"]}
            text = "CenterVertically(prefix %d lines, block %d, suffix %d, height %d) returned %d lines" % (
                len(e["pre"]), len(e["cen"]), len(e["suf"]), e["h"], len(e["out"]))
        else:
            sig = {"monitor": "ReplaceLastOK", "panic": e["panic"]}
            text = "ReplaceLastLine changed the frame: %d -> %d lines" % (len(e["orig"]), len(e["out"]))
        path = vlib.save_replay(ctx.pid, "l%d" % b["line"], e)
        res.violations.append((sig, path, text))
    for v in frames_part(ctx, res):
        res.violations.append(v)
    return res
