"""C20 - the media hook receives exactly the configured argv, substituted argument-wise.

Spec: Hook.tla (Subst, UsesUrl, HookOK).  MC_Hook: every hook configuration of up to 3 arguments over the
argument alphabet x link classes.  TLC enumerates the configurations; for each the ui driver opens a post and
a profile whose links contain spaces, quotes, leading dashes, $(), backticks and placeholder look-alikes and
triggers every external open (number + Enter, o, p, b); the hook is this harness binary re-executed, which
records argv and standard input byte-exactly.  T_Hook judges every invocation.
"""
import vlib
from checks.common import run_harness


def run(ctx):
    res = vlib.Result(ctx, "model_checking")
    q = ctx.quick
    r = ctx.tlc("MC_Hook", "MC_Hook.cfg", consts={"MaxArgs": 3 if q else 4}).require_clean()
    res.add_tlc(r)
    hooks = ctx.tlc("MC_Hook", "Gen_Hook.cfg", consts={"MaxArgs": 1 if q else 2}).json_lines("GEN")
    if q:
        # all configurations with one argument, and a seeded sample of longer ones
        import random
        more = ctx.tlc("MC_Hook", "Gen_Hook.cfg", consts={"MaxArgs": 3}, quiet=True).json_lines("GEN")
        rnd = random.Random(ctx.seed)
        rnd.shuffle(more)
        hooks += [h for h in more if len(h) >= 2][:25]
    if len(hooks) < 10:
        raise vlib.Inconclusive("hook generator produced %d configurations" % len(hooks))
    evs, rc, txt = run_harness(ctx, "ui", "TestVerifHook", {"hooks": hooks}, timeout=3000)
    calls = [e for e in evs if e["ev"] == "hook"]
    bad, r2 = vlib.judge(ctx, "T_Hook", "T_Hook.cfg", calls)
    res.traces = len(calls)
    for e in calls:
        res.case([e["hook"][2:], e["link"], e["mt"]])
    res.rule = ("a case is one external open through the real UI (number+Enter on each of 18 body links / attachments, o, p, b) under "
                "one hook configuration; the hook program is the harness binary itself, recording argv and stdin; judged by T_Hook "
                "(argv = Subst(hook, link, media type), stdin = link iff no argument is exactly %url); distinct = distinct (hook "
                "arguments, link, media type)")
    for e in calls[:1] + calls[-1:]:
        res.sample({"hook_args": e["hook"][2:], "link": e["link"], "mt": e["mt"], "argv": e["calls"][0]["argv"][2:] if e["calls"] else None,
                    "stdin": e["calls"][0]["stdin"] if e["calls"] else None})
    res.extra["hook_configurations_from_tlc"] = len(hooks)
    res.assumptions = ["the program position is fixed to the recorder binary (a placeholder there is only explored in the model)",
                       "the link/media type an item offers is read through the same accessors the UI uses (their correctness is C12's)"]
    for b in bad:
        e = calls[b["line"] - 1]
        sig = {"monitor": "T_Hook", "why": b["why"]}
        path = vlib.save_replay(ctx.pid, "l%d" % b["line"], e)
        got = e["calls"][0] if e["calls"] else {}
        res.violations.append((sig, path, "hook %s link %r type %s: %s; got argv %s stdin %r" % (
            e["hook"][2:], e["link"], e["mt"].get("essence"), b["why"], (got.get("argv") or [])[2:], got.get("stdin"))))
    return res
