"""C20 - the media hook receives exactly the configured argv, substituted argument-wise.

Spec: Hook.tla (Subst, UsesUrl, HookOK).  MC_Hook: every hook configuration of up to 3 arguments over the
argument alphabet x link classes.  TLC enumerates the configurations; for each the ui driver opens a post and
a profile whose links contain spaces, quotes, leading dashes, $(), backticks and placeholder look-alikes and
triggers every external open (number + Enter, o, p, b); the hook is this harness binary re-executed, which
records argv and standard input byte-exactly.  T_Hook judges every invocation.
"""
import vlib
from checks.common import run_harness


def configured(ctx, res, hooks):
    """The same opens in processes started with a configuration file naming the hook (what start-up makes of it runs)."""
    import concurrent.futures, json, os, random, subprocess
    binary = ctx.go_test_binary("ui")
    rnd = random.Random(ctx.seed + 5)
    padded = [h for h in hooks if any(a != a.strip() or a == "" for a in h)]
    plain = [h for h in hooks if h not in padded]
    rnd.shuffle(padded)
    rnd.shuffle(plain)
    chosen = padded[:12 if ctx.quick else 120] + plain[:6 if ctx.quick else 60]

    def one(idx, args):
        d = os.path.join(ctx.scratch, "hookcfg-%d" % idx)
        os.makedirs(os.path.join(d, "servitor"), exist_ok=True)
        hook = [binary, "--verif-hook"] + list(args)
        with open(os.path.join(d, "servitor", "config.toml"), "w") as f:
            f.write("[media]\nhook = [%s]\n" % ", ".join(json.dumps(a) for a in hook))
        with open(os.path.join(d, "in.json"), "w") as f:
            json.dump({"hooks": [list(args)]}, f)
        out = os.path.join(d, "trace.ndjson")
        env = ctx.go_env({"VERIF_OUT": out, "VERIF_IN": os.path.join(d, "in.json"), "VERIF_HOOK_FROM_CONFIG": "1"})
        env["XDG_CONFIG_HOME"] = d
        env["TMPDIR"] = d
        try:
            p = subprocess.run([binary, "-test.run", "^TestVerifHook$", "-test.timeout", "120s"], cwd=d, env=env,
                               stdout=subprocess.PIPE, stderr=subprocess.STDOUT, timeout=150)
            rc, txt = p.returncode, p.stdout.decode("utf-8", "replace")
        except subprocess.TimeoutExpired:
            rc, txt = -9, "timeout"
        evs = [e for e in (vlib.read_ndjson(out) if os.path.exists(out) else []) if e["ev"] == "hook"]
        if rc != 0 and not evs:
            if "failed to parse" in txt or "is invalid" in txt:
                return [{"ev": "hook", "hook": hook, "link": "", "mt": {"essence": "", "supertype": "", "subtype": ""}, "calls": [], "keys": "",
                         "panic": True, "what": "start-up refused a hook that names a program: " + txt[-200:]}]
            raise vlib.Inconclusive("configured-hook probe failed: " + txt[-600:])
        for e in evs:
            e["configured"] = True
        return evs

    out = []
    with concurrent.futures.ThreadPoolExecutor(max_workers=8) as ex:
        for evs in ex.map(lambda t: one(*t), enumerate(chosen)):
            out += evs
    res.extra["hook_configurations_through_config_file"] = len(chosen)
    return out


def run(ctx):
    res = vlib.Result(ctx, "model_checking")
    q = ctx.quick
    r = ctx.tlc("MC_Hook", "MC_Hook.cfg", consts={"MaxArgs": 3 if q else 4}).require_clean()
    res.add_tlc(r)
    hooks = ctx.tlc("MC_Hook", "Gen_Hook.cfg", consts={"MaxArgs": 1 if q else 2}).json_lines("GEN")
    if q:
        # all configurations with one argument, and a seeded sample of longer ones
        import random
        more = ctx.tlc("MC_Hook", "Gen_Hook.cfg", consts={"MaxArgs": 3}, quiet=True).json_lines("GEN")
        rnd = random.Random(ctx.seed)
        rnd.shuffle(more)
        hooks += [h for h in more if len(h) >= 2][:25]
    # placeholders more than once, in any position (every tier)
    hooks += [["%url", "%url"], ["--a", "%url", "--referrer", "%url"], ["%mimetype", "%mimetype", "%url", "%url"], ["%url", "x", "%url", "%url"],
              ["%subtype", "%url", "%supertype", "%url", "%mimetype", "%subtype"], ["%supertype", "%supertype"], ["--type", "%mimetype"], ["%subtype"]]
    if len(hooks) < 10:
        raise vlib.Inconclusive("hook generator produced %d configurations" % len(hooks))
    evs, rc, txt = run_harness(ctx, "ui", "TestVerifHook", {"hooks": hooks}, timeout=3000)
    calls = [e for e in evs if e["ev"] == "hook"]
    calls += configured(ctx, res, hooks)
    bad, r2 = vlib.judge(ctx, "T_Hook", "T_Hook.cfg", calls)
    res.traces = len(calls)
    for e in calls:
        res.case([e["hook"][2:], e["link"], e["mt"]])
    res.rule = ("a case is one external open through the real UI (number+Enter on each of 22 body links / attachments, o, p, b), in-process and in processes started with a configuration file naming the hook, under "
                "one hook configuration, and pairs of opens in quick succession (the second key before the first program has started); the hook program is the harness binary itself, recording argv and stdin; judged by T_Hook "
                "(argv = Subst(hook, link, media type), stdin = link iff no argument is exactly %url); distinct = distinct (hook "
                "arguments, link, media type)")
    for e in calls[:1] + calls[-1:]:
        res.sample({"hook_args": e["hook"][2:], "link": e["link"], "mt": e["mt"], "argv": e["calls"][0]["argv"][2:] if e["calls"] else None,
                    "stdin": e["calls"][0]["stdin"] if e["calls"] else None})
    res.extra["hook_configurations_from_tlc"] = len(hooks)
    res.assumptions = ["the program position is fixed to the recorder binary (a placeholder there is only explored in the model)",
                       "links are compared with the address as the served document gives it; media types with the document where it settles them (declared type, none, Image without type), otherwise with what the item's accessor offers"]
    for b in bad:
        e = calls[b["line"] - 1]
        sig = {"monitor": "T_Hook", "why": b["why"]}
        path = vlib.save_replay(ctx.pid, "l%d" % b["line"], e)
        got = e["calls"][0] if e["calls"] else {}
        res.violations.append((sig, path, "hook %s link %r type %s: %s; got argv %s stdin %r" % (
            e["hook"][2:], e["link"], e["mt"].get("essence"), b["why"], (got.get("argv") or [])[2:], got.get("stdin"))))
    return res
