"""C05 - network faults end in a timely error, never in partial data, a hang or a crash.

Spec: Faults.tla (one fetch through a chain with a peer misbehaving at one stage of one hop; logical clock;
deadline variants) - TLC checks NoPartialDoc, ElapsedBounded and the liveness property EventuallyReturns
under weak fairness for the deadline discipline of the current tree.  Fault enumeration on the real
jtp.Get against the simulator: every cut point of every response of the corpus byte by byte (close and
reset), refusal, garbage, reset before the handshake, and stalls/trickles at every stage and hop with a
1 s timeout.  T_Faults judges every observation.
"""
import vlib
from checks.common import run_harness


def run(ctx):
    res = vlib.Result(ctx, "fault_enumeration")
    q = ctx.quick
    for hops in ([1] if q else [0, 1, 2, 3]):
        r = ctx.tlc("Faults", "MC_Faults.cfg", consts={"Hops": hops, "BodyUnits": 8 if q else 20}).require_clean()
        res.add_tlc(r)
    evs, _, _ = run_harness(ctx, "jtp", "TestVerifFaults", {"stride": 7 if q else 1, "hops": 1 if q else 2}, timeout=2400)
    bad, r2 = vlib.judge(ctx, "T_Faults", "T_Faults.cfg", evs)
    res.traces = len(evs)
    for e in evs:
        res.case([e["hops"], e["hop"], e["kind"], e["at"], e["big"]])
    res.rule = ("a case is one fetch by the real jtp.Get with one fault (kind, hop, byte offset); cut and reset at every byte "
                "offset of every response of the corpus (quick: every 7th offset plus all line/brace boundaries), stalls and "
                "trickles at 6-8 offsets covering every stage, at every hop of 0/1/2-hop chains; distinct = distinct "
                "(chain length, hop, kind, offset, corpus item)")
    for e in (evs[:1] + [x for x in evs if x["kind"] == "stall"][:1] + [x for x in evs if x["kind"] == "trickle"][:1] + evs[-1:]):
        res.sample({k: e[k] for k in ("hops", "hop", "kind", "at", "stage", "outcome", "whole", "ticks", "ms", "err")})
    res.exhaustive = not q
    res.extra["outcomes"] = {k: sum(1 for e in evs if e["outcome"] == k) for k in ("ok", "err", "timeout", "panic")}
    res.assumptions = ["timeout configured to 1 s (in-package: dialer.Timeout); bound: 3 timeouts per hop, measured in whole timeouts",
                       "a response counts as whole once its JSON object (or, for a redirect, its Location line) has been delivered"]
    # pub level: a page of a collection that fails to load must become an error item, not a crash
    import random
    rnd = random.Random(ctx.seed)
    sessions = []
    for i in range(40 if q else 400):
        k = rnd.randint(1, 5)
        pages = [{"n": rnd.randint(0, 2), "next": (p + 2 if p < k - 1 else -1)} for p in range(k)]
        sessions.append({"pages": pages, "sizes": [rnd.randint(0, 4) for _ in range(rnd.randint(1, 4))]})
    pevs, prc, ptxt = run_harness(ctx, "pub", "TestVerifPaging", {"sessions": sessions, "random": 0}, timeout=900, allow_fail=True)
    pbad, r3 = vlib.judge(ctx, "T_Paging", "T_Paging.cfg", pevs, name="T_Paging_faults")
    pdone = [e for e in pevs if e["ev"] == "paging"]
    res.traces += len(pdone)
    for e in pdone:
        res.case(["paging", e["pages"], [c["n"] for c in e["calls"]], e["embedded"]])
    res.extra["collection_pages_failing_to_load"] = len(pdone)
    for b in pbad:
        e = pevs[b["line"] - 1]
        if b["why"] == "panic":
            path = vlib.save_replay(ctx.pid, "paging-s%d" % e["sid"], e)
            res.violations.append(({"monitor": "T_Paging", "why": "panic"}, path, "panic while a collection page failed to load: %s" % e.get("what")))
    if prc != 0:
        begun = [e for e in pevs if e["ev"] == "begin"]
        if "panic:" in ptxt and begun:
            path = vlib.save_replay(ctx.pid, "paging-crash-s%d" % begun[-1]["sid"], {"session": begun[-1], "output": ptxt[-3000:]})
            res.violations.append(({"monitor": "crash", "why": "process died"}, path,
                                   "the process crashed when a collection page failed to load: layout %s" % begun[-1]["pages"]))
        else:
            raise vlib.Inconclusive("paging harness failed:\n" + ptxt[-2000:])
    for b in bad:
        e = evs[b["line"] - 1]
        sig = {"monitor": "T_Faults", "why": b["why"], "kind": e["kind"], "after_handshake": e["stage"] not in ("connect", "handshake")}
        path = vlib.save_replay(ctx.pid, e["id"], e)
        res.violations.append((sig, path, "%s at hop %d/%d offset %d (%s): %s (outcome %s after %d ms)" % (
            e["kind"], e["hop"], e["hops"], e["at"], e["stage"], b["why"], e["outcome"], e["ms"])))
    return res
