"""C05 - network faults end in a timely error, never in partial data, a hang or a crash.

Spec: Faults.tla (one fetch through a chain with a peer misbehaving at one stage of one hop; logical clock;
deadline variants) - TLC checks NoPartialDoc, ElapsedBounded and the liveness property EventuallyReturns
under weak fairness for the deadline discipline of the current tree.  Fault enumeration on the real
jtp.Get against the simulator: every cut point of every response of the corpus byte by byte (close and
reset), refusal, garbage, reset before the handshake, and stalls/trickles at every stage and hop with a
1 s timeout.  T_Faults judges every observation.  Items: Assembly.tla (fan-out of secondary fetches joined
before the item exists, operations of a page afterwards) - TLC checks that the join is always reached and
errors are represented; every (quick: single, thorough: pairs + sampled) assignment of peer behaviours to
the branches of posts, activities and actors is realised through pub.New and judged by T_Assembly.
"""
import vlib
from checks.common import run_harness


# (second-level branch of an actor: an entry of its outbox whose own actor cannot be fetched)
KINDS = {"post": '{"parent", "authors", "recipients", "replies", "author_outbox", "parent_author"}', "activity": '{"actor", "object"}', "actor": '{"outbox", "entry_actor"}'}


def assembly(ctx, res, rnd):
    """Items assembled from an intact primary document and faulty secondary fetches (Assembly.tla)."""
    q = ctx.quick
    cases = []
    for kind, deps in KINDS.items():
        # exhaustive exploration with at most four branches (the second-level branches of a post are enumerated, not explored)
        mcdeps = '{"parent", "authors", "recipients", "replies"}' if kind == "post" else deps
        r = ctx.tlc("Assembly", "MC_Assembly.cfg", consts={"Deps": mcdeps, "GenKind": '"%s"' % kind}).require_clean()
        res.add_tlc(r)
        obl = ctx.tlc("Assembly", "Gen_Assembly.cfg", consts={"Deps": deps, "GenKind": '"%s"' % kind}).json_lines("GEN")
        if len(obl) != 7 ** (deps.count(",") + 1):
            raise vlib.Inconclusive("assembly generator produced %d obligations for %s" % (len(obl), kind))
        few = [o for o in obl if sum(1 for k in o["fault"].values() if k != "none") <= (1 if q else 2)]
        rest = [o for o in obl if o not in few]
        rnd.shuffle(rest)
        cases += few + rest[:(8 if q else 150)]
    evs, rc, txt = run_harness(ctx, "pub", "TestVerifAssembly", {"cases": cases}, timeout=3000, allow_fail=True)
    done = {e["n"] for e in evs if e["ev"] == "assembled"}
    begun = [e for e in evs if e["ev"] == "begin"]
    if rc != 0:
        if "panic:" in txt and begun and begun[-1]["n"] not in done:
            b = begun[-1]
            evs.append({"ev": "assembled", "n": b["n"], "kind": b["kind"], "fault": b["fault"], "stages": 1, "built": False, "panic": True,
                        "ops": [], "rep": {}, "what": "process crashed: " + txt[-1200:], "ticks": 0, "ms": 0, "type": ""})
        else:
            raise vlib.Inconclusive("assembly harness failed:\n" + txt[-2000:])
    abad, r4 = vlib.judge(ctx, "T_Assembly", "T_Assembly.cfg", evs, name="T_Assembly")
    items = [e for e in evs if e["ev"] == "assembled"]
    res.traces += len(items)
    for e in items:
        res.case(["assembly", e["kind"], sorted(e["fault"].items())])
    res.extra["items_assembled_under_faults"] = len(items)
    res.extra["assembly_representation"] = {k: sum(1 for e in items for v in e["rep"].values() if v == k) for k in ("value", "error", "absent")}
    for e in items[:1] + items[-1:]:
        res.sample({k: e.get(k) for k in ("kind", "fault", "built", "ticks", "rep", "type")})
    for b in abad:
        e = evs[b["line"] - 1]
        broken = sorted(k for k, v in e["fault"].items() if v != "none")
        sig = {"monitor": "T_Assembly", "why": b["why"].split(" on the item")[0], "kind": e["kind"], "branches": broken}
        path = vlib.save_replay(ctx.pid, "assembly-%d" % e["n"], e)
        res.violations.append((sig, path, "%s with %s: %s %s" % (e["kind"], {k: e["fault"][k] for k in broken}, b["why"], ((e.get("what") or "") + " ".join(o["what"] for o in e["ops"] if o["outcome"] != "ok"))[:200])))


def run(ctx):
    res = vlib.Result(ctx, "fault_enumeration")
    q = ctx.quick
    for hops in ([1] if q else [0, 1, 2, 3]):
        r = ctx.tlc("Faults", "MC_Faults.cfg", consts={"Hops": hops, "BodyUnits": 8 if q else 20}).require_clean()
        res.add_tlc(r)
    # design-level: one time budget for a whole chain, with no deadline once it is used up, leaves a stalling peer unwatched
    sh = ctx.tlc("Faults", "MC_Faults_shared.cfg")
    res.add_tlc(sh)
    if not sh.violated:
        raise vlib.Inconclusive("the shared-budget variant of Faults.tla was expected to be refuted (NeverUnwatched)")
    res.extra["shared_budget_variant"] = "refuted (NeverUnwatched): slow hops within their limits, then a silent peer nobody watches"
    evs, frc, ftxt = run_harness(ctx, "jtp", "TestVerifFaults", {"stride": 7 if q else 1, "hops": 1 if q else 2}, timeout=2400, allow_fail=True)
    if frc != 0 and not any(e["ev"] == "aborted" for e in evs):
        raise vlib.Inconclusive("fault harness failed (rc=%d):\n%s" % (frc, ftxt[-2500:]))
    res.extra["fault_run_given_up_after_fetches_that_did_not_return"] = any(e["ev"] == "aborted" for e in evs)
    evs = [e for e in evs if e["ev"] == "fault"]
    lost = any(e["outcome"] == "timeout" for e in evs)
    if not lost:
        # (where single fetches already fail to come back, the driver of shared fetches cannot be expected to end: the fault run decides)
        shared, _, _ = run_harness(ctx, "client", "TestVerifFaultsShared", {}, timeout=900)
        evs += [e for e in shared if e["ev"] == "fault"]
    nav, nrc, ntxt = run_harness(ctx, "ui", "TestVerifFaultNav", {}, timeout=900, allow_fail=True, env={"VERIF_WORLD": "w1"})
    if nrc != 0 and not any(e["ev"] == "fault" for e in nav):
        raise vlib.Inconclusive("fault/navigation harness failed:\n" + ntxt[-1500:])
    evs += [e for e in nav if e["ev"] == "fault"]
    # a page that holds exactly what is asked for and whose next page cannot be loaded: the entries and then the error item, in this
    # request (the listing driver's scene, judged by ListingOK: an item at every position, none missing)
    from checks import c09
    pevs, prc, ptxt = run_harness(ctx, "pub", "TestVerifListing", {"sessions": [], "random": 0, "outbox_classes": c09.OUTBOX, "reply_classes": c09.REPLIES},
                                  timeout=900, allow_fail=True, name="exact-page")
    plist = [e for e in pevs if e["ev"] == "listing"]
    if prc != 0 or len(plist) < 3:
        raise vlib.Inconclusive("exact-page driver failed:\n" + ptxt[-1500:])
    pbad, _ = vlib.judge(ctx, "T_Prov", "T_Prov.cfg", pevs, name="T_Prov_exact_page")
    res.extra["pages_of_exactly_the_requested_size_with_a_dead_next_link"] = len(plist)
    for b in pbad:
        e = pevs[b["line"] - 1]
        if e["ev"] != "listing":
            continue
        path = vlib.save_replay(ctx.pid, "page-l%d" % b["line"], e)
        res.violations.append(({"monitor": "ListingOK", "why": b["why"]}, path,
                               "a page of %d entries whose next page cannot be loaded, asked for %d: shown %s (%s)" % (len(e["classes"]) - 1, len(e["classes"]) - 1, e["shown"], b["why"])))
    bad, r2 = vlib.judge(ctx, "T_Faults", "T_Faults.cfg", evs)
    res.traces = len(evs)
    for e in evs:
        res.case([e["hops"], e["hop"], e["kind"], e["at"], e["big"]])
    res.rule = ("a case is one fetch by the real jtp.Get with one fault (kind, hop, byte offset); cut and reset at every byte "
                "offset of every response of the corpus (quick: every 7th offset plus all line/brace boundaries), stalls and "
                "trickles at 6-8 offsets covering every stage, at every hop of 0/1/2-hop chains; distinct = distinct "
                "(chain length, hop, kind, offset, corpus item)")
    for e in (evs[:1] + [x for x in evs if x["kind"] == "stall"][:1] + [x for x in evs if x["kind"] == "trickle"][:1] + evs[-1:]):
        res.sample({k: e[k] for k in ("hops", "hop", "kind", "at", "stage", "outcome", "whole", "ticks", "ms", "err")})
    res.exhaustive = not q
    res.extra["outcomes"] = {k: sum(1 for e in evs if e["outcome"] == k) for k in ("ok", "err", "timeout", "panic", "nodoc")}
    res.extra["refetched_after_recovery"] = {k: sum(1 for e in evs if e.get("again") == k) for k in ("doc", "err", "nodoc", "panic")}
    res.assumptions = ["timeout configured to 1 s (in-package: dialer.Timeout); bound: 3 timeouts per hop, measured in whole timeouts",
                       "a response counts as whole once its JSON object (or, for a redirect, its Location line) has been delivered"]
    # pub level: a page of a collection that fails to load must become an error item, not a crash
    import random
    rnd = random.Random(ctx.seed)
    sessions = []
    for i in range(40 if q else 400):
        k = rnd.randint(1, 5)
        pages = [{"n": rnd.randint(0, 2), "next": (p + 2 if p < k - 1 else -1)} for p in range(k)]
        sessions.append({"pages": pages, "sizes": [rnd.randint(0, 4) for _ in range(rnd.randint(1, 4))]})
    pevs, prc, ptxt = run_harness(ctx, "pub", "TestVerifPaging", {"sessions": sessions, "random": 0}, timeout=900, allow_fail=True)
    pbad, r3 = vlib.judge(ctx, "T_Paging", "T_Paging.cfg", pevs, name="T_Paging_faults")
    pdone = [e for e in pevs if e["ev"] == "paging"]
    res.traces += len(pdone)
    for e in pdone:
        res.case(["paging", e["pages"], [c["n"] for c in e["calls"]], e["embedded"]])
    res.extra["collection_pages_failing_to_load"] = len(pdone)
    for b in pbad:
        e = pevs[b["line"] - 1]
        if b["why"] == "panic":
            path = vlib.save_replay(ctx.pid, "paging-s%d" % e["sid"], e)
            res.violations.append(({"monitor": "T_Paging", "why": "panic"}, path, "panic while a collection page failed to load: %s" % e.get("what")))
    if prc != 0:
        begun = [e for e in pevs if e["ev"] == "begin"]
        if "panic:" in ptxt and begun:
            path = vlib.save_replay(ctx.pid, "paging-crash-s%d" % begun[-1]["sid"], {"session": begun[-1], "output": ptxt[-3000:]})
            res.violations.append(({"monitor": "crash", "why": "process died"}, path,
                                   "the process crashed when a collection page failed to load: layout %s" % begun[-1]["pages"]))
        else:
            raise vlib.Inconclusive("paging harness failed:\n" + ptxt[-2000:])
    assembly(ctx, res, rnd)
    for b in bad:
        e = evs[b["line"] - 1]
        sig = {"monitor": "T_Faults", "why": b["why"], "kind": e["kind"], "after_handshake": e["stage"] not in ("connect", "handshake")}
        path = vlib.save_replay(ctx.pid, e["id"], e)
        res.violations.append((sig, path, "%s at hop %d/%d offset %d (%s): %s (outcome %s after %d ms)" % (
            e["kind"], e["hop"], e["hops"], e["at"], e["stage"], b["why"], e["outcome"], e["ms"])))
    return res
