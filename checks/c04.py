"""C04 - requests are anonymous, well-formed https GETs that content cannot tamper with.

Spec: Request.tla (byte-level acceptor of the one request servitor may send).  Conformance: hostile URLs
and webfinger handles are fed to the real code as user input, as Location headers and as references in
documents; the simulator's raw byte log of every connection (also of the C03 fetch histories) is judged
by T_Request; URLs that must not be dialled must produce no connection (plaintext probes are detected
by the simulator's listeners).
"""
import vlib
from checks.common import run_harness


def run(ctx):
    res = vlib.Result(ctx, "exploration")
    q = ctx.quick
    evs, _, _ = run_harness(ctx, "pub", "TestVerifRequests", {"random": 400 if q else 4000, "rounds": 4 if q else 25}, timeout=1500)
    # every request issued while browsing the UI worlds (key sessions and wild sessions of the ui driver)
    from checks import uidrv
    browsing = [e for e in uidrv.ui_events(ctx, res, frames=False) if e["ev"] == "conn"]
    evs.append({"ev": "case", "id": 900000, "mode": 8, "desc": "requests issued while browsing both UI worlds", "conns": len(browsing)})
    evs += browsing
    res.extra["connections_while_browsing"] = len(browsing)
    res.extra["default_port_scenarios_skipped"] = [e["what"] + ": " + e["why"] for e in evs if e["ev"] == "skipped"]
    res.extra["default_port_connections"] = sum(1 for e in evs if e["ev"] == "conn" and "host_alt" in e)
    bad, r = vlib.judge(ctx, "T_Request", "T_Request.cfg", evs)
    res.add_tlc(r)
    case = None
    cases = {}
    for i, e in enumerate(evs):
        if e["ev"] == "case":
            case = e
            res.case([e["mode"], e["desc"]])
            if len(res.samples) < 6 and e["id"] % 7 == 0:
                res.sample({"mode": e["mode"], "input": e["desc"], "connections": e["conns"]})
        cases[i + 1] = case
    res.traces = sum(1 for e in evs if e["ev"] in ("conn", "noconn"))
    res.rule = ("a case is one hostile URL or webfinger handle (grammar: hostile path segments and query parts incl. CR/LF, "
                "spaces, percent signs, userinfo, fragments, non-https schemes) given to the real code as typed input, as a "
                "Location header or as a document reference; every connection's raw bytes are judged by T_Request against "
                "Request.tla; distinct = distinct (channel, input)")
    res.assumptions = ["a Host header may leave out the default port 443 (judged only when port 443 can be bound on loopback)",
                       "a connection must arrive at the listener (address and port) its URL names",
                       "TLS layer: a resumed session or a client certificate counts as identifying data", "the request names the path as written: dot segments and empty segments are generated and must arrive as they are",
                       "request-target equivalence = equal percent-decoded path and query"]
    for b in bad:
        e = evs[b["line"] - 1]
        c = cases[b["line"]]
        raw = bytes(e.get("raw", [])).decode("latin-1")
        line1 = raw.split("\r\n")[0] if raw else ""
        sig = {"monitor": "T_Request", "why": b["why"], "space_in_target": line1.count(" ") > 2}
        path = vlib.save_replay(ctx.pid, "c%d" % c["id"], {"case": c, "raw_request": raw, "why": b["why"]})
        res.violations.append((sig, path, "%s: input %r -> request %r" % (b["why"], c["desc"][:80], raw[:100])))
    return res
