"""C17 - typed accessors classify every JSON value correctly and never crash.

Spec: Values.tla - decision table accessor x value class -> allowed outcomes (total, mutually exclusive;
checked by TLC, which also enumerates the cells).  For each cell the object driver draws concrete JSON
texts, decodes them as the fetcher does and calls the real accessor; outcome class and canonical value
(exact decimal expansion of the IEEE double for numbers) are judged by TLC (T_Values).
There is no interesting state here: the specification is a decision table and oracle.
"""
import vlib
from checks.common import run_harness


def run(ctx):
    res = vlib.Result(ctx, "exploration")
    q = ctx.quick
    r = ctx.tlc("MC_Values", "MC_Values.cfg").require_clean()
    res.add_tlc(r)
    cells = ctx.tlc("MC_Values", "Gen_Values.cfg").json_lines("GEN")
    if len(cells) != 234:
        raise vlib.Inconclusive("expected 234 table cells, generator gave %d" % len(cells))
    evs, _, _ = run_harness(ctx, "object", "TestVerifAccessors", {"cells": cells, "draws": 12 if q else 150})
    bad, r2 = vlib.judge(ctx, "T_Values", "T_Values.cfg", evs)
    res.traces = len(evs)
    for e in evs:
        res.case([e["acc"], e["class"], e["json"]])
    res.rule = ("a case is one call of a real accessor on a concrete JSON text of a known value class (25 classes: null, booleans, "
                "8 number classes incl. negative, fractional, 2^53, 2^63, 2^64 boundaries and 1e300, 10 string classes incl. control "
                "characters, arrays, objects); judged by T_Values against the decision table of Values.tla and for returned values "
                "against the canonical faithful value; distinct = distinct (accessor, class, JSON text)")
    for e in evs[:1] + [x for x in evs if x["acc"] == "GetNumber" and x["class"] == "num_big_in_range"][:1] + evs[-1:]:
        res.sample({k: e[k] for k in ("acc", "class", "json", "outcome", "got", "want")})
    res.exhaustive = False
    res.extra["table_cells"] = len(cells)
    res.assumptions = ["classes are assigned by the generator, which only draws unambiguous members", "GetList on an empty array may report a value or absent"]
    for b in bad:
        e = evs[b["line"] - 1]
        sig = {"monitor": "T_Values", "why": b["why"], "acc": e["acc"], "class": e["class"]}
        path = vlib.save_replay(ctx.pid, "l%d" % b["line"], e)
        res.violations.append((sig, path, "%s on %s value %s: %s (outcome %s, returned %s, JSON holds %s)" % (
            e["acc"], e["class"], e["json"], b["why"], e["outcome"], e["got"], e["want"])))
    return res
