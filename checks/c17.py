"""C17 - typed accessors classify every JSON value correctly and never crash.

Spec: Values.tla - decision table accessor x value class -> allowed outcomes (total, mutually exclusive;
checked by TLC, which also enumerates the cells).  For each cell the object driver draws concrete JSON
texts, decodes them as the fetcher does and calls the real accessor; outcome class and canonical value
(exact decimal expansion of the IEEE double for numbers) are judged by TLC (T_Values).
There is no interesting state here: the specification is a decision table and oracle.
"""
import vlib
from checks.common import run_harness


def run(ctx):
    res = vlib.Result(ctx, "exploration")
    q = ctx.quick
    r = ctx.tlc("MC_Values", "MC_Values.cfg").require_clean()
    res.add_tlc(r)
    cells = ctx.tlc("MC_Values", "Gen_Values.cfg").json_lines("GEN")
    if len(cells) != 270:
        raise vlib.Inconclusive("expected 270 table cells, generator gave %d" % len(cells))
    evs, _, _ = run_harness(ctx, "object", "TestVerifAccessors", {"cells": cells, "draws": 12 if q else 150})
    # objects read side by side (pub builds the parts of a post in goroutines of their own); a fault there ends the process
    sevs, rc, txt = run_harness(ctx, "object", "TestVerifAccessorsSideBySide", {}, allow_fail=True, name="sidebyside")
    begun = [e for e in sevs if e["ev"] == "begin"]
    ended = [e for e in sevs if e["ev"] == "end"]
    sevs = [e for e in sevs if e["ev"] == "accessor"]
    if rc != 0:
        if begun and not ended and ("fatal error:" in txt or "panic:" in txt):
            first = [l for l in txt.splitlines() if "fatal error:" in l or "panic:" in l][:1]
            sevs.append({"ev": "accessor", "acc": "GetMediaType", "class": "str_mime", "json": "(eight readers side by side)", "outcome": "panic", "got": "", "want": "",
                         "again": "", "panic": True, "mutated": False, "what": "the process ended: " + (first[0] if first else txt[-300:])})
        else:
            raise vlib.Inconclusive("side-by-side harness failed:\n" + txt[-2000:])
    res.extra["reads_side_by_side"] = len(sevs)
    # the constructors of pub are readers too: every systematic object (1 700 single deviations of the vocabulary) is built, exercised
    # and compared with what it was
    uevs, _, _ = run_harness(ctx, "pub", "TestVerifUnchanged", {}, timeout=1500, name="unchanged")
    uevs = [e for e in uevs if e["ev"] == "accessor"]
    if len(uevs) < 1000:
        raise vlib.Inconclusive("the unchanged-document driver produced %d cases" % len(uevs))
    res.extra["documents_compared_after_construction"] = len(uevs)
    evs = evs + sevs + uevs
    bad, r2 = vlib.judge(ctx, "T_Values", "T_Values.cfg", evs)
    res.traces = len(evs)
    for e in evs:
        res.case([e["acc"], e["class"], e["json"]])
    res.rule = ("a case is one call of a real accessor on a concrete JSON text of a known value class (26 classes: null, booleans, "
                "8 number classes incl. negative, fractional, 2^53, 2^63, 2^64 boundaries and 1e300, 11 string classes incl. control "
                "characters and invisible format characters, arrays, objects); judged by T_Values against the decision table of Values.tla and for returned values "
                "against the canonical faithful value; distinct = distinct (accessor, class, JSON text)")
    for e in evs[:1] + [x for x in evs if x["acc"] == "GetNumber" and x["class"] == "num_big_in_range"][:1] + evs[-1:]:
        res.sample({k: e[k] for k in ("acc", "class", "json", "outcome", "got", "want")})
    res.exhaustive = False
    res.extra["table_cells"] = len(cells)
    res.assumptions = ["a value handed out (URL, media type) is scribbled over by its holder before the same JSON is read again from a second copy; eight goroutines read objects of their own side by side", "classes are assigned by the generator, which only draws unambiguous members", "GetList on an empty array may report a value or absent"]
    for b in bad:
        e = evs[b["line"] - 1]
        sig = {"monitor": "T_Values", "why": b["why"], "acc": e["acc"], "class": e["class"]}
        path = vlib.save_replay(ctx.pid, "l%d" % b["line"], e)
        res.violations.append((sig, path, "%s on %s value %s: %s (outcome %s, returned %s, JSON holds %s)" % (
            e["acc"], e["class"], e["json"], b["why"], e["outcome"], e["got"], e["want"])))
    return res
