"""C19 - a configuration is either rejected at startup or safe to run with.

Spec: Config.tla - configuration files as vectors of field classes, the start-up decision and the
assumptions of every later consumer (cache, preload, hook, colours); MC_Config checks AcceptedIsSafe over
the full product and enumerates the vectors.  For each selected vector a TOML file with concrete values is
written and a real process (the ui harness binary, XDG_CONFIG_HOME pointing at the file) goes through
start-up, first fetch, render, page load, external open and feed against the simulator; T_Config judges
decision, diagnostic, later steps and colour codes.  The colour converter is swept over all 2^24 hex strings
by the config driver (driver-side count, declared as such).
"""
import concurrent.futures
import json
import os
import random
import subprocess
import vlib
from checks.common import run_harness

VALUES = {
    "hook": {"empty": "hook = []", "program_only": 'hook = ["true"]', "with_args": 'hook = ["/bin/sh", "-c", "exit 0", "%url", "%mimetype"]', "wrong_type": 'hook = "xdg-open"',
             "blank_program": ['hook = [""]', 'hook = ["", "%url"]', 'hook = ["  ", "%url"]', 'hook = ["\\t"]']},
    "cache": {"negative": ["cache_size = -3", "cache_size = -9223372036854775808"], "zero": "cache_size = 0", "one": "cache_size = 1", "positive": "cache_size = 7", "huge": "cache_size = 4611686018427387904", "wrong_type": 'cache_size = "big"'},
    "preload": {"negative": ["preload_amount = -2", "preload_amount = -9223372036854775808", "preload_amount = -9223372036854775803", "preload_amount = -9223372036854770000"], "zero": "preload_amount = 0", "positive": "preload_amount = 3", "huge": "preload_amount = 9223372036854775807", "wrong_type": 'preload_amount = "many"'},
    "timeout": {"negative": ["timeout_seconds = -1", "timeout_seconds = -9223372036854775808"], "zero": "timeout_seconds = 0", "positive": "timeout_seconds = 2", "huge": "timeout_seconds = 9223372037", "fractional": ["timeout_seconds = 1.5", "timeout_seconds = 0.25", "timeout_seconds = 2.0"],
                "special": ["timeout_seconds = nan", "timeout_seconds = +nan", "timeout_seconds = inf", "timeout_seconds = +inf", "timeout_seconds = -inf", "timeout_seconds = -nan"], "wrong_type": 'timeout_seconds = "soon"'},
    "colour": {"valid": '"#12aB9f"', "empty": '""', "short": '"#123"', "no_hash": '"x12ab9f"', "non_hex": '"#12ab9g"', "signed": '"#+1-2ab"', "wrong_type": "5"},
}


def pick(value, rnd, variant=None):
    if not isinstance(value, list):
        return value
    return value[variant % len(value)] if variant is not None else rnd.choice(value)


ONE_LINERS = ["[feeds", "network.cache_size =", 'style.colors.primary = "#A4f59b', 'feeds.x = ["a", ', "[", "x = {", 'media.hook = ["']

# tables nobody knows: with a key of their own, without any, below a known table, below a known key path, written inline
UNKNOWN_TABLES = [["[nonsense]", "x = 1"], ["[bogus]"], ["[network.proxy]"], ["[style.colors.dark]"], ["fonts = {}"], ["[networks.a]", "[networks.b]"],
                  ["[[things]]", "x = 1"], ["[media.player]", "name = 1"]]


def toml_for(v, rnd):
    if v["shape"] in ("missing_file", "no_location"):
        return None
    if v["shape"] == "empty_file":
        return ""
    if v["shape"] == "syntax_error" and v.get("variant") is not None and v["variant"] >= 4:
        # a file that is one line breaking off unfinished, without a line break at its end
        return ONE_LINERS[(v["variant"] - 4) % len(ONE_LINERS)]
    lines = []
    if v["hook"] != "absent":
        lines += ["[media]", pick(VALUES["hook"][v["hook"]], rnd, v.get("variant"))]
    net = [pick(VALUES[k][v[k]], rnd, v.get("variant")) for k in ("cache", "preload", "timeout") if v[k] != "absent"]
    if v["shape"] == "unknown_key":
        net.append("bogus_key = 1")
    if net:
        lines += ["[network]"] + net
    if v["colour"] != "absent":
        key = rnd.choice(["primary", "error", "highlight", "code_background"])
        lines += ["[style.colors]", "%s = %s" % (key, VALUES["colour"][v["colour"]])]
    if v["shape"] == "ok":
        lines += ["[feeds]", "empty = []"]      # a feed that lists nothing is a legitimate configuration
    if v["shape"] == "unknown_table":
        t = pick(UNKNOWN_TABLES, rnd, v.get("variant"))
        if t == ["fonts = {}"]:
            lines = t + lines       # a key of the root table has to come before the first table header
        else:
            lines += t
    if v["shape"] == "syntax_error":
        lines.append(rnd.choice(["= = =", "[network", 'key = "unterminated', "cache_size == 3"]))
    return "\n".join(lines) + "\n"


def probe(ctx, binary, idx, vec, text):
    d = os.path.join(ctx.scratch, "cfg-%d" % idx)
    os.makedirs(os.path.join(d, "servitor"), exist_ok=True)
    if text is not None:
        with open(os.path.join(d, "servitor", "config.toml"), "w") as f:
            f.write(text)
    out = os.path.join(d, "trace.ndjson")
    env = ctx.go_env({"VERIF_OUT": out})
    env["XDG_CONFIG_HOME"] = d
    env["TMPDIR"] = d
    if vec["shape"] == "no_location":
        # as under cron or `env -i`: no HOME, no XDG_CONFIG_HOME
        env.pop("XDG_CONFIG_HOME", None)
        env.pop("HOME", None)
    try:
        p = subprocess.run([binary, "-test.run", "^TestVerifConfigProbe$", "-test.timeout", "120s"], cwd=d, env=env,
                           stdout=subprocess.PIPE, stderr=subprocess.STDOUT, timeout=150)
        rc, txt = p.returncode, p.stdout.decode("utf-8", "replace")
    except subprocess.TimeoutExpired:
        rc, txt = -9, "timeout"
    evs = vlib.read_ndjson(out) if os.path.exists(out) else []
    start = [e for e in evs if e["ev"] == "start"]
    steps = [{"step": e["step"], "outcome": e["outcome"]} for e in evs if e["ev"] == "step"]
    begun = [e["step"] for e in evs if e["ev"] == "step_begin"]
    done = any(e["ev"] == "done" for e in evs)
    ev = {"ev": "config", "idx": idx, "vec": vec, "toml": text if text is not None else "(no file)", "rc": rc, "timeout_ms": start[0].get("timeout_ms", 0) if start else 0}
    if not start:
        ev.update({"decision": "rejected", "diagnostic": "failed to parse" in txt and rc == 1, "steps": [], "colours": [], "stderr": txt[-300:]})
    else:
        if not done and len(begun) > len(steps):
            steps.append({"step": begun[-1], "outcome": "hang" if rc == -9 else "crash"})
            ev["stderr"] = txt[-600:]
        ev.update({"decision": "accepted", "diagnostic": False, "steps": steps, "colours": start[0]["colours"]})
    outs = [e for e in evs if e["ev"] == "out"]
    return ev, outs


def run(ctx):
    res = vlib.Result(ctx, "exploration")
    q = ctx.quick
    r = ctx.tlc("MC_Config", "MC_Config.cfg").require_clean()
    res.add_tlc(r)
    vectors = ctx.tlc("MC_Config", "Gen_Config.cfg").json_lines("GEN")
    if len(vectors) != 112896:
        raise vlib.Inconclusive("expected 112896 class vectors, generator gave %d" % len(vectors))
    rnd = random.Random(ctx.seed)
    # the full product of the four fields consumers depend on (other classes benign), then a sample of the rest
    core = [v for v in vectors if v["colour"] in ("absent", "valid") and v["shape"] == "ok" and v["colour"] == "valid"]
    rest = [v for v in vectors if v not in core] if not q else None
    if q:
        rnd.shuffle(core)
        chosen = core[:70]
        others = [v for v in vectors if v["shape"] != "ok" or v["colour"] not in ("valid",)]
        rnd.shuffle(others)
        # make sure every single class of every field occurs
        seen = set()
        for v in vectors:
            for k, c in v.items():
                if (k, c) not in seen and all((kk, cc) in seen or kk == k for kk, cc in v.items() if False):
                    pass
        chosen += others[:60]
        chosen.append({"hook": "absent", "cache": "absent", "preload": "absent", "timeout": "absent", "colour": "absent", "shape": "no_location"})
        for k in range(3):
            chosen.append({"hook": "with_args", "cache": "positive", "preload": "negative", "timeout": "positive", "colour": "valid", "shape": "ok"})
    else:
        rnd.shuffle(rest)
        chosen = core + rest[:700]
    for field, classes in (("hook", ["empty"] + ["blank_program"] * 4), ("cache", ["zero", "negative", "one", "huge"]), ("preload", ["negative", "zero", "huge"]),
                           ("timeout", ["negative", "zero", "huge"] + ["fractional"] * 3 + ["special"] * 6),
                           ("colour", ["empty", "short", "no_hash", "non_hex", "signed", "wrong_type"]), ("shape", ["unknown_table"] * len(UNKNOWN_TABLES)),
                           ("shape", ["syntax_error"] * (4 + len(ONE_LINERS)))):
        for k, c in enumerate(classes):
            base = {"hook": "with_args", "cache": "positive", "preload": "positive", "timeout": "positive", "colour": "valid", "shape": "ok"}
            base[field] = c
            base["variant"] = k     # which of the concrete values of the class
            chosen.append(base)
    binary = ctx.go_test_binary("ui")
    events, outs = [], []
    with concurrent.futures.ThreadPoolExecutor(max_workers=12) as ex:
        futs = [ex.submit(probe, ctx, binary, i, v, toml_for(v, random.Random(ctx.seed * 1000 + i))) for i, v in enumerate(chosen)]
        for f in futs:
            ev, o = f.result()
            events.append(ev)
            outs += o
    cevs, _, _ = run_harness(ctx, "config", "TestVerifColours", {}, timeout=900)
    events += [e for e in cevs if e["ev"] == "colours"]
    bad, r2 = vlib.judge(ctx, "T_Config", "T_Config.cfg", events)
    bad2, r3 = vlib.judge(ctx, "T_Term", "T_Term.cfg", outs, name="T_Term_config") if outs else ([], None)
    res.traces = len(events)
    for e in events:
        if e["ev"] == "config":
            res.case(e["vec"])
    res.extra["accepted"] = sum(1 for e in events if e.get("decision") == "accepted")
    res.extra["rejected"] = sum(1 for e in events if e.get("decision") == "rejected")
    res.extra["colour_sweep"] = [e for e in events if e["ev"] == "colours"]
    res.rule = ("a case is one real start-up (own process, XDG_CONFIG_HOME) with a TOML file realising a class vector of Config.tla, followed "
                "- if accepted - by a first fetch, render, page load with movement, external open and feed against the simulator; "
                "judged by T_Config; distinct = distinct class vector; quick: 70 of the 2016 vectors over hook x cache_size x "
                "preload_amount x timeout_seconds, 60 vectors with malformed colours / unknown keys / syntax errors / missing or empty "
                "files, and every dangerous class alone; thorough: all 2016 plus 700 sampled others; all 2^24 colours swept driver-side")
    cs = [e for e in events if e["ev"] == "config"]
    for e in cs[:1] + cs[-1:]:
        res.sample({k: e[k] for k in ("vec", "toml", "decision", "diagnostic", "steps")})
    res.assumptions = ["each class is realised by one concrete value per field", "a failing hook program or a failing fetch is an error, not a crash",
                       "the 2^24 colour sweep is judged by the Go driver (counts only); TLC judges the counts and the class table"]
    for b in bad:
        e = events[b["line"] - 1]
        if e["ev"] == "colours":
            sig = {"monitor": "colours"}
            text = "colour sweep: %s" % e
        else:
            danger = [k for k in ("hook", "cache", "preload", "timeout") if e["vec"][k] in ("empty", "zero", "negative")]
            crashed = [s["step"] for s in e["steps"] if s["outcome"] not in ("ok", "error")]
            sig = {"monitor": "T_Config", "why": b["why"], "field": ",".join("%s=%s" % (k, e["vec"][k]) for k in danger), "step": ",".join(crashed)}
            text = "%s: %s -> %s %s %s" % (b["why"], e["vec"], e["decision"], e["steps"], (e.get("stderr") or "")[-200:].replace("\n", " | "))
        path = vlib.save_replay(ctx.pid, "c%d" % b["line"], e)
        res.violations.append((sig, path, text))
    for b in bad2:
        res.violations.append(({"monitor": "T_Term", "why": ",".join(b["why"])}, vlib.save_replay(ctx.pid, "o%d" % b["line"], {"src": "config render"}),
                               "rendering under an accepted configuration fails %s" % b["why"]))
    return res
