"""C14 - styling applies to exactly the intended characters and never leaks.

Spec: Layout.ApplyOK + Term.tla; MC_Style explores all nestings/concatenations of style applications over
small texts followed by layout operations (NeutralAtBreaks, AttrsAsExpected).  Conformance: the real
style.* functions composed at random over identified glyphs, then real layout operations and cuts at line
boundaries; plus (when available) renderings, previews and UI frames of the other drivers.  Token streams
are judged by TLC folding the terminal acceptor (T_Term).
"""
import vlib
from checks.common import run_harness, mc_layout


def other_outputs(ctx, res):
    try:
        from checks import outputs
    except ImportError:
        return []
    return outputs.collect(ctx, res, want="C14")


def run(ctx):
    res = vlib.Result(ctx, "model_checking")
    q = ctx.quick
    r = ctx.tlc("MC_Style", "MC_Style.cfg", consts={"MaxCells": 3, "MaxStyle": 2, "MaxLayout": 1 if q else 2}).require_clean()
    res.add_tlc(r)
    mc_layout(ctx, res, ["apply"], 5 if q else 7)
    evs, _, _ = run_harness(ctx, "style", "TestVerifStyle", {"random": 1500 if q else 15000, "depth": 4, "deep": 9})
    evs += other_outputs(ctx, res)
    bad, r2 = vlib.judge(ctx, "T_Term", "T_Term.cfg", evs)
    res.traces = len(evs)
    for e in evs:
        res.case([e["kind"], e.get("ops"), [(t["t"], t.get("p"), t.get("id")) for t in e["toks"]][:400]])
    res.rule = ("a case is one output string of the real code (a random composition of style functions over identified "
                "glyphs followed by up to 3 layout operations / line cuts, or a rendering/preview/frame from another driver), "
                "tokenised and judged by T_Term (neutral at every line break and at the end; per-glyph attributes as applied); "
                "distinct = distinct token stream")
    for e in evs[:2]:
        res.sample({"kind": e["kind"], "ops": e.get("ops"), "raw": e.get("raw", "")[:200], "expect": dict(list(e.get("expect", {}).items())[:3])})
    res.assumptions = ["colours: of several colour functions of one plane around a glyph the innermost one shows (as the renderers rely on: a mark inside code, an error inside a quote)",
                       "decorations added by the style layer itself (bullets, quote bars, superscripts) are only checked for neutrality at breaks"]
    for b in bad:
        e = evs[b["line"] - 1]
        sig = {"monitor": "T_Term", "why": ",".join(b["why"]), "kind": e["kind"]}
        path = vlib.save_replay(ctx.pid, "l%d" % b["line"], {k: e.get(k) for k in ("kind", "ops", "raw", "expect", "w", "h", "src", "panic")})
        res.violations.append((sig, path, "%s output fails %s: %r" % (e["kind"], b["why"], (e.get("raw") or "")[:80])))
    return res
