"""C01 - remote content can never emit terminal control sequences.

Spec: Sanitize.tla (sources, pipelines of decoders and scrubbers of the current tree, SinkClean) +
Term.tla (NoCtl).  MC_Sanitize enumerates every expressible (source, character class, encoding) and
checks that nothing raw and non-printable reaches a sink.  For each obligation the pub driver realises the
class by its representatives (all C0 codes, DEL, all C1 codes incl. CSI/OSC/DCS; raw, character reference,
percent-encoded, raw network byte) in every field the source names, builds the items with the real
constructors (network sources through the simulator) and tokenises every string they can print; UI frames
of the key sessions are added.  T_Term judges NoCtl on every output.
"""
import vlib
from checks.common import run_harness
from checks import uidrv


def sanitize_events(ctx, res, only=None):
    q = ctx.quick
    obligations = ctx.tlc("MC_Sanitize", "Gen_Sanitize.cfg").json_lines("GEN")
    if len(obligations) < 100:
        raise vlib.Inconclusive("obligation generator produced %d obligations" % len(obligations))
    if only:
        obligations = [o for o in obligations if o["src"] in only]
    evs, _, _ = run_harness(ctx, "pub", "TestVerifSanitize", {"obligations": obligations, "all": not q}, timeout=3000)
    res.extra["obligations_from_tlc"] = len(obligations)
    return evs


def run(ctx):
    res = vlib.Result(ctx, "exploration")
    r = ctx.tlc("MC_Sanitize", "MC_Sanitize.cfg").require_clean()
    res.add_tlc(r)
    evs = sanitize_events(ctx, res)
    ui = uidrv.ui_events(ctx, res, frames=True)
    evs += [e for e in ui if e["ev"] == "out"]
    for e in evs:
        e["chk"] = ["noctl"]
        e.setdefault("ops", [])
        e.setdefault("src", "ui frame")
    bad, r2 = vlib.judge(ctx, "T_Term", "T_Term.cfg", evs)
    res.traces = len(evs)
    for e in evs:
        res.case([e["kind"], e["src"], [(t["t"], t.get("n"), t.get("p"), t.get("code")) for t in e["toks"]][:200]])
    res.rule = ("a case is one string the real code would print (Name, Preview, String at two widths, parents, creators, actor; UI "
                "frames) for an item built from a document or HTTP exchange carrying one payload (character class x encoding x "
                "field x position); tokenised and judged by T_Term (no control token, only SGR sequences of the kinds servitor "
                "generates); distinct = distinct (output kind, obligation and field, token stream)")
    some = [e for e in evs if e["kind"].startswith("item-")]
    for e in some[:2] + some[-1:]:
        res.sample({"kind": e["kind"], "src": e["src"], "raw": e.get("raw")})
    res.assumptions = ["printable = not unicode.IsControl and no escape; format/bidi characters are not demanded away",
                       "quick: boundary and well-known representatives of each class; thorough: every code of each class"]
    for b in bad:
        e = evs[b["line"] - 1]
        codes = sorted({t.get("code", 0) for t in e["toks"] if t["t"] == "ctl"})
        sig = {"monitor": "NoCtl", "source": e["src"].split("/")[0].split(" ")[0], "kind": e["kind"]}
        path = vlib.save_replay(ctx.pid, "l%d" % b["line"], {k: e.get(k) for k in ("kind", "src", "raw")})
        res.violations.append((sig, path, "%s of %s contains control codes %s / unknown SGR: %s" % (e["kind"], e["src"], codes, (e.get("raw") or "")[:120])))
    return res
