"""C01 - remote content can never emit terminal control sequences.

Spec: Sanitize.tla (sources, pipelines of decoders and scrubbers of the current tree, SinkClean) +
Term.tla (NoCtl).  MC_Sanitize enumerates every expressible (source, character class, encoding) and
checks that nothing raw and non-printable reaches a sink.  For each obligation the pub driver realises the
class by its representatives (all C0 codes, DEL, all C1 codes incl. CSI/OSC/DCS; raw, character reference,
percent-encoded, raw network byte) in every field the source names, builds the items with the real
constructors (network sources through the simulator) and tokenises every string they can print; UI frames
of the key sessions are added.  T_Term judges NoCtl on every output.
"""
import vlib
from checks.common import run_harness
from checks import uidrv


def obligations(ctx, res, only=None):
    obl = ctx.tlc("MC_Sanitize", "Gen_Sanitize.cfg").json_lines("GEN")
    if len(obl) < 100:
        raise vlib.Inconclusive("obligation generator produced %d obligations" % len(obl))
    res.extra["obligations_from_tlc"] = len(obl)
    if only:
        obl = [o for o in obl if o["src"] in only]
    return obl


def sanitize_events(ctx, res, only=None, chunk=None):
    """Outputs of the sanitize driver for the given obligations (all of them by default)."""
    obl = chunk if chunk is not None else obligations(ctx, res, only)
    evs, _, _ = run_harness(ctx, "pub", "TestVerifSanitize", {"obligations": obl, "all": not ctx.quick}, timeout=3000,
                            name="sanitize-%s" % (obl[0]["src"] if chunk is not None and obl else "all"))
    return evs


def judge_outputs(ctx, res, evs, tag):
    """NoCtl on a batch of output events; counts go to res, violations are returned."""
    for e in evs:
        e["chk"] = ["noctl"]
        e.setdefault("ops", [])
        e.setdefault("src", "ui frame")
    bad, r2 = vlib.judge(ctx, "T_Term", "T_Term.cfg", evs, name="T_Term-" + tag)
    res.traces += len(evs)
    for e in evs:
        res.case([e["kind"], e["src"], [(t["t"], t.get("n"), t.get("p"), t.get("code")) for t in e["toks"]][:200]])
    some = [e for e in evs if e["kind"].startswith("item-")]
    for e in some[:1]:
        res.sample({"kind": e["kind"], "src": e["src"], "raw": e.get("raw")}, limit=5)
    out = []
    for b in bad:
        e = evs[b["line"] - 1]
        codes = sorted({t.get("code", 0) for t in e["toks"] if t["t"] == "ctl"})
        sig = {"monitor": "NoCtl", "source": e["src"].split("/")[0].split(" ")[0], "kind": e["kind"]}
        path = vlib.save_replay(ctx.pid, "%s-l%d" % (tag, b["line"]), {k: e.get(k) for k in ("kind", "src", "raw")})
        out.append((sig, path, "%s of %s contains control codes %s / unknown SGR: %s" % (e["kind"], e["src"], codes, (e.get("raw") or "")[:120])))
    return out


def run(ctx):
    res = vlib.Result(ctx, "exploration")
    r = ctx.tlc("MC_Sanitize", "MC_Sanitize.cfg").require_clean()
    res.add_tlc(r)
    obl = obligations(ctx, res)
    # source by source, so that neither the harness output nor the trace handed to TLC grows without bound
    sources = sorted({o["src"] for o in obl} - {"hook_output", "typed_text"})
    groups = [[s] for s in sources] if not ctx.quick else [sources[0::3], sources[1::3], sources[2::3]]
    for group in groups:
        part = [o for o in obl if o["src"] in group]
        if not part:
            continue
        evs = sanitize_events(ctx, res, chunk=part)
        res.violations += judge_outputs(ctx, res, evs, group[0])
        del evs
    ui = uidrv.ui_events(ctx, res, frames=True)
    res.violations += judge_outputs(ctx, res, [e for e in ui if e["ev"] == "out"], "frames")
    res.rule = ("a case is one string the real code would print (Name, Preview, String at two widths, parents, creators, actor; UI "
                "frames) for an item built from a document or HTTP exchange carrying one payload (character class x encoding x "
                "field x position); tokenised and judged by T_Term (no control token, only SGR sequences of the kinds servitor "
                "generates); distinct = distinct (output kind, obligation and field, token stream)")
    res.assumptions = ["printable = not unicode.IsControl and no escape; format/bidi characters are not demanded away",
                       "quick: boundary and well-known representatives of each class; thorough: every code of each class"]
    return res
