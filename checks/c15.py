"""C15 - rendered markup fits the requested width and depends only on content and width.

Spec: Markup.tla render cache (CacheRender, all width sequences over {1,2,80,81}: CacheTransparent) and
Term.tla WidthBound; the width bound of the final wrap is a property of the Wrap algorithm (MC_Layout).
The pub driver renders the body markup of every generated document (four markups) along TLC-generated
and random width sequences, each time also on a fresh object; T_Markup judges determinism, T_Term the
width of every rendering.
"""
import vlib
from checks.common import mc_layout
from checks import c12


def run(ctx):
    res = vlib.Result(ctx, "model_checking")
    q = ctx.quick
    r = ctx.tlc("MC_Markup", "MC_Markup.cfg", consts={"Mode": '"cache"'}).require_clean()
    res.add_tlc(r)
    mc_layout(ctx, res, ["wrap"], 5 if q else 7)
    evs = c12.markup_events(ctx, res)
    renders = [e for e in evs if e["ev"] in ("robj", "render")]
    outs = [e for e in evs if e["ev"] == "out" and e["kind"].startswith("render-")]
    bad1, r1 = vlib.judge(ctx, "T_Markup", "T_Markup.cfg", renders)
    bad2, r2 = vlib.judge(ctx, "T_Term", "T_Term.cfg", outs)
    res.traces = sum(1 for e in renders if e["ev"] == "robj")
    for e in renders:
        if e["ev"] == "render":
            res.case([e["markup"], e["doc"], e["w"]])
    res.extra["by_markup"] = {m: sum(1 for e in renders if e["ev"] == "render" and e["markup"] == m) for m in ("html", "markdown", "gemtext", "plain")}
    res.rule = ("a case is one Render(w) call on a markup object with a history of earlier widths (sequences over {1,2,80,81} from "
                "TLC followed by random widths up to 120), compared with a fresh object and with earlier calls at the same width "
                "(T_Markup) and checked for the width bound by folding the terminal acceptor over its tokens (T_Term); distinct = "
                "distinct (markup, document, width)")
    rr = [e for e in renders if e["ev"] == "render"]
    for e in rr[:1] + rr[-1:]:
        res.sample({k: e[k] for k in ("markup", "doc", "w", "digest", "fresh")})
    res.assumptions = ["widths >= 1", "equality of renderings is compared through SHA-1 digests"]
    for b in bad1:
        e = renders[b["line"] - 1]
        sig = {"monitor": "CacheTransparent", "why": b["why"], "markup": e["markup"]}
        path = vlib.save_replay(ctx.pid, "r%d" % b["line"], e)
        res.violations.append((sig, path, "%s document %r rendered at width %d differs from a fresh rendering / an earlier one" % (e["markup"], e["doc"][:80], e["w"])))
    for b in bad2:
        e = outs[b["line"] - 1]
        sig = {"monitor": "T_Term", "why": ",".join(b["why"]), "markup": e["kind"][7:]}
        path = vlib.save_replay(ctx.pid, "o%d" % b["line"], {k: e.get(k) for k in ("kind", "w", "src")})
        res.violations.append((sig, path, "%s rendering of %r at width %d fails %s" % (e["kind"][7:], e["src"][:80], e["w"], b["why"])))
    return res
