"""C10 - paging a collection yields every item exactly once, in order, and terminates.

Spec: Paging.tla (HistoryOK = the property over a whole session; HarvestM = harvestWithEmptyCount as coded).
MC_Paging: all layouts (any next pointers incl. back edges and broken links) x all request-size sequences.
TLC enumerates (layout, sizes) sessions; the pub driver realises each as embedded JSON or page by page on
the simulator and harvests the real pub.Collection; T_Paging judges every session history.
"""
import vlib
from checks.common import run_harness


def run(ctx):
    res = vlib.Result(ctx, "model_checking")
    q = ctx.quick
    r = ctx.tlc("MC_Paging", "MC_Paging.cfg", consts={"MaxPages": 3, "MaxItems": 2, "MaxN": 2 if q else 3, "MaxCalls": 3 if q else 4}).require_clean()
    res.add_tlc(r)
    r = ctx.tlc("MC_Paging", "MC_Paging.cfg", consts={"Shape": '"chain"', "MaxPages": 7 if q else 9, "MaxItems": 1, "MaxN": 4, "MaxCalls": 2}).require_clean()
    res.add_tlc(r)
    g = ctx.tlc("MC_Paging", "Gen_Paging.cfg", consts={"MaxPages": 2 if q else 3, "MaxItems": 2, "MaxN": 3, "MaxCalls": 3 if q else 4})
    sessions = g.json_lines("GEN")
    g2 = ctx.tlc("MC_Paging", "Gen_Paging.cfg", consts={"Shape": '"chain"', "MaxPages": 6 if q else 8, "MaxItems": 1, "MaxN": 4, "MaxCalls": 1})
    sessions += [s for i, s in enumerate(g2.json_lines("GEN")) if s["sizes"] and max(s["sizes"]) >= 3]
    # two-call sessions over plain chains (a request ending exactly at a page end, then empties, then more)
    g3 = ctx.tlc("MC_Paging", "Gen_Paging.cfg", consts={"Shape": '"chain"', "MaxPages": 7, "MaxItems": 1, "MaxN": 3, "MaxCalls": 2})
    two = [s for s in g3.json_lines("GEN") if len(s["sizes"]) == 2 and min(s["sizes"]) >= 1 and len(s["pages"]) >= 5]
    import random as _r
    _r.Random(ctx.seed + 1).shuffle(two)
    sessions += two[:2500 if q else 25000]
    if len(sessions) < 100:
        raise vlib.Inconclusive("generator produced %d sessions" % len(sessions))
    if q and len(sessions) > 9000:
        import random
        random.Random(ctx.seed).shuffle(sessions)
        sessions = sessions[:9000]
    evs, rc, txt = run_harness(ctx, "pub", "TestVerifPaging", {"sessions": sessions, "random": 300 if q else 3000}, timeout=2400, allow_fail=True)
    crashed = rc != 0
    bad, r2 = vlib.judge(ctx, "T_Paging", "T_Paging.cfg", evs)
    done = [e for e in evs if e["ev"] == "paging"]
    res.traces = len(done)
    for e in done:
        res.case([e["pages"], [c["n"] for c in e["calls"]], e["embedded"], e.get("start0", 0)])
    res.rule = ("a case is one paging session of the real pub.Collection: a page layout (item counts, next pointers incl. back "
                "edges, broken links, empty pages) realised as embedded JSON or served page by page, harvested with a sequence of "
                "request sizes (a third of the sessions from a start offset of 1 to beyond the end of the first page); judged by T_Paging (HistoryOK); distinct = distinct (layout, request sizes, realisation); TLC "
                "enumerates all sessions of the small bounds and all plain chains up to 6-8 pages, larger ones are seeded random")
    for e in done[:1] + done[-1:]:
        res.sample({"pages": e["pages"], "embedded": e["embedded"], "calls": e["calls"]})
    res.extra["sessions_from_tlc"] = len(sessions)
    res.extra["drift_sessions_differing_from_HarvestM"] = len(r2.verdict.get("drift", []))
    res.assumptions = ["items are opaque tagged strings built by a tagging constructor", "unchanged servers",
                       "an error met during look-ahead may be delivered with this request or the next"]
    for b in bad:
        e = evs[b["line"] - 1]
        sig = {"monitor": "T_Paging", "why": b["why"], "err_cut": any(c["err"] for c in e["calls"])}
        path = vlib.save_replay(ctx.pid, "s%d" % e["sid"], e)
        res.violations.append((sig, path, "layout %s harvested with %s: %s" % (
            [(p["n"], p["next"]) for p in e["pages"]], [c["n"] for c in e["calls"]], b["why"])))
    hung = [e for e in evs if e["ev"] == "hang"]
    if crashed and hung:
        begun = {e["sid"]: e for e in evs if e["ev"] == "begin"}
        s = begun[hung[-1]["sid"]]
        # reproduce: the same session alone in a fresh process
        again = {"pages": s["pages"], "sizes": s["sizes"], "embedded_again": s.get("embedded", False)}
        if "style" in hung[-1]:
            again["style"] = hung[-1]["style"]
        evs2, rc2, _ = run_harness(ctx, "pub", "TestVerifPaging", {"sessions": [again] * 6, "random": 0},
                                   timeout=300, allow_fail=True, name="paging-hang-repro")
        if rc2 != 0 and any(e["ev"] == "hang" for e in evs2):
            path = vlib.save_replay(ctx.pid, "hang-s%d" % s["sid"], s)
            res.violations.append(({"monitor": "hang", "why": "harvest did not return"}, path,
                                   "harvesting layout %s with sizes %s did not return within 6 s (reproduced)" % (s["pages"], s["sizes"])))
        else:
            raise vlib.Inconclusive("a paging session hung once but did not reproduce: %s" % s)
    elif crashed:
        begun = [e for e in evs if e["ev"] == "begin"]
        last = begun[-1] if begun else {}
        finished = {e["sid"] for e in done}
        if last and last.get("sid") not in finished and ("panic:" in txt or "fatal error:" in txt or "stack overflow" in txt or "\ngoroutine " in txt):
            path = vlib.save_replay(ctx.pid, "crash-s%d" % last["sid"], {"session": last, "output": txt[-3000:]})
            first = [l for l in txt.splitlines() if "panic:" in l or "fatal error:" in l][:1]
            res.violations.append(({"monitor": "crash", "why": "process died"}, path,
                                   "the process crashed while paging layout %s (%s)" % (last.get("pages"), first[0] if first else "")))
        else:
            raise vlib.Inconclusive("paging harness failed (rc=%s, %d sessions begun, last %s, finished %s):\n%s" % (rc, len(begun), last.get("sid"), last.get("sid") in finished, txt[-1500:]))
    return res
