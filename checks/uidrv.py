"""Shared UI driver run: key sessions (from TLC + wild) on the real ui.State; used by C07, C16, C20, C08, C14."""
import vlib
from checks.common import run_harness

_cache = {}


def ui_events(ctx, res, frames=True):
    key = (ctx.pid, frames)
    if key in _cache:
        return _cache[key]
    q = ctx.quick
    g = ctx.tlc("MC_UI", "Gen_UI.cfg", simulate="num=%d" % (120 if q else 1500), depth=14, workers=1)
    sessions = g.json_lines("GEN")
    if len(sessions) < 30:
        raise vlib.Inconclusive("key-sequence generator produced %d sessions" % len(sessions))
    # pinned regression sequences (defects found earlier stay covered whatever the seed)
    pinned = [["start_alice", "0", "enter"], ["start_n2", "9", "9", "9", "9", "9", "9", "9", "9", "9", "9", "9", "9", "9", "9", "9", "9", "9", "9", "9", "9", "enter"],
              ["start_alice", "colon", "feed_f", "enter", "j", "sp", "h", "l"], ["start_alice", "1", "dot", "k", "k", "g", "o"],
              ["start_n2", "k", "1", "enter", "2", "dot", "h", "h", "l"], ["start_alice", "colon", "open_bad", "enter", "sp", "0", "dot"],
              ["start_alice", "p", "b", "c", "r", "a", "j", "a", "j", "o", "c"],
              ["start_alice", "colon", "x", "hi", "hi", "bs", "bs", "bs", "bs", "j"], ["start_n2", "colon", "hi", "bs", "open_alice", "enter", "j", "sp"],
              ["start_n2", "sp", "c", "h", "r", "h", "l", "c", "j", "g", "k", "sp", "h", "h", "h"]]
    evs, rc, txt = run_harness(ctx, "ui", "TestVerifKeys", {"sessions": pinned + sessions, "wild": 60 if q else 600, "frames": frames},
                               timeout=3000, allow_fail=True)
    if rc != 0:
        resets = [e for e in evs if e["ev"] == "reset"]
        if "panic:" in txt or "fatal error" in txt:
            last = resets[-1] if resets else {"sid": 0}
            evs.append({"ev": "wild", "sid": last.get("sid", 0), "start": last.get("start", "?"), "keys": str(last.get("keys")), "done": 0,
                        "panic": True, "wedged": False, "what": "process crashed: " + txt[-1500:], "frames": 0, "unheld": 0, "overlap": 0})
        else:
            raise vlib.Inconclusive("ui harness failed:\n" + txt[-2500:])
    res.extra["key_sessions_from_tlc"] = len(sessions)
    _cache[key] = evs
    return evs
