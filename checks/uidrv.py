"""Shared UI driver run: key sessions (from TLC + wild) on the real ui.State; used by C07, C16, C20, C08, C14."""
import vlib
from checks.common import run_harness

_cache = {}


PINNED = [["start_a", "0", "enter"], ["start_p"] + ["9"] * 20 + ["enter"],
          ["start_a", "colon", "feed_f", "enter", "j", "sp", "h", "l"], ["start_a", "1", "dot", "k", "k", "g", "o"],
          ["start_p", "k", "1", "enter", "2", "dot", "h", "h", "l"], ["start_a", "colon", "open_bad", "enter", "sp", "0", "dot"],
          ["start_a", "p", "b", "c", "r", "a", "j", "a", "j", "o", "c"],
          ["start_a", "colon", "x", "hi", "hi", "bs", "bs", "bs", "bs", "j"], ["start_p", "colon", "hi", "bs", "open_a", "enter", "j", "sp"],
          ["start_p", "sp", "c", "h", "r", "h", "l", "c", "j", "g", "k", "sp", "h", "h", "h"],
          ["start_p", "k", "k", "k", "k", "k", "g", "k", "sp", "k", "k"], ["start_a", "j", "j", "j", "j", "j", "j", "sp", "r", "h", "c", "b"],
          ["start_a", "j", "j", "j", "sp", "k", "k", "g", "1", "dot", "k"],
          # a page is left and come back to while its background load is in flight; then both pages are walked end to end
          ["gstart_p", "sp", "h", "resync", "j", "j", "k", "k", "k", "k", "k", "k", "l", "j", "j", "k", "k", "k", "k", "k", "k"],
          # zero-padded and two-digit numbers on an item with twelve links (w2: the root of the long thread)
          ["start_p", "k", "k", "k", "k", "0", "1", "0", "dot", "h", "0", "8", "dot", "h", "0", "0", "1", "2", "enter"], ["start_p", "k", "k", "k", "k", "1", "0", "enter", "8", "enter", "0", "9", "dot"],
          # links whose addresses spell the placeholders of the media hook (w2: numbers 5 and 11 of the twelve), opened externally
          ["start_p", "k", "k", "k", "k", "5", "enter", "1", "1", "enter", "0", "5", "enter"], ["start_p", "k", "k", "k", "k", "1", "1", "enter", "5", "enter"],
          # attachments are numbered on from the links of the text (w1: n1 has two of each)
          ["start_p", "k", "3", "enter", "4", "enter", "3", "dot", "h", "2", "enter", "5", "enter"], ["start_p", "k", "4", "dot", "h", "3", "enter", "1", "dot"],
          # the open command with an empty argument
          ["start_a", "colon", "open_empty", "enter", "h", "l"], ["start_p", "colon", "open_empty", "sp", "enter", "j"],
          # commands whose argument contains a blank: everything after the first blank is the argument
          ["start_a", "colon", "open_p", "sp", "x", "enter", "h", "l"], ["start_p", "colon", "open_a", "sp", "sp", "enter", "k"], ["start_a", "colon", "feed_f", "sp", "x", "enter", "j"],
          # keys arriving while a background load is in flight (a document it needs is withheld), then the page walked end to end
          ["gstart_p", "j", "j", "k", "j", "resync", "g", "j", "j", "j", "k", "k", "k", "k", "k", "k"], ["gstart_p", "k", "k", "j", "k", "k", "resync", "g", "k", "k", "k", "k", "k", "j", "j", "j", "j", "j", "j"],
          # numbers far beyond any integer type, congruent to a valid link number modulo 2^64 or 2^32: they name no link
          ["start_a", "j"] + list("18446744073709551617") + ["dot", "j"], ["start_p", "k"] + list("18446744073709551618") + ["enter", "k"],
          ["start_a", "j"] + list("4294967297") + ["dot"], ["start_a", "j"] + list("36893488147419103233") + ["enter"],
          # a collection opened by its address, walked to its end and back
          ["start_p", "colon", "open_c", "enter", "j", "j", "j", "j", "j", "sp", "h", "k", "k", "k", "k", "k"], ["start_a", "colon", "open_c", "enter", "j", "sp", "h", "g", "a"],
          # 'g' on pages that list items (no centre), after moving
          ["start_a", "colon", "feed_f", "enter", "g", "j", "g", "k", "g"], ["start_p", "j", "c", "g", "j", "g", "sp"],
          # the media hook still running while further keys arrive; its end ("hookexit") is a step of its own
          ["hstart_p", "k", "1", "enter", "2", "dot", "hookexit", "h"], ["hstart_a", "p", "j", "hookexit", "p", "esc", "hookexit", "colon", "hookexit"],
          ["hstart_a", "1", "enter", "1", "enter", "bs", "j", "hookexit"], ["hstart_p", "k", "k", "o", "colon", "open_a", "enter", "hookexit", "p", "sp", "hookexit"]]


def ui_events(ctx, res, frames=True, world=None):
    """Key sessions on the real ui.State; world None = both content worlds (events carry e["world"])."""
    if world is None:
        return ui_events(ctx, res, frames, "w1") + ui_events(ctx, res, frames, "w2")
    key = (ctx.pid, frames, world)
    if key in _cache:
        return _cache[key]
    q = ctx.quick
    n = (100 if q else 1000)
    g = ctx.tlc("MC_UI", "Gen_UI.cfg", simulate="num=%d" % n, depth=14, workers=1, consts={"World": '"%s"' % world})
    sessions = g.json_lines("GEN")
    if len(sessions) < 30:
        raise vlib.Inconclusive("key-sequence generator produced %d sessions" % len(sessions))
    evs, rc, txt = run_harness(ctx, "ui", "TestVerifKeys", {"sessions": PINNED + sessions, "wild": 35 if q else 350, "frames": frames, "frame_every": 1 if q else 5},
                               timeout=3000, allow_fail=True, env={"VERIF_WORLD": world}, name="keys-" + world)
    if rc != 0:
        resets = [e for e in evs if e["ev"] == "reset"]
        if "panic:" in txt or "fatal error" in txt:
            last = resets[-1] if resets else {"sid": 0}
            evs.append({"ev": "wild", "sid": last.get("sid", 0), "start": last.get("start", "?"), "keys": str(last.get("keys")), "done": 0,
                        "panic": True, "wedged": False, "what": "process crashed: " + txt[-1500:], "frames": 0, "unheld": 0, "overlap": 0})
        else:
            raise vlib.Inconclusive("ui harness failed:\n" + txt[-2500:])
    for e in evs:
        e["world"] = world
    res.extra["key_sessions_from_tlc_" + world] = len(sessions)
    _cache[key] = evs
    return evs


def gated_sessions(ctx, res):
    """Key sessions in which pages are left and walked while background loads are in flight (C09: what a page lists)."""
    return number_sessions(ctx, res, only_gated=True)


def number_sessions(ctx, res, only_gated=False):
    """Key sessions about typed link numbers only (C12): pinned ones plus TLC sessions that type digits; judged by T_UI."""
    out = []
    bad_all = []
    for world in ("w1", "w2"):
        digits = set("0123456789")
        if only_gated:
            sessions, pinned = [], [s for s in PINNED if s[0].startswith("gstart_")]
        else:
            g = ctx.tlc("MC_UI", "Gen_UI.cfg", simulate="num=%d" % (150 if ctx.quick else 1500), depth=14, workers=1, consts={"World": '"%s"' % world})
            sessions = [s for s in g.json_lines("GEN") if any(t in digits for t in s) and ("dot" in s or "enter" in s)]
            pinned = [s for s in PINNED if any(t in digits for t in s)]
        evs, rc, txt = run_harness(ctx, "ui", "TestVerifKeys", {"sessions": pinned + sessions, "wild": 0, "frames": False, "frame_every": 1},
                                   timeout=3000, allow_fail=True, env={"VERIF_WORLD": world}, name="numbers-" + world)
        if rc != 0:
            raise vlib.Inconclusive("ui harness failed:\n" + txt[-2500:])
        part = [dict(e, world=world) for e in evs if e["ev"] in ("reset", "key", "hookexit", "unsettled", "resync")]
        bad, r = vlib.judge(ctx, "T_UI", "T_UI.cfg", [{k: v for k, v in e.items() if k != "world"} for e in part], name="T_UI_numbers_" + world, consts={"World": '"%s"' % world})
        bad_all += [dict(b, line=b["line"] + len(out)) for b in bad]
        out += part
    return out, bad_all
