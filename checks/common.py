"""Helpers shared by the per-property check modules."""
import json
import os
import vlib


def run_harness(ctx, pkg, test, inp, name=None, env=None, race=False, timeout=900, allow_fail=False):
    """Run one harness test with `inp` as its VERIF_IN document; return the recorded events."""
    d = ctx.sub("run-" + (name or test))
    ipath = os.path.join(d, "in.json")
    opath = os.path.join(d, "trace.ndjson")
    with open(ipath, "w") as f:
        json.dump(inp, f)
    e = {"VERIF_IN": ipath, "VERIF_OUT": opath}
    e.update(env or {})
    rc, txt = ctx.go_test(pkg, test, env=e, race=race, timeout=timeout)
    if rc != 0 and not allow_fail:
        raise vlib.Inconclusive("harness %s/%s failed (rc=%d):\n%s" % (pkg, test, rc, txt[-3000:]))
    evs = vlib.read_ndjson(opath) if os.path.exists(opath) else []
    return evs, rc, txt


def mc_layout(ctx, res, fns, maxlen, maxw=3, maxh=2):
    for fn in fns:
        r = ctx.tlc("MC_Layout", "MC_Layout.cfg",
                    consts={"Fn": '"%s"' % fn, "MaxLen": maxlen, "MaxW": maxw, "MaxH": maxh}).require_clean(fn)
        res.add_tlc(r)
