"""C11 - a feed is the newest-first merge of its sources, each item exactly once.

Spec: Splice.tla (reference Merge with first-source tie-break; Splicer.Harvest as coded: clone, parallel
replenish to quantity+start, discard, pop).  MC_Splice: all source sets (timestamps with ties, missing,
unsorted; failed sources) x all trees of Harvest calls (on the latest or an older continuation).  TLC
enumerates sessions; the splicer driver builds the real Splicer over synthetic paged sources and follows
the UI's protocol; T_Splice judges every call.
"""
import vlib
from checks.common import run_harness


def run(ctx):
    res = vlib.Result(ctx, "model_checking")
    q = ctx.quick
    r = ctx.tlc("MC_Splice", "MC_Splice.cfg", consts={"MaxSrc": 2, "MaxItems": 2 if q else 3, "MaxTs": 2, "MaxQ": 2 if q else 3, "MaxCalls": 3}, timeout=3000).require_clean()
    res.add_tlc(r)
    g = ctx.tlc("MC_Splice", "Gen_Splice.cfg", consts={"MaxSrc": 2, "MaxItems": 2, "MaxTs": 2, "MaxQ": 2 if q else 3, "MaxCalls": 2 if q else 3}, timeout=3000)
    sessions = g.json_lines("GEN")
    if len(sessions) < 100:
        raise vlib.Inconclusive("generator produced %d sessions" % len(sessions))
    if len(sessions) > (8000 if q else 80000):
        import random
        random.Random(ctx.seed).shuffle(sessions)
        sessions = sessions[:8000 if q else 80000]
    evs, rc, txt = run_harness(ctx, "splicer", "TestVerifSplice", {"sessions": sessions, "random": 500 if q else 5000, "served": 300 if q else 3000}, timeout=3000, allow_fail=True)
    if rc != 0:
        # a panic on a goroutine of the splicer cannot be recovered by the driver: the process dies inside the last session
        if ("panic:" in txt or "fatal error" in txt) and any(e["ev"] == "reset" for e in evs):
            evs.append({"ev": "call", "on": 1, "q": 0, "start": 0, "items": [], "done": False, "panic": True, "what": "process crashed: " + txt[-1200:]})
        else:
            raise vlib.Inconclusive("splicer harness failed:\n" + txt[-2000:])
    bad, r2 = vlib.judge(ctx, "T_Splice", "T_Splice.cfg", evs)
    sess = {}
    cur = None
    for e in evs:
        if e["ev"] == "reset":
            cur = e["sid"]
            sess[cur] = {"sources": e["sources"], "failed": e["failed"], "calls": []}
        elif e["ev"] == "call":
            sess[cur]["calls"].append(e)
    res.traces = len(sess)
    for s in sess.values():
        res.case([s["sources"], s["failed"], [(c["on"], c["q"], c["start"]) for c in s["calls"]]])
    res.rule = ("a case is one session on the real splicer.Splicer: sources given by their timestamp sequences (0 = none, ties, "
                "unsorted), optionally a failed source, and a tree of Harvest calls made on continuations that compared non-nil; "
                "each call judged by T_Splice (CallOK: the next q items of the reference merge, clean end); distinct = distinct "
                "(sources, failed, call tree); TLC enumerates all sessions of the small bounds, larger ones are seeded random")
    for sid in list(sess)[:1] + list(sess)[-1:]:
        s = sess[sid]
        res.sample({"sources": s["sources"], "failed": s["failed"],
                    "calls": [{k: c[k] for k in ("on", "q", "start", "items", "done")} for c in s["calls"]]})
    res.extra["sessions_from_tlc"] = len(sessions)
    res.extra["sessions_through_NewSplicer"] = sum(1 for e in evs if e["ev"] == "reset" and e.get("served"))
    res.assumptions = ["sources are synthetic paged containers honouring the Container contract, and for a share of the sessions paged collections served by the simulator and opened with NewSplicer (random latencies, the source listed first often the slowest)"]
    for b in bad:
        s = sess[b["sid"]]
        e = evs[b["line"] - 1]
        exhausted = sum(len(x) for x in s["sources"]) <= sum(len(c["items"]) for c in s["calls"]) + 0
        sig = {"monitor": "T_Splice", "why": b["why"], "after_exhaustion": bool(e.get("panic") and "nil" in str(e.get("what", "")))}
        path = vlib.save_replay(ctx.pid, "s%d" % b["sid"], {"sources": s["sources"], "failed": s["failed"],
                                                          "calls": [{k: c.get(k) for k in ("on", "q", "start", "items", "done", "panic", "what")} for c in s["calls"]]})
        res.violations.append((sig, path, "sources %s, call on #%d q=%d start=%d: %s %s" % (
            s["sources"], e["on"], e["q"], e["start"], b["why"], e.get("what", ""))))
    return res
