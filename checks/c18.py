"""C18 - browser history and feed cursor behave as their reference models.

1. TLC exhaustively explores MC_History / MC_Feed (reference state machines + step properties).
2. TLC enumerates every operation sequence up to a depth (Gen_*.cfg, history variable printed as JSON).
3. The Go harness executes those sequences (plus seeded random long ones) on the real
   history.History[int] / feed.Feed and records the observable projection after every call.
4. TLC validates the recorded traces against T_Containers (reference = Containers.tla).
"""
import json
import os
import vlib


def run(ctx):
    res = vlib.Result(ctx, "model_checking")
    q = ctx.quick
    # 1. exhaustive model checking of the reference machines
    r = ctx.tlc("MC_History", "MC_History.cfg", consts={"MaxItems": 9 if q else 14}).require_clean()
    res.add_tlc(r)
    r = ctx.tlc("MC_Feed", "MC_Feed.cfg", consts={"MaxItems": 7 if q else 10, "MaxChunk": 2}).require_clean()
    res.add_tlc(r)
    # 1b. (thorough) the history invariants as an inductive invariant, discharged by Apalache: no bound on the
    #     number of operations (sequences up to the generator bound 8); recorded, nothing depends on it
    if not q:
        import shutil, subprocess
        if shutil.which("apalache-mc"):
            d = ctx.spec_dir("apalache")
            shutil.copy(os.path.join(vlib.SPEC, "apalache", "APA_History.tla"), d)
            ok = []
            for args in (["--init=Init", "--inv=IndInv", "--length=0"], ["--init=IndInit", "--inv=IndInv", "--length=1"]):
                try:
                    p = subprocess.run(["timeout", "300", "apalache-mc", "check"] + args + ["APA_History.tla"], cwd=d,
                                       stdout=subprocess.PIPE, stderr=subprocess.STDOUT, timeout=330)
                    ok.append("EXITCODE: OK" in p.stdout.decode("utf-8", "replace"))
                except Exception:
                    ok.append(False)
            res.extra["apalache_inductive_invariant_history"] = {"initiation": ok[0], "consecution": ok[1]}
    # 2. generation: all operation sequences of the given depth
    gh = ctx.tlc("MC_History", "Gen_History.cfg", consts={"GenDepth": 6 if q else 9})
    hs = gh.json_lines("GEN")
    gf = ctx.tlc("MC_Feed", "Gen_Feed.cfg", consts={"GenDepth": 4 if q else 5, "MaxChunk": 2})
    fs = gf.json_lines("GEN")
    if not hs or not fs:
        raise vlib.Inconclusive("generator produced no behaviours")
    # 3. run them on the real code
    events = []
    for pkg, test, sessions, nrand, maxlen in (
            ("history", "TestVerifHistory", hs, 200 if q else 2000, 60 if q else 200),
            ("feed", "TestVerifFeed", fs, 200 if q else 2000, 60 if q else 200)):
        d = ctx.sub("run-" + pkg)
        inp = os.path.join(d, "in.json")
        out = os.path.join(d, "trace.ndjson")
        json.dump({"sessions": sessions, "random": nrand, "maxlen": maxlen, "long": [70, 130] if q else [70, 130, 260, 520, 1030]}, open(inp, "w"))
        rc, txt = ctx.go_test(pkg, test, env={"VERIF_IN": inp, "VERIF_OUT": out})
        if rc != 0:
            raise vlib.Inconclusive("harness %s failed:\n%s" % (test, txt[-2000:]))
        evs = vlib.read_ndjson(out)
        # renumber sessions globally
        base = max([e["sid"] for e in events if e["ev"] == "reset"], default=0)
        for e in evs:
            if e["ev"] == "reset":
                e["sid"] += base
        events += evs
    # 4. trace validation
    bad, r = vlib.judge(ctx, "T_Containers", "T_Containers.cfg", events)
    sessions = {}
    cur = None
    for i, e in enumerate(events):
        if e["ev"] == "reset":
            cur = e["sid"]
            sessions[cur] = {"kind": e["kind"], "ops": []}
        else:
            sessions[cur]["ops"].append({k: e[k] for k in ("op", "k") if k in e})
    res.traces = len(sessions)
    for sid, s in sessions.items():
        res.case([s["kind"], s["ops"]])
    res.rule = ("a case is one operation sequence executed on the real container, every step judged by "
                "T_Containers; distinct = distinct (container, operation sequence); all sequences of the "
                "generation depth are enumerated by TLC, longer ones are seeded random; histories of 70 to 1030 pages are "
                "opened, walked to both ends and branched from the middle")
    for sid in list(sessions)[:2] + list(sessions)[-2:]:
        res.sample({"sid": sid, **sessions[sid]})
    res.extra["generated_by_tlc"] = {"history": len(hs), "feed": len(fs)}
    res.extra["trace_events"] = len(events)
    res.exhaustive = False
    res.assumptions = ["items are distinct tags; the feed never inspects its items",
                       "history is observed through its public API on a value copy"]
    for b in bad:
        s = sessions[b["sid"]]
        step = events[b["line"] - 1]
        sig = {"monitor": "T_Containers", "kind": s["kind"], "why": b["why"], "op": step.get("op")}
        path = vlib.save_replay(ctx.pid, "s%d" % b["sid"], {"kind": s["kind"], "ops": s["ops"], "rejected_at": step, "why": b["why"]})
        res.violations.append((sig, path, "%s session %d rejected at op %s: %s" % (s["kind"], b["sid"], step.get("op"), b["why"])))
    return res
