"""C03 - documents only from successful JSON responses via bounded redirects; cache transparency.

Spec: Fetch.tla (reference Fresh + jtp.Get/LRU model GetM).  MC_Fetch: all worlds over a URL set x all fetch
histories x cache capacities: HistoryIndependent, RequestsBounded, AcceptOnlyGood.  Gen_Fetch: TLC simulation
emits (world, capacity, fetch sequence) sessions; the jtp driver realises each response class with byte-level
variants on the loopback TLS simulator and runs the real jtp.Get; T_Fetch judges every fetch against Fresh.
"""
import vlib
from checks.common import run_harness


def gen_sessions(ctx, n, depth):
    g = ctx.tlc("MC_Fetch", "Gen_Fetch.cfg", simulate="num=%d" % n, depth=depth + 1, workers=1,
                consts={"GenDepth": depth, "MaxFetches": depth})
    sessions = g.json_lines("GEN")
    for s in sessions:
        for r in s["world"].values():
            r.setdefault("doc", "")
    return sessions


def run(ctx):
    res = vlib.Result(ctx, "model_checking")
    q = ctx.quick
    if q:
        consts = {"Urls": '{"h1/a", "h1/b", "h2/c"}', "Budgets": "{0, 1, 2}", "Caps": "{1, 2}", "MaxFetches": 3, "RespSet": '"small"'}
    else:
        consts = {"Urls": '{"h1/a", "h1/b", "h2/c"}', "Budgets": "{0, 1, 2}", "Caps": "{1, 2, 3}", "MaxFetches": 4, "RespSet": '"small"'}
    r = ctx.tlc("MC_Fetch", "MC_Fetch.cfg", consts=consts, timeout=3000).require_clean()
    res.add_tlc(r)
    if not q:
        r = ctx.tlc("MC_Fetch", "MC_Fetch.cfg", timeout=3000, consts={
            "Urls": '{"h1/a", "h2/c"}', "Budgets": "{0, 1}", "Caps": "{1, 2}", "MaxFetches": 3, "RespSet": '"full"'}).require_clean()
        res.add_tlc(r)
    sessions = gen_sessions(ctx, 150 if q else 1500, 5)
    if len(sessions) < 20:
        raise vlib.Inconclusive("generator produced %d sessions" % len(sessions))
    evs, _, _ = run_harness(ctx, "jtp", "TestVerifFetch", {"sessions": sessions, "random": 150 if q else 1500}, timeout=1500)
    bad, r2 = vlib.judge(ctx, "T_Fetch", "T_Fetch.cfg", evs)
    # addresses that differ in the query, the order of its parts or the case of a letter, fetched at the same time through client.FetchURL
    sevs, _, _ = run_harness(ctx, "client", "TestVerifFetchSideBySide", {}, timeout=900, name="sidebyside")
    sbad, _ = vlib.judge(ctx, "T_Fetch", "T_Fetch.cfg", sevs, name="T_Fetch_sidebyside")
    res.extra["fetches_side_by_side"] = sum(1 for e in sevs if e["ev"] == "fetch")
    for b in sbad:
        e = sevs[b["line"] - 1]
        sig = {"monitor": "T_Fetch", "why": b["why"], "warm": bool(e.get("pass"))}
        path = vlib.save_replay(ctx.pid, "side-l%d" % b["line"], e)
        res.violations.append((sig, path, "fetched side by side with its neighbours, %s gave %s (%s)" % (e["url"], e["res"], b["why"])))
    for e in sevs:
        if e["ev"] == "fetch":
            res.case(["side by side", e["url"], e.get("pass")])
    sess = {}
    cur = None
    for e in evs:
        if e["ev"] == "reset":
            cur = e["sid"]
            sess[cur] = {"world": e["world"], "cap": e["cap"], "fetches": []}
        elif e["ev"] == "fetch":
            sess[cur]["fetches"].append(e)
            res.case([sess[cur]["world"], sess[cur]["cap"], [(f["url"], f["kind"], f["budget"]) for f in sess[cur]["fetches"]]])
    res.traces = len(sess)
    res.rule = ("a case is one fetch of the real jtp.Get in its history (world, cache capacity, earlier fetches), judged by "
                "T_Fetch against the cache-free reference Fresh; distinct = distinct (world, capacity, fetch prefix); sessions "
                "come from TLC simulation of MC_Fetch (5 fetches over 4 URLs, full response alphabet) and a seeded random "
                "generator (3-8 URLs on 3 hosts, chains, cycles, all response classes, budgets 0-4, capacity 1-4)")
    for sid in list(sess)[:1] + list(sess)[-1:]:
        s = sess[sid]
        res.sample({"sid": sid, "world": s["world"], "cap": s["cap"],
                    "fetches": [{k: f[k] for k in ("url", "kind", "budget", "res", "reqs")} for f in s["fetches"]]})
    res.extra["sessions_from_tlc"] = len(sessions)
    v = r2.verdict
    res.extra["drift_fetches_differing_from_GetM"] = len(v.get("drift", []))
    res.assumptions = ["a response that declares a foreign Content-Type next to a tolerated one is refused (every declared type has to be tolerated)",
                       "servers are unchanged within a session", "budgets 0-4 through jtp.Get directly; client.FetchURL's budget of 20 is exercised by the C02/C09 drivers"]
    for b in bad:
        s = sess[b["sid"]]
        e = evs[b["line"] - 1]
        hist = [(f["url"], f["kind"], f["budget"]) for f in s["fetches"]]
        idx = [i for i, f in enumerate(s["fetches"]) if f is e][0]
        cached_before = e["url"] in [u for f in s["fetches"][:idx] for u in f["reqs"]] or len(e["reqs"]) < 1
        sig = {"monitor": "T_Fetch", "why": b["why"], "warm": bool(idx > 0)}
        path = vlib.save_replay(ctx.pid, "s%d" % b["sid"], {"world": s["world"], "cap": s["cap"], "fetches": hist[:idx + 1],
                                                          "rejected": {k: e[k] for k in ("url", "kind", "budget", "res", "reqs", "err") if k in e}, "why": b["why"]})
        res.violations.append((sig, path, "fetch #%d %s (%s, budget %d) in session %d: %s; got %s via %s" % (
            idx + 1, e["url"], e["kind"], e["budget"], b["sid"], b["why"], e["res"], e["reqs"])))
    return res
