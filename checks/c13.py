"""C13 - wrapping, padding, indenting and snipping preserve content and honour the width.

Spec: Layout.tla (requirements + transcribed algorithms).  MC_Layout: Algorithm => Requirement for
every text up to a bound.  Gen_Layout: TLC enumerates the same texts for the Go driver, which also
draws seeded random styled Unicode texts; every (function, parameters, input cells, output cells)
observation of the real ansi.* functions is judged by TLC against the Requirement (T_Layout).
"""
import vlib
from checks.common import run_harness, mc_layout


def run(ctx):
    res = vlib.Result(ctx, "model_checking")
    q = ctx.quick
    mc_layout(ctx, res, ["wrap", "dumb", "pad", "indent", "snip", "apply"], 5 if q else 7)
    g = ctx.tlc("MC_Layout", "Gen_Layout.cfg", consts={"MaxLen": 4 if q else 6})
    texts = g.json_lines("GEN")
    if len(texts) < 100:
        raise vlib.Inconclusive("generator produced %d texts" % len(texts))
    samples_from = []
    chunks = [texts[i:i + 800] for i in range(0, len(texts), 800)]
    nrandom = 150 if q else 1500
    for k, part in enumerate(chunks):
        evs, _, _ = run_harness(ctx, "ansi", "TestVerifLayout", {
            "texts": part, "widths": [1, 2, 3] if q else [1, 2, 3, 4], "heights": [1, 2],
            "random": nrandom if k == 0 else 0, "maxlen": 120 if q else 400}, name="layout-%d" % k)
        bad, r = vlib.judge(ctx, "T_Layout", "T_Layout.cfg", evs, name="T_Layout-%d" % k)
        res.traces += len(evs)
        for e in evs:
            res.case([e["fn"], e["w"], e["h"], e["first"], [(c["k"], c["c"], c["s"]) for c in e["in"]]])
        if k == 0:
            samples_from = evs[:1] + evs[len(evs) // 2:len(evs) // 2 + 1] + evs[-1:]
        for b in bad:
            e = evs[b["line"] - 1]
            sig = {"monitor": "T_Layout", "fn": e["fn"], "panic": e["panic"]}
            replay = {"fn": e["fn"], "w": e["w"], "h": e["h"], "first": e["first"],
                      "in": "".join("".join("\x1b[%sm" % s for s in c["s"]) + c["c"] + ("\x1b[0m" if c["r"] else "") for c in e["in"]),
                      "out_cells": e["out"], "panic": e["panic"]}
            path = vlib.save_replay(ctx.pid, "c%d-l%d" % (k, b["line"]), replay)
            res.violations.append((sig, path, "%s(w=%s,h=%s) on %r violates its requirement" % (e["fn"], e["w"], e["h"], replay["in"][:60])))
        del evs
    res.rule = ("a case is one call of a real layout helper (Wrap, DumbWrap, Pad, Indent, Snip, SetLength, Apply) "
                "with input/output lexed into cells and judged by T_Layout against Layout.tla's requirement; "
                "distinct = distinct (function, parameters, input cells)")
    for e in samples_from:
        res.sample({"fn": e["fn"], "w": e["w"], "h": e["h"], "in": "".join(c["c"] for c in e["in"])[:80],
                    "out": "".join(c["c"] for c in e["out"])[:80]})
    res.extra["texts_enumerated_by_tlc"] = len(texts)
    res.assumptions = ["whitespace = unicode.IsSpace as classified by the harness lexer", "width >= 1, height >= 1",
                       "Snip is given input whose lines fit the width (its callers wrap first)"]
    return res
