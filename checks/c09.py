"""C09 - listings only show items that really belong there.

Spec: Provenance.tla listing layer (entry classes, Legit, ListingOK) + MC_Listing (outcome table of the
constructor wrappers as coded satisfies ListingOK for every class sequence).  TLC enumerates every class
sequence up to a length for outboxes (path- and query-style owner ids) and reply collections, served by the
owner's host or anonymously by another host (directly or behind a redirect); the pub
driver builds a multi-host world per sequence with each entry an unambiguous member of its class, builds
the owner with pub.New, harvests its children and records what was shown per position, plus every accepted
(object, id, stamp) and (post host, author host) pair.  T_Prov judges (ListingOK, ProvOK, author rule).
"""
import vlib
from checks.common import run_harness

OUTBOX = ["legit_emb", "legit_ref", "legit_author_no_actor", "legit_announce_wrapped", "legit_actor_emb", "legit_noid", "legit_stub", "legit_announce", "other_actor",
          "other_actor_samehost_query", "other_actor_case", "no_actor", "fetch_fails", "not_activity", "foreign_claims_owner_id", "actor_fetch_fails", "anon_actor", "redirected_forged"]
REPLIES = ["legit_emb", "legit_ref", "legit_stub", "legit_author_no_actor", "other_parent", "other_parent_case", "no_parent", "parent_fetch_fails", "fetch_fails",
           "not_post", "parent_other_host_same_path", "forged_author", "anon_parent", "redirected_forged"]

_cache = {}


def collect_events(ctx, res, light=False):
    """Run the listing driver once per check invocation; `light` = fewer sessions (used by C02)."""
    key = (ctx.pid, light)
    if key in _cache:
        return _cache[key]
    q = ctx.quick
    maxlen = 2 if (light or q) else 3
    g = ctx.tlc("MC_Listing", "Gen_Listing.cfg", consts={"MaxLen": maxlen})
    sessions = g.json_lines("GEN")
    if light:
        sessions = [s for s in sessions if len(s["classes"]) <= 1]
    if len(sessions) < 20:
        raise vlib.Inconclusive("listing generator produced %d sessions" % len(sessions))
    if not q and not light and len(sessions) > 2500:
        import random
        rnd = random.Random(ctx.seed)
        short = [s for s in sessions if len(s["classes"]) <= 2]
        long_ = [s for s in sessions if len(s["classes"]) > 2]
        rnd.shuffle(long_)
        sessions = short + long_[:2000]
    evs, rc, txt = run_harness(ctx, "pub", "TestVerifListing", {
        "sessions": sessions, "random": (20 if light else 60) if q else 600, "outbox_classes": OUTBOX, "reply_classes": REPLIES},
        timeout=3000, allow_fail=True, name="listing-light" if light else "listing")
    if rc != 0:
        begun = [e for e in evs if e["ev"] == "begin"]
        done = {e["sid"] for e in evs if e["ev"] == "listing"}
        if "panic:" in txt and begun and begun[-1]["sid"] not in done:
            evs.append({"ev": "listing", "sid": begun[-1]["sid"], "kind": begun[-1]["kind"], "owner": begun[-1]["owner"],
                        "classes": begun[-1]["classes"], "place": begun[-1].get("place"), "shown": [], "panic": True, "what": "process crashed: " + txt[-1500:]})
        else:
            raise vlib.Inconclusive("listing harness failed:\n" + txt[-2500:])
    res.extra["listing_sessions_from_tlc"] = len(sessions)
    _cache[key] = evs
    return evs


def run(ctx):
    res = vlib.Result(ctx, "model_checking")
    q = ctx.quick
    r = ctx.tlc("MC_Listing", "MC_Listing.cfg", consts={"MaxLen": 3 if q else 4}).require_clean()
    res.add_tlc(r)
    evs = collect_events(ctx, res)
    bad, r2 = vlib.judge(ctx, "T_Prov", "T_Prov.cfg", evs)
    listings = [e for e in evs if e["ev"] == "listing"]
    res.traces = len(listings)
    for e in listings:
        res.case([e["kind"], e["owner"], e.get("place"), e["classes"]])
    res.extra["accept_events"] = sum(1 for e in evs if e["ev"] == "accept")
    res.extra["author_events"] = sum(1 for e in evs if e["ev"] == "author")
    res.extra["legit_shown_as_error"] = sum(1 for e in listings for c, s in zip(e["classes"], e["shown"]) if c.startswith("legit") and s == "error")
    res.rule = ("a case is one listing (an actor's outbox or a post's reply collection) whose entries are drawn from the entry "
                "classes of Provenance.tla, built on a 4-host world and harvested through the real pub constructors; judged "
                "position by position by T_Prov (ListingOK) together with the provenance and author-host monitors on every "
                "object accepted along the way; distinct = distinct (kind, owner id style, where the listing is served, class sequence); all sequences up "
                "to length 2 (quick) / 3 (thorough, sampled) are enumerated by TLC, longer ones are seeded random")
    for e in listings[:1] + listings[-1:]:
        res.sample({k: e.get(k) for k in ("kind", "owner", "place", "classes", "shown")})
    res.assumptions = ["each class is realised by unambiguous representatives (Go builder); that a legitimate entry is shown is not demanded (reported as legit_shown_as_error)"]
    for b in bad:
        e = evs[b["line"] - 1]
        if e["ev"] == "listing":
            wrong = [c for c, s in zip(e["classes"], e["shown"]) if s == "genuine" and not c.startswith("legit")]
            sig = {"monitor": "ListingOK", "why": b["why"], "class": wrong[0] if wrong else ("length" if len(e["shown"]) != len(e["classes"]) else "panic")}
            text = "%s of %s-style owner (listing served: %s) with entries %s shown as %s: %s" % (e["kind"], e["owner"], e.get("place"), e["classes"], e["shown"], b["why"])
        elif e["ev"] == "author":
            sig = {"monitor": "AuthorHost", "why": b["why"], "hosts": "%s/%s" % (e["post_host"], e["author_host"])}
            text = "post on host %s shown with author from host %s (%s)" % (e["post_host"], e["author_host"], e["desc"])
        else:
            continue    # provenance violations are C02's (it runs this driver too)
        path = vlib.save_replay(ctx.pid, "l%d" % b["line"], e)
        res.violations.append((sig, path, text))
    # what a page lists when its loads finish after the user has moved on: pages left and walked while loads are in flight
    from checks import uidrv
    kevs, kbad = uidrv.gated_sessions(ctx, res)
    res.traces += sum(1 for e in kevs if e["ev"] == "reset")
    res.extra["pages_walked_after_leaving_them_during_a_load"] = sum(1 for e in kevs if e["ev"] == "reset")
    for e in kevs:
        if e["ev"] == "resync":
            res.case(["gated", e["world"], e.get("obs")])
    for b in kbad:
        e = kevs[b["line"] - 1]
        sig = {"monitor": "T_UI", "why": b["why"], "key": e.get("k")}
        path = vlib.save_replay(ctx.pid, "gated-l%d" % b["line"], e)
        res.violations.append((sig, path, "world %s: %s; observed %s" % (e["world"], b["why"], e.get("obs"))))
    return res
