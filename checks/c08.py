"""C08 - UI state is race-free and deadlock-free under concurrent keys, resizes and loads.

Spec: UIConc.tla (lock discipline of key, poller, background-load and feed goroutines: MutateOnlyByHolder,
OneWriter, EmitOnlyByHolder, OneFrameAtATime, NoDeadlock, and the liveness property EveryoneFinishes under
fairness) and FanOut.tla (declared read/write sets of every concurrent fan-out are disjoint).
Conformance, built with the Go race detector: bursts of keys from one goroutine each with resizes and
loads in flight on a real ui.State; snapshots taken inside the output callback with a probe of the UI mutex;
T_UIConc demands that the frames are a linearization of the issued keys under UI.tla's atomic KeyNext, that
every frame was emitted by the lock holder, and that every key returned.  Race detector reports from this
run and from the listing driver (fan-outs of pub) are violations.
"""
import re
import vlib
from checks.common import run_harness


def race_reports(txt):
    out = []
    for m in re.finditer(r"WARNING: DATA RACE\n(.*?)\n==================", txt, re.S):
        body = m.group(1)
        funcs = re.findall(r"^\s+(servitor/[\w./()*]+)\(", body, re.M)
        out.append({"ev": "race", "where": funcs[:6], "report": body[:1500]})
    return out


def run(ctx):
    res = vlib.Result(ctx, "model_checking")
    q = ctx.quick
    r = ctx.tlc("UIConc", "MC_UIConc.cfg", consts={"Keys": '{"k1", "k2", "k3"}' if q else '{"k1", "k2", "k3", "k4"}', "Loads": '{"l1", "l2"}'}, timeout=3000).require_clean()
    res.add_tlc(r)
    r = ctx.tlc("MC_FanOut", "MC_FanOut.cfg").require_clean()
    res.add_tlc(r)
    # the media program may run for as long as it likes (no fairness for it): keys are handled anyway - unless the goroutine
    # that waits for it holds the mutex meanwhile (design-level refutation; the driver plays the same scene on the real State)
    r = ctx.tlc("UIConc", "MC_UIConc_hook.cfg").require_clean()
    res.add_tlc(r)
    hh = ctx.tlc("UIConc", "MC_UIConc_hookheld.cfg")
    res.add_tlc(hh)
    if not hh.violated:
        raise vlib.Inconclusive("the variant of UIConc.tla that waits for the media program under the mutex was expected to be refuted (KeysFinish)")
    res.extra["waiting_for_the_media_program_under_the_mutex"] = "refuted (KeysFinish)"
    evs, rc, txt = run_harness(ctx, "ui", "TestVerifConc", {"sessions": 25 if q else 250, "bursts": 8 if q else 12}, race=True, timeout=3000, allow_fail=True)
    races = race_reports(txt)
    if rc != 0 and not races:
        if "panic:" in txt or "fatal error" in txt:
            evs.append({"ev": "unlocked", "sid": 0, "during": "process crashed: " + txt[-800:], "held": False, "overlap": False})
        else:
            raise vlib.Inconclusive("concurrent ui harness failed:\n" + txt[-2500:])
    # the first thing a process does: a page of embedded notes, built side by side, nothing rendered before (a process of its own)
    for attempt in range(4):
        fevs, frc, ftxt = run_harness(ctx, "ui", "TestVerifFirstRender", {}, race=True, timeout=900, allow_fail=True, name="first-render-%d" % attempt)
        races += race_reports(ftxt)
        if frc != 0 and not race_reports(ftxt):
            raise vlib.Inconclusive("first-render harness failed:\n" + ftxt[-2000:])
        evs += [e for e in fevs if e["ev"] == "liveness"]
    # fan-outs of pub under the race detector
    from checks import c09
    levs, lrc, ltxt = run_harness(ctx, "pub", "TestVerifListing", {"sessions": [], "random": 40 if q else 400, "outbox_classes": c09.OUTBOX, "reply_classes": c09.REPLIES},
                                  race=True, timeout=3000, allow_fail=True, name="listing-race")
    races += race_reports(ltxt)
    if lrc != 0 and not race_reports(ltxt):
        raise vlib.Inconclusive("listing harness under -race failed:\n" + ltxt[-2000:])
    # deduplicate race reports by location
    seen, uniq = set(), []
    for x in races:
        key = tuple(x["where"][:3])
        if key not in seen:
            seen.add(key)
            uniq.append(x)
    events = evs + uniq
    bad, r2 = vlib.judge(ctx, "T_UIConc", "T_UIConc.cfg", events)
    bursts = [e for e in evs if e["ev"] == "burst"]
    res.traces = len(bursts)
    for e in bursts:
        res.case([e["sid"], e["keys"], e["resizes"], len(e["frames"])])
    res.extra["frames_observed"] = sum(len(e["frames"]) for e in bursts)
    res.extra["race_reports"] = len(uniq)
    res.extra["listing_sessions_under_race_detector"] = sum(1 for e in levs if e["ev"] == "listing")
    res.rule = ("a case is one burst of 1-5 keys issued concurrently (one goroutine per key, plus 0-2 resizes, with loads of freshly opened "
                "pages in flight and a tiny response cache) on a real ui.State built with -race; frames snapshotted inside the callback are "
                "judged by T_UIConc (lock held, no overlap, linearization of the issued keys under KeyNext, all keys returned); distinct = "
                "distinct (session, keys, number of frames)")
    for e in bursts[:2]:
        res.sample({"keys": e["keys"], "resizes": e["resizes"], "frames": e["frames"][:6], "returned": e["returned"]})
    res.assumptions = ["keys in bursts are those whose effect does not depend on how far background loads have got (no j/k, no commands, no hook keys)",
                       "the Go race detector only reports races that happen in the executed schedules"]
    for b in bad:
        e = events[b["line"] - 1]
        if e["ev"] == "race":
            sig = {"monitor": "race", "where": e["where"][0] if e["where"] else "?"}
            text = "data race: %s" % e["where"]
        elif e["ev"] == "liveness":
            sig = {"monitor": "liveness", "why": b["why"], "scenario": e["scenario"]}
            text = "%s: %s (%d of %d keys returned)" % (e["scenario"], b["why"], e["returned"], e["issued"])
        elif e["ev"] == "atomic":
            sig = {"monitor": "atomic", "why": b["why"], "scenario": e["scenario"]}
            text = "%s: %s (%s: expected %s, observed %s)" % (e["scenario"], b["why"], e["what"], e["expected"], e["observed"])
        elif e["ev"] == "unlocked":
            sig = {"monitor": "lock", "why": b["why"], "during": e["during"][:20]}
            text = "%s during %s (held=%s overlap=%s)" % (b["why"], e["during"][:300], e["held"], e["overlap"])
        else:
            sig = {"monitor": "T_UIConc", "why": b["why"]}
            text = "burst %s in session %d: %s; frames %s" % (e["keys"], e["sid"], b["why"], [f["snap"] for f in e["frames"]][:8])
        path = vlib.save_replay(ctx.pid, "l%d" % b["line"], e)
        res.violations.append((sig, path, text))
    return res
