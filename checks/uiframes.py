"""UI frames for C16: every frame handed to the output callback during the ui driver's sessions must have
exactly `height` lines (T_Term LineCount), be free of control tokens and neutral at line breaks."""
import vlib
from checks import uidrv


def collect(ctx, res, want="C16"):
    evs = uidrv.ui_events(ctx, res, frames=True)
    frames = [e for e in evs if e["ev"] == "out" and e["kind"] == "frame"]
    if not frames:
        raise vlib.Inconclusive("the ui driver produced no frames")
    bad, r = vlib.judge(ctx, "T_Term", "T_Term.cfg", frames, name="T_Term_frames")
    res.traces += len(frames)
    heights = set()
    for e in frames:
        heights.add(e["h"])
        res.case(["frame", e["w"], e["h"], len(e["toks"]), e["sid"], e["frame"]])
    res.extra["ui_frames"] = len(frames)
    res.extra["ui_frame_heights"] = sorted(heights)
    out = []
    status = [e for e in evs if e["ev"] == "status"]
    res.extra["status_line_scenarios"] = len(status)
    for e in status:
        res.case(["status", e["world"], e["scenario"], e["w"]])
        if e["panic"]:
            sig = {"monitor": "draw", "why": "drawing panicked or never finished", "scenario": e["scenario"].split(",")[0]}
            path = vlib.save_replay(ctx.pid, "status-s%d" % e["sid"], e)
            out.append((sig, path, "%s on a terminal %d columns wide: no frame was handed to the terminal (%s)" % (e["scenario"], e["w"], (e.get("what") or "")[:160])))
    for b in bad:
        e = frames[b["line"] - 1]
        if "lines" not in b["why"] and "centred" not in b["why"] and "status" not in b["why"] and want == "C16":
            continue
        rows = 1 + sum(1 for t in e["toks"] if t["t"] == "nl")
        sig = {"monitor": "T_Term", "why": ",".join(b["why"]), "kind": "frame", "lines_minus_h": rows - e["h"]}
        path = vlib.save_replay(ctx.pid, "frame-s%d-%d" % (e["sid"], e["frame"]), {k: e[k] for k in ("w", "h", "sid", "frame")})
        out.append((sig, path, "frame %d of ui session %d%s has %d lines on a terminal of height %d, highlighted item at row %s (%s rows), last line %r where the status line is %r (%s)" % (
            e["frame"], e["sid"], " (" + e["src"] + ")" if e.get("src") else "", rows, e["h"], e.get("cursor_top"), e.get("cursor_rows"), e.get("lastline"), e.get("status"), b["why"])))
    return out
