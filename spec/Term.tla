-------------------------------- MODULE Term --------------------------------
(* The terminal as an acceptor of servitor's output (C01, C14, C15, C16).

   Input alphabet, produced from raw output bytes by a deliberately dumb lexer in the harness:
     [t |-> "ch",  n |-> k]          a run of k printable runes (not unicode.IsControl, no ESC)
     [t |-> "nl"]                    a newline
     [t |-> "sgr", p |-> <<ints>>]   exactly ESC [ digits-and-semicolons m, parameters split at ';'
                                     (an empty parameter is -1)
     [t |-> "ctl", code |-> n]       any other rune with unicode.IsControl, and any other use of ESC

   State: the attributes a terminal would have active, cursor column/row, and the monitors.      *)
EXTENDS Integers, Sequences, FiniteSets, SequencesExt

Bool == {1, 3, 4, 9}             \* bold, italic, underline, strikethrough - all servitor generates
Neutral == [bools |-> {}, fg |-> <<>>, bg |-> <<>>]
T0 == [attrs |-> Neutral, col |-> 0, maxcol |-> 0, rows |-> 1,
       ctl |-> 0, badsgr |-> 0, dirty |-> 0]

IsRGB(p) == Len(p) = 5 /\ p[2] = 2 /\ \A i \in 3..5 : p[i] \in 0..255
SgrKnown(p) == \/ p = <<0>> \/ (Len(p) = 1 /\ p[1] \in Bool)
               \/ (IsRGB(p) /\ p[1] \in {38, 48})
SgrApply(a, p) == CASE p = <<0>>                  -> Neutral
                    [] Len(p) = 1 /\ p[1] \in Bool -> [a EXCEPT !.bools = @ \cup {p[1]}]
                    [] IsRGB(p) /\ p[1] = 38      -> [a EXCEPT !.fg = SubSeq(p, 3, 5)]
                    [] IsRGB(p) /\ p[1] = 48      -> [a EXCEPT !.bg = SubSeq(p, 3, 5)]
                    [] OTHER                      -> a

TermStep(st, tok) ==
    CASE tok.t = "ch"  -> [st EXCEPT !.col = @ + tok.n, !.maxcol = IF st.col + tok.n > @ THEN st.col + tok.n ELSE @]
      [] tok.t = "nl"  -> [st EXCEPT !.col = 0, !.rows = @ + 1,
                                     !.dirty = IF st.attrs # Neutral THEN @ + 1 ELSE @]
      [] tok.t = "sgr" -> [st EXCEPT !.attrs = SgrApply(@, tok.p),
                                     !.badsgr = IF SgrKnown(tok.p) THEN @ ELSE @ + 1]
      [] tok.t = "ctl" -> [st EXCEPT !.ctl = @ + 1]

Run(toks) == FoldLeft(TermStep, T0, toks)

\* ---------------- monitors on the final state of a whole output
NoCtl(st)           == st.ctl = 0 /\ st.badsgr = 0          \* C01
NeutralAtBreaks(st) == st.dirty = 0 /\ st.attrs = Neutral    \* C14: nothing active across \n or at the end
WidthBound(st, w)   == st.maxcol <= w                         \* C15
LineCount(st, h)    == st.rows = h                            \* C16
(* C16: the k rows of the highlighted item start after floor or ceil of half the spare rows (a block at
   least as tall as the screen starts at the top); top = -1: nothing highlighted in this frame *)
Centred(h, top, k)  == top >= 0 => IF k >= h THEN top = 0 ELSE top \in {(h - k) \div 2, (h - k + 1) \div 2}

\* ---------------- per-glyph attributes (C14): tokens where every glyph is its own "ch" token
\* with an identity;  GlyphAttrs gives <<id, attrs>> for each of them in order
GlyphFold(toks) ==
    FoldLeft(LAMBDA acc, tok :
               IF tok.t = "ch" /\ "id" \in DOMAIN tok
               THEN [st |-> TermStep(acc.st, tok), seen |-> Append(acc.seen, [id |-> tok.id, a |-> acc.st.attrs])]
               ELSE [st |-> TermStep(acc.st, tok), seen |-> acc.seen],
             [st |-> T0, seen |-> <<>>], toks)
=============================================================================
