SPECIFICATION Spec
CONSTANTS
  MaxPages = 4
  MaxBuf = 3
  GenDepth = 12
CONSTRAINTS GenBound GenEmit
CHECK_DEADLOCK FALSE
