SPECIFICATION Spec
CONSTANTS
  World = "w1"
  MaxPages = 4
  MaxBuf = 3
  GenDepth = 12
CONSTRAINTS GenBound GenEmit
CHECK_DEADLOCK FALSE
