SPECIFICATION Spec
CONSTANTS
  Variant = "fixed"
  GenOn = FALSE
INVARIANTS Safe Consistent
CHECK_DEADLOCK FALSE
