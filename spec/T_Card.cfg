SPECIFICATION Spec
INVARIANT Done
CHECK_DEADLOCK FALSE
