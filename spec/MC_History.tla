---------------------------- MODULE MC_History ----------------------------
(* The browser history as a state machine over the reference operators of Containers.
   Exhaustive configuration: MC_History.cfg (all operation sequences up to MaxOps, VIEW hides hist).
   Generation configuration: Gen_History.cfg (hist is part of the state, every operation sequence of
   length GenDepth is printed once as JSON for the Go driver).                                   *)
EXTENDS Containers, TLC, Json
CONSTANTS MaxItems, GenDepth
VARIABLES h, nxt, hist
vars == <<h, nxt, hist>>

Init == h = HEmpty /\ nxt = 1 /\ hist = <<>>

Add     == h' = HAdd(h, nxt) /\ nxt' = nxt + 1 /\ hist' = Append(hist, [op |-> "add", v |-> nxt])
Back    == h' = HBack(h)     /\ UNCHANGED nxt  /\ hist' = Append(hist, [op |-> "back", v |-> 0])
Forward == h' = HForward(h)  /\ UNCHANGED nxt  /\ hist' = Append(hist, [op |-> "forward", v |-> 0])
Next == Add \/ Back \/ Forward
Spec == Init /\ [][Next]_vars

Bound == nxt <= MaxItems
View  == <<h, nxt>>

TypeOK == HTypeOK(h)
CurrentDefined == ~HIsEmpty(h) => HCurrent(h) # None
(* opening a page discards the forward entries and nothing else; moves keep every entry *)
AddDiscardsOnlyForward == [][ (h'.elems # h.elems) => HAddKeepsPrefix(h, h') ]_vars
MovesKeepEntries == [][ (nxt' = nxt) => HMoveKeepsElems(h, h') ]_vars
(* back/forward saturate: never leave 1..Len *)
Saturate == [][ h.idx >= 1 => h'.idx \in 1..Len(h'.elems) ]_vars

GenEmit == (Len(hist) = GenDepth) => PrintT("GEN " \o ToJson(hist))
GenBound == Len(hist) <= GenDepth
=============================================================================
