------------------------------ MODULE MC_Center ------------------------------
(* C16: CenterVertically as coded satisfies CenterOK for every geometry up to a bound.
   A geometry is (lines of prefix, lines of centred block, lines of suffix, terminal height);
   blocks consist of labelled lines, the empty string is one blank line (Height("") = 1).
   Pinned = TRUE checks the algorithm as it was on the pinned tree (one spare row => h+1 lines):
   TLC then reports the counterexample that the conformance run reproduces on the real code.     *)
EXTENDS Layout, TLC
CONSTANTS MaxBlock, MaxH, Pinned
VARIABLES p, c, s, h

Block(tag, n) == IF n = 0 THEN <<Blank>> ELSE [i \in 1..n |-> <<tag, i>>]
Init == p \in 0..MaxBlock /\ c \in 1..MaxBlock /\ s \in 0..MaxBlock /\ h \in 2..MaxH
Next == UNCHANGED <<p, c, s, h>>
Spec == Init /\ [][Next]_<<p, c, s, h>>

Out == IF Pinned THEN CenterAlgPinned(Block("p", p), Block("c", c), Block("s", s), h)
       ELSE CenterAlg(Block("p", p), Block("c", c), Block("s", s), h)
CenterHolds == CenterOK(Block("p", p), Block("c", c), Block("s", s), h, Out)
(* the frame: centring then replacing the last line by the status line keeps exactly h lines *)
FrameHolds == Len(Out) = h /\ ReplaceLastOK(Out, "status", SubSeq(Out, 1, Len(Out) - 1) \o <<"status">>)
=============================================================================
