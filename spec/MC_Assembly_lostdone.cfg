SPECIFICATION Spec
CONSTANTS
  Deps = {"authors", "replies"}
  Variant = "lostdone"
  GenKind = "post"
  MaxTicks = 2
PROPERTIES Assembled
CHECK_DEADLOCK FALSE
