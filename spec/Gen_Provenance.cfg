SPECIFICATION GenSpec
CONSTANTS
  UrlSet = {"A/x", "B/x", "B/y", "M/x"}
  GenOn = TRUE
  GenN = 400
CONSTRAINT GenEmit
CHECK_DEADLOCK FALSE
