---- MODULE MC_Markup_TTrace_1790467307 ----
EXTENDS Sequences, TLCExt, MC_Markup, Toolbox, Naturals, TLC

_expression ==
    LET MC_Markup_TEExpression == INSTANCE MC_Markup_TEExpression
    IN MC_Markup_TEExpression!expression
----

_trace ==
    LET MC_Markup_TETrace == INSTANCE MC_Markup_TETrace
    IN MC_Markup_TETrace!trace
----

_inv ==
    ~(
        TLCGet("level") = Len(_TETrace)
        /\
        outs = (<<2, 2>>)
        /\
        cache = ([text |-> 2, width |-> 80])
        /\
        doc = (<<>>)
        /\
        ws = (<<2, 80>>)
    )
----

_init ==
    /\ doc = _TETrace[1].doc
    /\ outs = _TETrace[1].outs
    /\ ws = _TETrace[1].ws
    /\ cache = _TETrace[1].cache
----

_next ==
    /\ \E i,j \in DOMAIN _TETrace:
        /\ \/ /\ j = i + 1
              /\ i = TLCGet("level")
        /\ doc  = _TETrace[i].doc
        /\ doc' = _TETrace[j].doc
        /\ outs  = _TETrace[i].outs
        /\ outs' = _TETrace[j].outs
        /\ ws  = _TETrace[i].ws
        /\ ws' = _TETrace[j].ws
        /\ cache  = _TETrace[i].cache
        /\ cache' = _TETrace[j].cache

\* Uncomment the ASSUME below to write the states of the error trace
\* to the given file in Json format. Note that you can pass any tuple
\* to `JsonSerialize`. For example, a sub-sequence of _TETrace.
    \* ASSUME
    \*     LET J == INSTANCE Json
    \*         IN J!JsonSerialize("MC_Markup_TTrace_1790467307.json", _TETrace)

=============================================================================

 Note that you can extract this module `MC_Markup_TEExpression`
  to a dedicated file to reuse `expression` (the module in the 
  dedicated `MC_Markup_TEExpression.tla` file takes precedence 
  over the module `MC_Markup_TEExpression` below).

---- MODULE MC_Markup_TEExpression ----
EXTENDS Sequences, TLCExt, MC_Markup, Toolbox, Naturals, TLC

expression == 
    [
        \* To hide variables of the `MC_Markup` spec from the error trace,
        \* remove the variables below.  The trace will be written in the order
        \* of the fields of this record.
        doc |-> doc
        ,outs |-> outs
        ,ws |-> ws
        ,cache |-> cache
        
        \* Put additional constant-, state-, and action-level expressions here:
        \* ,_stateNumber |-> _TEPosition
        \* ,_docUnchanged |-> doc = doc'
        
        \* Format the `doc` variable as Json value.
        \* ,_docJson |->
        \*     LET J == INSTANCE Json
        \*     IN J!ToJson(doc)
        
        \* Lastly, you may build expressions over arbitrary sets of states by
        \* leveraging the _TETrace operator.  For example, this is how to
        \* count the number of times a spec variable changed up to the current
        \* state in the trace.
        \* ,_docModCount |->
        \*     LET F[s \in DOMAIN _TETrace] ==
        \*         IF s = 1 THEN 0
        \*         ELSE IF _TETrace[s].doc # _TETrace[s-1].doc
        \*             THEN 1 + F[s-1] ELSE F[s-1]
        \*     IN F[_TEPosition - 1]
    ]

=============================================================================



Parsing and semantic processing can take forever if the trace below is long.
 In this case, it is advised to uncomment the module below to deserialize the
 trace from a generated binary file.

\*
\*---- MODULE MC_Markup_TETrace ----
\*EXTENDS IOUtils, MC_Markup, TLC
\*
\*trace == IODeserialize("MC_Markup_TTrace_1790467307.bin", TRUE)
\*
\*=============================================================================
\*

---- MODULE MC_Markup_TETrace ----
EXTENDS MC_Markup, TLC

trace == 
    <<
    ([outs |-> <<>>,cache |-> [text |-> 80, width |-> 80],doc |-> <<>>,ws |-> <<>>]),
    ([outs |-> <<2>>,cache |-> [text |-> 2, width |-> 80],doc |-> <<>>,ws |-> <<2>>]),
    ([outs |-> <<2, 2>>,cache |-> [text |-> 2, width |-> 80],doc |-> <<>>,ws |-> <<2, 80>>])
    >>
----


=============================================================================

---- CONFIG MC_Markup_TTrace_1790467307 ----
CONSTANTS
    Variant = "fixed"
    CacheVariant = "stale"
    GenOn = FALSE
    Mode = "cache"

INVARIANT
    _inv

CHECK_DEADLOCK
    \* CHECK_DEADLOCK off because of PROPERTY or INVARIANT above.
    FALSE

INIT
    _init

NEXT
    _next

CONSTANT
    _TETrace <- _trace

ALIAS
    _expression
=============================================================================
\* Generated on Sun Sep 27 00:01:48 UTC 2026