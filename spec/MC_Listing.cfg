SPECIFICATION Spec
CONSTANTS
  MaxLen = 2
  GenOn = FALSE
INVARIANT Holds
CHECK_DEADLOCK FALSE
