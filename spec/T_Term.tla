------------------------------- MODULE T_Term -------------------------------
(* Trace specification for terminal output (C01, C14, C15, C16): every line of the log is one string
   the real code produced (a rendering, a name, a preview, a whole frame, a styled composition),
   tokenised by the harness lexer.  TLC folds the terminal acceptor of Term.tla over the tokens and
   evaluates the monitors the event asks for (chk):
      noctl   - no control token, only SGR sequences of the kinds servitor generates        (C01)
      neutral - no attribute active at any line break or at the end                         (C14)
      width   - no line longer than e.w columns                                             (C15)
      lines   - exactly e.h lines                                                           (C16)
      attrs   - every identified glyph carries exactly the expected attributes              (C14)
      glyphs  - the identified glyphs are exactly the expected ones, in order                (C14, texts styled side by side)
      centred - the highlighted item's rows sit in the vertical middle of the frame          (C16) *)
EXTENDS Term, TLC, Json
Log == ndJsonDeserialize("trace.ndjson")
VARIABLES l, bad
vars == <<l, bad>>

AttrsOK(f, exp) ==
    \A i \in 1..Len(f.seen) :
       LET g == f.seen[i] IN
       g.id \in DOMAIN exp =>
          LET x == exp[g.id] IN
          /\ g.a.bools = Range(x.bools)
          \* colours applied to the glyph, innermost first: the innermost one of each plane is what shows
          /\ IF x.fg = <<>> THEN g.a.fg = <<>> ELSE g.a.fg = x.fg[1]
          /\ IF x.bg = <<>> THEN g.a.bg = <<>> ELSE g.a.bg = x.bg[1]

(* glyphs: the identified characters seen are exactly the expected ones, each once, in order (nothing lost, nothing
   from elsewhere) *)
GlyphsOK(f, order) ==
    LET seen == [i \in 1..Len(f.seen) |-> f.seen[i].id] IN seen = order

Failed(e) ==
    LET f == GlyphFold(e.toks) st == f.st want == Range(e.chk) IN
    (IF "noctl" \in want /\ ~NoCtl(st) THEN <<"noctl">> ELSE <<>>) \o
    (IF "neutral" \in want /\ ~NeutralAtBreaks(st) THEN <<"neutral">> ELSE <<>>) \o
    (IF "width" \in want /\ ~WidthBound(st, e.w) THEN <<"width">> ELSE <<>>) \o
    (IF "lines" \in want /\ ~LineCount(st, e.h) THEN <<"lines">> ELSE <<>>) \o
    (IF "attrs" \in want /\ ~AttrsOK(f, e.expect) THEN <<"attrs">> ELSE <<>>) \o
    (IF "glyphs" \in want /\ ~GlyphsOK(f, e.order) THEN <<"glyphs">> ELSE <<>>) \o
    (IF "centred" \in want /\ ~Centred(e.h, e.cursor_top, e.cursor_rows) THEN <<"centred">> ELSE <<>>) \o
    \* the status line, when the mode has one, is what the last line of the frame says (as much of it as the width shows)
    (IF "status" \in want /\ e.lastline # e.status THEN <<"status">> ELSE <<>>)

Init == l = 1 /\ bad = <<>>
Step == /\ l <= Len(Log) /\ l' = l + 1
        /\ LET e == Log[l] IN
           IF e.ev # "out" THEN UNCHANGED bad
           ELSE LET why == Failed(e) IN
                bad' = IF why = <<>> THEN bad ELSE Append(bad, [line |-> l, why |-> why])
Spec == Init /\ [][Step]_vars
Done == (l = Len(Log) + 1) => PrintT("VERDICT " \o ToJson([consumed |-> l - 1, bad |-> bad]))
=============================================================================
