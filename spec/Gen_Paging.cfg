SPECIFICATION Spec
CONSTANTS
  Variant = "fixed"
  MaxPages = 3
  MaxItems = 2
  MaxN = 3
  MaxCalls = 4
  GenOn = TRUE
  Shape = "any"
CONSTRAINT GenEmit
CHECK_DEADLOCK FALSE
