------------------------------- MODULE FanOut -------------------------------
(* The concurrent fan-outs of pub / splicer (second half of C08): every site starts goroutines that are
   joined on a WaitGroup before the result is used.  For each site the variables every child writes and
   reads are declared here from the code; the discipline is that the write sets of concurrently live
   children are pairwise disjoint and disjoint from the others' read sets (slots of a pre-sized slice
   indexed by distinct i count as distinct variables).  The race detector run of the drivers is the
   conformance leg: a report there is an access this table does not allow.                          *)
EXTENDS Integers, Sequences, FiniteSets, TLC

Child(w, r) == [w |-> w, r |-> r]
Site == [
  NewPostFromObject |-> { Child({<<"p.creators", 0>>}, {<<"o", 0>>, <<"p.id", 0>>}), Child({<<"p.recipients", 0>>}, {<<"o", 0>>, <<"p.id", 0>>}),
                          Child({<<"p.attachments", 0>>, <<"p.attachmentsErr", 0>>}, {<<"o", 0>>}), Child({<<"p.comments", 0>>, <<"p.commentsErr", 0>>}, {<<"o", 0>>, <<"p.id", 0>>, <<"id", 0>>}) },
  getActors         |-> { Child({<<"output", i>>}, {<<"list", i>>, <<"source", 0>>}) : i \in 1..3 },
  NewActivityFromObject |-> { Child({<<"a.actor", 0>>, <<"a.actorErr", 0>>}, {<<"o", 0>>, <<"a.id", 0>>}), Child({<<"a.target", 0>>}, {<<"o", 0>>, <<"a.id", 0>>}) },
  harvest           |-> { Child({<<"fromThisPage", i>>}, {<<"c.elements", 0>>, <<"c.id", 0>>, <<"c.construct", 0>>}) : i \in 1..3 }
                        \cup { Child({<<"fromLaterPages", 0>>, <<"nextCollection", 0>>, <<"nextStartingPoint", 0>>}, {<<"c.next", 0>>, <<"c.nextErr", 0>>, <<"c.id", 0>>, <<"c.elements", 0>>}) },
  replenish         |-> { Child({<<"s.page", i>>, <<"s.basepoint", i>>, <<"s.elements", i>>}, {<<"source", i>>}) : i \in 1..3 },
  NewSplicer        |-> { Child({<<"s", i>>}, {<<"inputs", i>>}) : i \in 1..3 } ]

Disjoint(children) == \A a, b \in children : a # b => /\ a.w \cap b.w = {}
                                                     /\ a.w \cap b.r = {}
Discipline == \A s \in DOMAIN Site : Disjoint(Site[s])
ASSUME Discipline
=============================================================================
