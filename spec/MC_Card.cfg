SPECIFICATION Spec
CONSTANTS
  Family = "post_header"
  GenOn = FALSE
INVARIANTS ErrorsSaidInv DenseInv PreviewInv NeverEmpty
CHECK_DEADLOCK FALSE
