------------------------------ MODULE T_Markup ------------------------------
(* Trace specification for C12 (links lines) and the determinism half of C15 (robj / render lines).
   links : marks read off the full rendering of a real post, the generator's expectation, and what
           SelectLink answered for -1..N+2.  Accepted iff ObservedOK of Markup.tla.
   render: one Render(w) call on a markup object that lives across the lines since the last robj; the
           spec remembers what each width produced and demands the same digest again, equal to the one
           of a fresh object.                                                                        *)
EXTENDS Markup, TLC, Json
Log == ndJsonDeserialize("trace.ndjson")
VARIABLES l, bad, seen
vars == <<l, bad, seen>>
Init == l = 1 /\ bad = <<>> /\ seen = <<>>
Known(w) == \E i \in 1..Len(seen) : seen[i][1] = w
DigestOf(w) == LET i == CHOOSE i \in 1..Len(seen) : seen[i][1] = w IN seen[i][2]
Step == /\ l <= Len(Log) /\ l' = l + 1
        /\ LET e == Log[l] IN
           CASE e.ev = "links" ->
                  /\ bad' = IF ~e.panic /\ ObservedOK(e.marks, e.expect, e.sel) THEN bad
                            ELSE Append(bad, [line |-> l, why |-> IF e.panic THEN "panic" ELSE "numbers and targets disagree"])
                  /\ UNCHANGED seen
             [] e.ev = "robj" -> seen' = <<>> /\ UNCHANGED bad
             [] e.ev = "render" ->
                  LET ok == ~e.panic /\ e.digest = e.fresh /\ (Known(e.w) => DigestOf(e.w) = e.digest) IN
                  /\ bad' = IF ok THEN bad ELSE Append(bad, [line |-> l, why |-> IF e.panic THEN "panic" ELSE "rendering depends on earlier widths"])
                  /\ seen' = IF Known(e.w) THEN seen ELSE Append(seen, <<e.w, e.digest>>)
             [] OTHER -> UNCHANGED <<bad, seen>>
Spec == Init /\ [][Step]_vars
Done == (l = Len(Log) + 1) => PrintT("VERDICT " \o ToJson([consumed |-> l - 1, bad |-> bad]))
=============================================================================
