------------------------------ MODULE T_UIConc ------------------------------
(* Trace specification for C08.  A `burst` line: K keys issued to a real ui.State from K goroutines at
   once (as main.go does), together with resizes and background loads in flight; `frames` are the
   snapshots taken inside the output callback, in emission order, each with whether the emitting
   goroutine held the UI mutex and whether another callback was running.

   Accepted iff  (a) every frame was emitted by the lock holder, one at a time;
                 (b) every issued key returned;
                 (c) the frames are a linearization: there is an order of the issued keys such that each
                     frame shows the state after one more key - handled atomically, as UI.tla's KeyNext
                     prescribes - or shows the state unchanged (a resize or a load completing), and all
                     keys are accounted for at the end.
   `race` lines carry reports of the Go race detector: any report is rejected.                        *)
EXTENDS UI, Json
Log == ndJsonDeserialize("trace.ndjson")
VARIABLES l, sid, bad, cands, skip
vars == <<l, sid, bad, cands, skip>>

CProj(st) == [mode |-> st.mode, buf |-> st.buf, npages |-> Len(st.pages), at |-> st.at]
Remove(seq, i) == SubSeq(seq, 1, i - 1) \o SubSeq(seq, i + 1, Len(seq))
(* one frame: consume one pending key whose outcome matches, or stay (neutral frame) *)
Advance(cs, snap) ==
    {c \in cs : CProj(c.st) = snap}
    \cup UNION {UNION {{[st |-> r.st, pend |-> Remove(c.pend, i)] : r \in {x \in KeyNext(c.st, c.pend[i]) : CProj(x.st) = snap}}
                       : i \in 1..Len(c.pend)} : c \in cs}
RECURSIVE Explain(_, _, _)
Explain(cs, frames, i) == IF i > Len(frames) \/ cs = {} THEN cs ELSE Explain(Advance(cs, frames[i].snap), frames, i + 1)

Discipline(e) == \A i \in 1..Len(e.frames) : e.frames[i].held /\ ~e.frames[i].overlap
Why(e, after) == IF ~Discipline(e) THEN "frame emitted without holding the UI mutex, or two frames at once"
                 ELSE IF e.returned # Len(e.keys) THEN "a key never returned (deadlock)"
                 ELSE IF after = {} THEN "frames are not explained by any atomic order of the issued keys"
                 ELSE IF \A c \in after : c.pend # <<>> THEN "an issued key left no trace (lost update)"
                 ELSE ""
Init == l = 1 /\ sid = 0 /\ bad = <<>> /\ cands = {} /\ skip = FALSE
Step == /\ l <= Len(Log) /\ l' = l + 1
        /\ LET e == Log[l] IN
           CASE e.ev = "reset" -> sid' = e.sid /\ cands' = {Init0(e.start)} /\ skip' = FALSE /\ UNCHANGED bad
             [] e.ev = "burst" /\ ~skip ->
                  LET start == {[st |-> s, pend |-> e.keys] : s \in cands}
                      after == Explain(start, e.frames, 1)
                      done == {c \in after : c.pend = <<>>}
                      why == Why(e, after) IN
                  IF why = "" THEN cands' = {c.st : c \in done} /\ UNCHANGED <<sid, bad, skip>>
                  ELSE bad' = Append(bad, [sid |-> sid, line |-> l, why |-> why]) /\ skip' = TRUE /\ UNCHANGED <<sid, cands>>
             [] e.ev = "liveness" /\ e.returned < e.issued ->
                  bad' = Append(bad, [sid |-> e.sid, line |-> l, why |-> "the interface did not come back (a key or a load never returned)"]) /\ UNCHANGED <<sid, cands, skip>>
             [] e.ev = "atomic" /\ e.observed # e.expected ->
                  bad' = Append(bad, [sid |-> e.sid, line |-> l, why |-> "a background load was applied more than once, or not at all"]) /\ UNCHANGED <<sid, cands, skip>>
             [] e.ev = "race" -> bad' = Append(bad, [sid |-> 0, line |-> l, why |-> "data race reported by the race detector"]) /\ UNCHANGED <<sid, cands, skip>>
             [] e.ev = "unlocked" -> bad' = Append(bad, [sid |-> e.sid, line |-> l, why |-> "frame emitted without holding the UI mutex, or two frames at once"]) /\ UNCHANGED <<sid, cands, skip>>
             [] OTHER -> UNCHANGED <<sid, bad, cands, skip>>
Spec == Init /\ [][Step]_vars
Done == (l = Len(Log) + 1) => PrintT("VERDICT " \o ToJson([consumed |-> l - 1, bad |-> bad]))
=============================================================================
