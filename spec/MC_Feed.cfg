SPECIFICATION Spec
CONSTANTS
  MaxItems = 7
  MaxChunk = 2
  GenDepth = 0
INVARIANTS TypeOK CursorInBounds CursorOnItemWhenCentered Classification NoDuplicates
PROPERTIES GrowStable MoveStable
CONSTRAINT Bound
VIEW View
CHECK_DEADLOCK FALSE
