------------------------------ MODULE MC_Layout ------------------------------
(* Small-scope check that the layout algorithms, as coded, satisfy the requirements of C13/C14/C16
   for EVERY input up to a bound: the state space is the set of inputs (no transitions).          *)
EXTENDS Layout, TLC, Json
CONSTANTS MaxLen, MaxW, MaxH, Fn
VARIABLES in, w, h

A == Plain("a")
B == [Plain("b") EXCEPT !.s = <<"1">>, !.r = TRUE]
Ell == [Plain("~") EXCEPT !.s = <<"38;2;1;2;3">>, !.r = TRUE]
NlS == [NlCell EXCEPT !.s = <<"4">>]        \* a line break that carries styling of its own (ESC[4m before it)
Alphabet == {A, B, SpCell, NlCell, NlS}
Texts == UNION {[1..n -> Alphabet] : n \in 0..MaxLen}

Init == in \in Texts /\ w \in 1..MaxW /\ h \in 1..MaxH
Next == UNCHANGED <<in, w, h>>
Spec == Init /\ [][Next]_<<in, w, h>>

WrapHolds     == Fn = "wrap"   => WrapOK(in, w, WrapAlg(in, w))
DumbWrapHolds == Fn = "dumb"   => DumbWrapOK(in, w, DumbWrapAlg(in, w))
PadHolds      == Fn = "pad"    => PadOK(in, w, PadAlg(in, w))
IndentHolds   == Fn = "indent" => /\ IndentOK(in, <<A, SpCell>>, h = 1, IndentAlg(in, <<A, SpCell>>, h = 1))
SnipHolds     == Fn = "snip"   => (LinesWithin(in, w) => SnipOK(in, w, h, Ell, SnipAlg(in, w, h, Ell)))
SnipAfterWrap == Fn = "snip"   => LET t == WrapAlg(in, w) IN SnipOK(t, w, h, Ell, SnipAlg(t, w, h, Ell))
ApplyHolds    == Fn = "apply"  => ApplyOK(in, "9", ApplyAlg(in, "9")) /\ ApplyOK(in, "1", ApplyAlg(in, "1"))
(* wrapping what was padded keeps the padding (the comment in ansi.Wrap), and is idempotent *)
WrapIdempotent == Fn = "wrap"  => LET t == WrapAlg(in, w) IN WrapAlg(t, w) = t
(* generation: every text once, as a string of codes a (plain glyph), b (styled glyph), s, n *)
Code(c) == IF c = A THEN "a" ELSE IF c = B THEN "b" ELSE IF c = SpCell THEN "s" ELSE IF c = NlS THEN "m" ELSE "n"
Codes(t) == FoldLeft(LAMBDA acc, c : acc \o Code(c), "", t)
GenEmit == (w = 1 /\ h = 1) => PrintT("GEN " \o ToJson(Codes(in)))
=============================================================================
