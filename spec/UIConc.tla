------------------------------- MODULE UIConc -------------------------------
(* Lock discipline of the UI (ui/ui.go, main.go; C08).

   One mutex protects State.  Processes:
     key(i)    one goroutine per key press (main.go: `go state.Update(input)`):   lock; handle; emit; unlock
     poll      the 25 ms resize poller:                                           lock; maybe mutate+emit; unlock
     load(j)   a background operation started by a handler - opening user input or a link, loading
               parents / children, the media hook exiting:   work without the lock; lock; commit; emit; unlock
     feed      the goroutine started by the feed command.  Variant "pinned": it commits and emits WITHOUT
               taking the lock (the tree as first received); "fixed": like load.
     Hook      one of the loads may be the media program: its work (the program running) is under nobody's control
               and need not ever end - no fairness for it.  Variant "hookheld": that goroutine takes the lock BEFORE
               it waits for the program (as if CombinedOutput were called under State.m): every key then waits for
               the program to exit - KeysFinish is refuted (MC_UIConc_hookheld.cfg), while it holds in "fixed"
               however long the program runs (MC_UIConc_hook.cfg).
   The data itself is abstracted to a version counter; what matters is who touches it while holding what. *)
EXTENDS Integers, Sequences, FiniteSets, TLC
CONSTANTS Keys, Loads, Variant, Hook

Procs == Keys \cup Loads \cup {"poll", "feed"}
VARIABLES pc, holder, version, emitting, writers, done
vars == <<pc, holder, version, emitting, writers, done>>

HeldHook(p) == Variant = "hookheld" /\ p = Hook
Init == /\ pc = [p \in Procs |-> IF HeldHook(p) THEN "want" ELSE IF p \in Loads \cup {"feed"} THEN "work" ELSE "want"]
        /\ holder = "none" /\ version = 0 /\ emitting = {} /\ writers = {} /\ done = {}

Locked(p) == Variant # "pinned" \/ p # "feed"          \* does this process use the mutex?

Work(p)    == pc[p] = "work" /\ pc' = [pc EXCEPT ![p] = IF HeldHook(p) THEN "mutate" ELSE "want"] /\ UNCHANGED <<holder, version, emitting, writers, done>>
Acquire(p) == /\ pc[p] = "want"
              /\ IF Locked(p) THEN holder = "none" /\ holder' = p ELSE UNCHANGED holder
              /\ pc' = [pc EXCEPT ![p] = IF HeldHook(p) THEN "work" ELSE "mutate"] /\ UNCHANGED <<version, emitting, writers, done>>
(* the mutation takes time: another process may be in the middle of its own if nothing excludes it *)
BeginMutate(p) == /\ pc[p] = "mutate" /\ writers' = writers \cup {p}
                  /\ pc' = [pc EXCEPT ![p] = "mutating"] /\ UNCHANGED <<holder, version, emitting, done>>
EndMutate(p)   == /\ pc[p] = "mutating" /\ writers' = writers \ {p} /\ version' = version + 1
                  /\ pc' = [pc EXCEPT ![p] = "emit"] /\ UNCHANGED <<holder, emitting, done>>
BeginEmit(p)   == /\ pc[p] = "emit" /\ emitting' = emitting \cup {p}
                  /\ pc' = [pc EXCEPT ![p] = "emitting"] /\ UNCHANGED <<holder, version, writers, done>>
EndEmit(p)     == /\ pc[p] = "emitting" /\ emitting' = emitting \ {p}
                  /\ pc' = [pc EXCEPT ![p] = "release"] /\ UNCHANGED <<holder, version, writers, done>>
Release(p)     == /\ pc[p] = "release"
                  /\ IF Locked(p) THEN holder' = "none" ELSE UNCHANGED holder
                  /\ pc' = [pc EXCEPT ![p] = "done"] /\ done' = done \cup {p} /\ UNCHANGED <<version, emitting, writers>>
Own(p)  == Acquire(p) \/ BeginMutate(p) \/ EndMutate(p) \/ BeginEmit(p) \/ EndEmit(p) \/ Release(p)
Step(p) == Work(p) \/ Own(p)
Next == \E p \in Procs : Step(p)
Fairness == \A p \in Procs : SF_vars(Acquire(p)) /\ WF_vars(Own(p)) /\ (p # Hook => WF_vars(Work(p)))
Spec == Init /\ [][Next]_vars /\ Fairness

(* C08 *)
MutateOnlyByHolder == \A p \in writers : holder = p
OneWriter          == Cardinality(writers) <= 1
EmitOnlyByHolder   == \A p \in emitting : holder = p
OneFrameAtATime    == Cardinality(emitting) <= 1
NoDeadlock         == (done = Procs) \/ ENABLED Next
EveryoneFinishes   == <>(done = Procs)                 \* no deadlock, every issued key is processed
KeysFinish         == <>(Keys \subseteq done)          \* ... however long the media program runs
=============================================================================
