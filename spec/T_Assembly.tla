----------------------------- MODULE T_Assembly -----------------------------
(* Trace specification for C05 at the level of items: every `assembled` line is one item the real
   constructors built (or failed to build) from an intact primary document while the peers of its
   secondary fetches behaved as `fault` says (Assembly.tla).  Accepted iff
     - the item was assembled (the join was reached) without a crash, within 3 timeouts per sequential stage,
     - every operation of a page on it returned (no crash, no hang),
     - no branch whose peer misbehaved shows up as a value, and each of them left an error behind.   *)
EXTENDS Integers, Sequences, FiniteSets, TLC, Json
Log == ndJsonDeserialize("trace.ndjson")
VARIABLES l, bad
vars == <<l, bad>>
Whole(k) == k = "none"
BadOps(e) == {i \in 1..Len(e.ops) : e.ops[i].outcome # "ok"}
Why(e) == IF e.panic THEN "crash while the item was assembled"
          ELSE IF ~e.built THEN "the item was never assembled (the join was not reached)"
          ELSE IF e.ticks > 3 * e.stages THEN "assembled too late"
          ELSE IF BadOps(e) # {} THEN LET i == CHOOSE i \in BadOps(e) : TRUE IN
                    "operation " \o e.ops[i].op \o " on the item ended in a " \o e.ops[i].outcome
          ELSE IF \E d \in DOMAIN e.rep : e.rep[d] = "value" /\ ~Whole(e.fault[d]) THEN "content of a failed fetch shown as a value"
          ELSE IF \E d \in DOMAIN e.rep : e.rep[d] = "absent" /\ ~Whole(e.fault[d]) THEN "a failed fetch left no error behind"
          ELSE ""
Init == l = 1 /\ bad = <<>>
Step == /\ l <= Len(Log) /\ l' = l + 1
        /\ LET e == Log[l] IN
           IF e.ev = "assembled" /\ Why(e) # "" THEN bad' = Append(bad, [line |-> l, why |-> Why(e)])
           ELSE UNCHANGED bad
Spec == Init /\ [][Step]_vars
Done == (l = Len(Log) + 1) => PrintT("VERDICT " \o ToJson([consumed |-> l - 1, bad |-> bad]))
=============================================================================
