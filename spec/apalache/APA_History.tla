---------------------------- MODULE APA_History ----------------------------
(* The browser history's invariants as an INDUCTIVE invariant, discharged by Apalache for histories of
   any length up to the generator bound (no bound on the number of operations): garnish for C18.      *)
EXTENDS Integers, Sequences, Apalache
VARIABLES
  \* @type: Seq(Int);
  elems,
  \* @type: Int;
  idx

Init == elems = <<>> /\ idx = 0
Add == \E e \in 1..3 : elems' = Append(SubSeq(elems, 1, idx), e) /\ idx' = idx + 1
Back == idx' = (IF idx > 1 THEN idx - 1 ELSE idx) /\ UNCHANGED elems
Forward == idx' = (IF idx < Len(elems) THEN idx + 1 ELSE idx) /\ UNCHANGED elems
Next == Add \/ Back \/ Forward

IndInv == /\ idx >= 0 /\ idx <= Len(elems)
          /\ (idx = 0) <=> (Len(elems) = 0)
IndInit == elems = Gen(8) /\ idx \in -2..10 /\ IndInv
=============================================================================
