------------------------------ MODULE MC_Feed ------------------------------
(* The feed (two-sided sequence with cursor) as a state machine over Containers' operators. *)
EXTENDS Containers, TLC, Json
CONSTANTS MaxItems, MaxChunk, GenDepth
VARIABLES f, made, nxt, hist
vars == <<f, made, nxt, hist>>

Fresh(k) == [i \in 1..k |-> nxt + i - 1]
Rec(op, k) == hist' = Append(hist, [op |-> op, k |-> k])

Init == f = FCreate(0) /\ made = FALSE /\ nxt = 1 /\ hist = <<>>

Create     == ~made /\ f' = FCreate(nxt) /\ nxt' = nxt + 1 /\ made' = TRUE /\ Rec("create", 1)
CreateList == ~made /\ \E k \in 0..MaxChunk :
                 f' = FCreateList(Fresh(k)) /\ nxt' = nxt + k /\ made' = TRUE /\ Rec("createlist", k)
Append_    == made /\ \E k \in 0..MaxChunk :
                 f' = FAppend(f, Fresh(k)) /\ nxt' = nxt + k /\ UNCHANGED made /\ Rec("append", k)
Prepend    == made /\ \E k \in 0..MaxChunk :
                 f' = FPrepend(f, Fresh(k)) /\ nxt' = nxt + k /\ UNCHANGED made /\ Rec("prepend", k)
MoveUp     == made /\ f' = FMoveUp(f)       /\ UNCHANGED <<nxt, made>> /\ Rec("up", 0)
MoveDown   == made /\ f' = FMoveDown(f)     /\ UNCHANGED <<nxt, made>> /\ Rec("down", 0)
MoveCenter == made /\ f' = FMoveToCenter(f) /\ UNCHANGED <<nxt, made>> /\ Rec("center", 0)
Next == Create \/ CreateList \/ Append_ \/ Prepend \/ MoveUp \/ MoveDown \/ MoveCenter
Spec == Init /\ [][Next]_vars

Bound == nxt <= MaxItems   \* hist is hidden by VIEW, so the bound must not depend on it
View  == <<f, made, nxt>>

TypeOK == FTypeOK(f)
(* created around an item, or as a non-empty list: the cursor stays on an item for ever *)
CursorInBounds == made => FCursorInBounds(f)
CursorOnItemWhenCentered == (made /\ hist[1].op = "create") => f.cur \in Range(f)
Classification == \A off \in -3..3 :
                    /\ FIsParent(f, off) <=> (f.cur + off < 0)
                    /\ FIsChild(f, off)  <=> (f.cur + off > 0)
                    /\ (FContains(f, off) => FGet(f, off) # None)
NoDuplicates == \A p, q \in Range(f) : f.items[p] = f.items[q] => p = q
GrowStable == [][ (made /\ made' /\ nxt' # nxt) => FGrowStable(f, f') ]_vars
MoveStable == [][ (made /\ nxt' = nxt) => FMoveStable(f, f') ]_vars

GenEmit == (Len(hist) = GenDepth) => PrintT("GEN " \o ToJson(hist))
GenBound == Len(hist) <= GenDepth
=============================================================================
