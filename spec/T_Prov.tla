------------------------------- MODULE T_Prov -------------------------------
(* Trace specification for C02 (accept lines) and C09 (listing lines).
   accept:  one object the real code accepted (client.FetchUnknown result, or an item built by the pub
            constructors) with the id it was accepted under and the stamp of the host that really served
            its JSON.  Accepted iff ProvOK: id present => stamp host = id host.  Whether an object is
            accepted at all is not demanded; the difference to the implementation-shaped model
            FetchUnknownM is reported as drift, not as a verdict.
   listing: the items a real outbox / reply collection / author check produced for generated entry
            classes; accepted iff ListingOK.                                                         *)
EXTENDS Provenance, TLC, Json
Log == ndJsonDeserialize("trace.ndjson")
VARIABLES l, sid, bad, drift, W, H
vars == <<l, sid, bad, drift, W, H>>

Init == l = 1 /\ sid = 0 /\ bad = <<>> /\ drift = <<>> /\ W = <<>> /\ H = <<>>
HostOfId(e) == IF e.id = "none" THEN "none" ELSE e.id_host
Step == /\ l <= Len(Log) /\ l' = l + 1
        /\ LET e == Log[l] IN
           CASE e.ev = "reset" -> sid' = e.sid /\ W' = e.world /\ H' = e.hosts /\ UNCHANGED <<bad, drift>>
             [] e.ev = "accept" ->
                  /\ bad' = IF (e.ok /\ e.id # "none") => e.stamp = e.id_host THEN bad
                            ELSE Append(bad, [sid |-> sid, line |-> l, why |-> "object attributed to a host that did not serve it"])
                  /\ drift' = IF e.via = "FetchUnknown" /\ e.modelled
                              THEN LET m == FetchUnknownM(W, H, e.inp, e.src) IN
                                   IF m.ok = e.ok /\ (m.ok => m.id = e.id /\ (m.id # "none" => m.stamp = e.stamp)) THEN drift ELSE Append(drift, l)
                              ELSE drift
                  /\ UNCHANGED <<sid, W, H>>
             [] e.ev = "listing" /\ e.panic ->
                  /\ bad' = Append(bad, [sid |-> sid, line |-> l, why |-> "panic while building a listing"])
                  /\ UNCHANGED <<sid, W, H, drift>>
             [] e.ev = "listing" /\ ~e.panic ->
                  /\ bad' = IF ListingOK(e.classes, e.shown) THEN bad
                            ELSE Append(bad, [sid |-> sid, line |-> l, why |-> "listing shows an impostor as genuine or drops an entry"])
                  /\ UNCHANGED <<sid, W, H, drift>>
             [] e.ev = "author" ->
                  \* where a post and its author live is where they were served from, not only what their ids say
                  /\ bad' = IF e.shown => /\ e.post_host = e.author_host
                                          /\ e.post_served \in {"none", e.author_host}
                                          /\ e.author_served \in {"none", e.author_host} THEN bad
                            ELSE Append(bad, [sid |-> sid, line |-> l, why |-> "post shown with an author from another host"])
                  /\ UNCHANGED <<sid, W, H, drift>>
             [] OTHER -> UNCHANGED <<sid, bad, drift, W, H>>
Spec == Init /\ [][Step]_vars
Done == (l = Len(Log) + 1) => PrintT("VERDICT " \o ToJson([consumed |-> l - 1, bad |-> bad, drift |-> drift]))
=============================================================================
