SPECIFICATION Spec
CONSTANTS
  Deps = {"authors", "recipients", "replies"}
  Variant = "joinall"
  GenKind = "post"
  MaxTicks = 3
INVARIANTS NoPartialValue ErrorsShown Timely
PROPERTIES Assembled AllOpsReturn
CHECK_DEADLOCK FALSE
