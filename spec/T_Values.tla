------------------------------ MODULE T_Values ------------------------------
(* Trace specification for C17: every line is one accessor call of the real object.Object on a concrete
   JSON value of a known class; accepted iff ObsOK of Values.tla.                                    *)
EXTENDS Values, Json
Log == ndJsonDeserialize("trace.ndjson")
VARIABLES l, bad
vars == <<l, bad>>
Init == l = 1 /\ bad = <<>>
Step == /\ l <= Len(Log) /\ l' = l + 1
        /\ LET e == Log[l] IN
           IF e.ev = "accessor" /\ (e.panic \/ e.mutated \/ ~ObsOK(e.acc, e.class, e.outcome, e.got, e.want) \/ ~AgainOK(e.outcome, e.again, e.want))
           THEN bad' = Append(bad, [line |-> l, why |-> IF e.panic THEN "panic" ELSE IF e.mutated THEN "reading changed the object"
                                                         ELSE IF e.outcome \notin Allowed(e.acc, e.class) THEN "wrong classification"
                                                         ELSE IF e.got # e.want THEN "value differs from the JSON" ELSE "a later read shows what an earlier holder did to its value"])
           ELSE UNCHANGED bad
Spec == Init /\ [][Step]_vars
Done == (l = Len(Log) + 1) => PrintT("VERDICT " \o ToJson([consumed |-> l - 1, bad |-> bad]))
=============================================================================
