------------------------------ MODULE Assembly ------------------------------
(* An item of a page is assembled from one primary document and several secondary fetches that run
   side by side (pub.NewPostFromObject: authors, recipients, replies; NewActivityFromObject: actor,
   object; NewActorFromObject: outbox; getActors: one goroutine per listed actor) and are joined by a
   WaitGroup before the item exists (C05 at the level of items; C08's fan-out).

   A secondary fetch is one run of Faults.tla, abstracted to its outcome: it delivers the whole
   response ("ok"), or its peer misbehaves and the fetch ends in an error after at most MaxTicks ticks.
   Join discipline, per Variant:
       "joinall"   every branch reports to the join on every path (the tree as it is)
       "lostdone"  a branch that ends in an error forgets to report (a lost wg.Done): the join waits for ever
   After the join the operations a page performs on an item run: text, preview, walking to the children
   (Children() then Harvest) and to the parents.  A branch that failed is represented by an error marker,
   never by a value; a nil child container is never harvested.                                       *)
EXTENDS Integers, Sequences, FiniteSets, TLC, Json
CONSTANTS Deps, Variant, MaxTicks

Kinds == {"none", "refuse", "close", "cut", "garbage", "reset", "stall"}
Whole(k) == k = "none"

VARIABLES fault,      \* Deps -> Kinds, chosen by the adversary
          st,         \* Deps -> "running" | "ok" | "err"
          reported,   \* set of branches that have told the join they are finished
          clock, built, rep, ops
vars == <<fault, st, reported, clock, built, rep, ops>>

Init == /\ fault \in [Deps -> Kinds] /\ st = [d \in Deps |-> "running"] /\ reported = {}
        /\ clock = 0 /\ built = FALSE /\ rep = [d \in Deps |-> "unknown"] /\ ops = {}

(* a branch finishes: at once when the peer is honest or fails abruptly, at the deadline when it stalls *)
Finish(d) ==
    /\ st[d] = "running"
    /\ fault[d] = "stall" => clock >= MaxTicks
    /\ st' = [st EXCEPT ![d] = IF Whole(fault[d]) THEN "ok" ELSE "err"]
    /\ reported' = IF Variant = "lostdone" /\ ~Whole(fault[d]) THEN reported ELSE reported \cup {d}
    /\ UNCHANGED <<fault, clock, built, rep, ops>>
Tick == /\ ~built /\ clock < MaxTicks /\ \E d \in Deps : st[d] = "running" /\ fault[d] = "stall"
        /\ clock' = clock + 1 /\ UNCHANGED <<fault, st, reported, built, rep, ops>>
(* wg.Wait() returns; the item records value or error per branch *)
Join == /\ ~built /\ reported = Deps
        /\ built' = TRUE
        /\ rep' = [d \in Deps |-> IF st[d] = "ok" THEN "value" ELSE "error"]
        /\ UNCHANGED <<fault, st, reported, clock, ops>>
(* operations of a page on the item; each returns *)
Op(o) == /\ built /\ o \notin ops /\ ops' = ops \cup {o}
         /\ UNCHANGED <<fault, st, reported, clock, built, rep>>
OpNames == {"text", "preview", "children", "parents"}
Next == (\E d \in Deps : Finish(d)) \/ Tick \/ Join \/ (\E o \in OpNames : Op(o))
Spec == Init /\ [][Next]_vars /\ WF_vars(Next)

(* C05 for items *)
Assembled == <>built
AllOpsReturn == <>(ops = OpNames)
NoPartialValue == built => \A d \in Deps : rep[d] = "value" => Whole(fault[d])
ErrorsShown == built => \A d \in Deps : ~Whole(fault[d]) => rep[d] = "error"
Timely == built => clock <= MaxTicks      \* branches run side by side: one deadline, not one per branch

(* generation: every assignment of behaviours to the branches of an item kind (the initial states) *)
CONSTANTS GenKind
GenSpec == Init /\ [][FALSE]_vars
GenEmit == PrintT("GEN " \o ToJson([kind |-> GenKind, fault |-> fault]))
=============================================================================
