----------------------------- MODULE Provenance -----------------------------
(* Whose word servitor takes about an object (client.FetchUnknown, C02) and which entries of a
   listing it shows as genuine (pub constructors for outboxes, replies and authors, C09).

   World: W maps URL ids to  [t |-> "err"] | [t |-> "redir", to |-> u] | [t |-> "doc", id |-> u or "none", stub |-> BOOLEAN].
   Every served document is stamped with the host that served it (ground truth).  An object handed to
   FetchUnknown is either a reference (URL) or an embedded object [id, stub, stamp] where stamp is the host
   that served the document it was embedded in; `src` is the validated id of the enclosing object or "none".
   FetchURL is the cache-free reference of Fetch.tla (C03 shows the cache is transparent).             *)
EXTENDS Integers, Sequences, FiniteSets

(* H: a function from URL ids to their host part *)

Budget == 20
Fail == [ok |-> FALSE, id |-> "none", stamp |-> "none", stub |-> FALSE]

(* FetchURL: final document and the URL that served it *)
RECURSIVE FetchURL(_, _, _)
FetchURL(W, u, b) ==
    IF u \notin DOMAIN W THEN [ok |-> FALSE]
    ELSE LET r == W[u] IN
         CASE r.t = "err"   -> [ok |-> FALSE]
           [] r.t = "redir" -> IF b = 0 THEN [ok |-> FALSE] ELSE FetchURL(W, r.to, b - 1)
           [] r.t = "doc"   -> [ok |-> TRUE, doc |-> r, src |-> u]

(* client.FetchUnknown as coded.  inp: [t |-> "ref", u |-> url] | [t |-> "emb", id, stub, stamp]; src: URL id or "none" *)
FetchUnknownM(W, H, inp, src) ==
    LET first == IF inp.t = "ref"
                 THEN LET f == FetchURL(W, inp.u, Budget) IN
                      IF f.ok THEN [ok |-> TRUE, id |-> f.doc.id, stub |-> f.doc.stub, stamp |-> H[f.src], src |-> f.src]
                      ELSE [ok |-> FALSE]
                 ELSE [ok |-> TRUE, id |-> inp.id, stub |-> inp.stub, stamp |-> inp.stamp, src |-> src]
    IN IF ~first.ok THEN Fail
       ELSE IF first.id # "none" /\ (first.src = "none" \/ H[first.src] # H[first.id] \/ first.stub)
       THEN LET f == FetchURL(W, first.id, Budget) IN
            IF ~f.ok THEN Fail
            ELSE IF f.doc.id # "none" /\ H[f.src] # H[f.doc.id] THEN Fail     \* forged identifier
            ELSE [ok |-> TRUE, id |-> f.doc.id, stamp |-> H[f.src], stub |-> f.doc.stub]
       ELSE [ok |-> TRUE, id |-> first.id, stamp |-> first.stamp, stub |-> first.stub]

(* C02: an accepted object that carries an id was served by the host named in that id *)
ProvOK(H, res) == (res.ok /\ res.id # "none") => res.stamp = H[res.id]

(* well-formed inputs: an embedded object with a validated enclosing id was served by that id's host *)
InputOK(H, inp, src) == inp.t = "emb" /\ src # "none" => inp.stamp = H[src]

\* ------------------------------------------------------------------ listings (C09)
(* Entry classes of generated outboxes / reply collections / author lists, with the ground truth the
   generator builds into the world: does the entry really belong to the owner?                       *)
OutboxClasses == {"legit_emb", "legit_ref", "legit_actor_emb", "legit_noid", "legit_stub", "legit_announce", "legit_author_no_actor", "legit_announce_wrapped",
                  "other_actor", "other_actor_samehost_query", "other_actor_case", "no_actor", "fetch_fails", "not_activity",
                  "foreign_claims_owner_id", "actor_fetch_fails",
                  "anon_actor",
                  "redirected_forged"}     \* an address on the owner's host that redirects to another host, which serves an activity under an id on the owner's host            \* an activity without an id performed by an embedded actor without an id: nobody's, not the owner's
ReplyClasses  == {"legit_emb", "legit_ref", "legit_stub", "legit_author_no_actor", "other_parent", "other_parent_case", "no_parent", "parent_fetch_fails",
                  "fetch_fails", "not_post", "parent_other_host_same_path", "forged_author",
                  "anon_parent",
                  "redirected_forged"}     \* the same for a reply: the other host's note claims an id, an author and a parent on the owner's host           \* a reply without an id whose reply target is an embedded object without an id
Legit(class) == class \in {"legit_emb", "legit_ref", "legit_actor_emb", "legit_noid", "legit_stub", "legit_announce",
                          "legit_author_no_actor", "legit_announce_wrapped"}   \* a genuine entry whose post names, as its author, something of another host that is no actor

(* shown[i] \in {"genuine", "error"}: what the real listing showed at position i *)
ListingOK(classes, shown) ==
    /\ Len(shown) = Len(classes)                                   \* nothing dropped, nothing added
    /\ \A i \in 1..Len(shown) : shown[i] \in {"genuine", "error"}   \* every position holds an item
    /\ \A i \in 1..Len(classes) :
         /\ shown[i] = "genuine" => Legit(classes[i])              \* only genuine members are shown as such
         /\ ~Legit(classes[i]) => shown[i] = "error"               \* impostors appear as error items in place
=============================================================================
