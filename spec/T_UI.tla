-------------------------------- MODULE T_UI --------------------------------
(* Trace specification for C07: a session is a start page and a sequence of key tokens pressed on a real
   ui.State; after each key (all bytes of a token delivered, background loads settled) the observable
   projection and the hook calls are logged.  The spec carries the SET of reference states compatible
   with everything seen so far (the keymap is deterministic except for one undocumented corner) and
   rejects a key when no allowed outcome matches the observation.  `wild` lines (arbitrary bytes on
   arbitrary pages) are only required not to crash or wedge.                                         *)
EXTENDS UI, Json
Log == ndJsonDeserialize("trace.ndjson")
VARIABLES l, sid, skip, bad, cands, lens, hp
vars == <<l, sid, skip, bad, cands, lens, hp>>

HookTarget(h) == CASE h.k = "link"  -> LinkTarget[h.item][h.n]
                   [] h.k = "media" -> "media_" \o h.item
                   [] h.k = "pic"   -> "pic_" \o h.item
                   [] h.k = "banner" -> "banner_" \o h.item
                   [] OTHER -> "none"
HookMatches(h, calls) == IF h.k = "none" THEN calls = <<>>
                         ELSE Len(calls) = 1 /\ calls[1].target = HookTarget(h)
(* held sessions: the hook started by a key is still running when the next key arrives; its end is the
   `hookexit` line (hp counts the hooks started since the last one) *)
Outcomes(k, e) == UNION {{IF r.hook.k # "none" /\ ~e.held THEN HookExit(r.st) ELSE r.st : r \in {x \in KeyNext(s, k) : HookMatches(x.hook, e.hooks)}} : s \in cands}

Init == l = 1 /\ sid = 0 /\ skip = FALSE /\ bad = <<>> /\ cands = {} /\ lens = <<>> /\ hp = 0
Reject(why) == /\ bad' = Append(bad, [sid |-> sid, line |-> l, why |-> why]) /\ skip' = TRUE /\ UNCHANGED <<sid, cands, lens, hp>>
Step == /\ l <= Len(Log) /\ l' = l + 1
        /\ LET e == Log[l] IN
           CASE e.ev = "reset" -> sid' = e.sid /\ skip' = FALSE /\ cands' = {Init0(e.start)} /\ lens' = e.lens /\ hp' = 0 /\ UNCHANGED bad
             [] e.ev = "unsettled" /\ ~skip ->
                  \* a key that is not waited for (a background load is in flight): it acts on the pages as the keymap says;
                  \* whether a cursor movement found its item loaded yet is settled at the resync line
                  cands' = UNION {{r.st : r \in KeyNext(c, e.k)} : c \in cands} /\ UNCHANGED <<sid, skip, bad, lens, hp>>
             [] e.ev = "resync" /\ ~skip ->
                  \* keys (cursor movements only) arrived while a background load was in flight: where the cursor ended up
                  \* depends on the timing, everything else does not - the pages must be exactly what the keymap says
                  IF e.wedged THEN Reject("interface wedged (loads never settled)")
                  ELSE LET moved == UNION {{SetCur(c, n) : n \in Lo(Cur(c))..Hi(Cur(c))} : c \in cands}
                           next == {s \in moved : Proj(s, lens) = e.obs} IN
                       IF next = {} THEN Reject("after keys pressed during a background load the page is not what the keymap predicts")
                       ELSE cands' = next /\ UNCHANGED <<sid, skip, bad, lens, hp>>
             [] e.ev = "hookexit" /\ ~skip ->
                  IF e.wedged THEN Reject("interface wedged (loads never settled)")
                  ELSE LET next == {s \in {IF hp > 0 THEN HookExit(c) ELSE c : c \in cands} : Proj(s, lens) = e.obs} IN
                       IF next = {} THEN Reject("state after the hook ended is not what the keymap predicts")
                       ELSE cands' = next /\ hp' = 0 /\ UNCHANGED <<sid, skip, bad, lens>>
             [] e.ev = "key" /\ ~skip ->
                  IF e.k = "bs" /\ \E s \in cands : s.buf # <<>> /\ s.buf[Len(s.buf)] \in CmdToks
                  THEN skip' = TRUE /\ UNCHANGED <<sid, bad, cands, lens, hp>>     \* editing inside a macro token is not modelled
                  ELSE IF e.panic THEN Reject("panic")
                  ELSE IF e.wedged THEN Reject("interface wedged (loads never settled)")
                  ELSE LET next == {s \in Outcomes(e.k, e) : Proj(s, lens) = e.obs} IN
                       IF next = {} THEN Reject("state after the key is not what the keymap predicts")
                       ELSE cands' = next /\ hp' = (IF e.held /\ e.hooks # <<>> THEN hp + 1 ELSE hp) /\ UNCHANGED <<sid, skip, bad, lens>>
             [] e.ev = "wild" ->
                  IF e.panic \/ e.wedged
                  THEN bad' = Append(bad, [sid |-> e.sid, line |-> l, why |-> IF e.panic THEN "panic" ELSE "interface wedged (loads never settled)"]) /\ UNCHANGED <<sid, skip, cands, lens, hp>>
                  ELSE UNCHANGED <<sid, skip, bad, cands, lens, hp>>
             [] OTHER -> UNCHANGED <<sid, skip, bad, cands, lens, hp>>
Spec == Init /\ [][Step]_vars
Done == (l = Len(Log) + 1) => PrintT("VERDICT " \o ToJson([consumed |-> l - 1, bad |-> bad]))
=============================================================================
