-------------------------------- MODULE T_UI --------------------------------
(* Trace specification for C07: a session is a start page and a sequence of key tokens pressed on a real
   ui.State; after each key (all bytes of a token delivered, background loads settled) the observable
   projection and the hook calls are logged.  The spec carries the SET of reference states compatible
   with everything seen so far (the keymap is deterministic except for one undocumented corner) and
   rejects a key when no allowed outcome matches the observation.  `wild` lines (arbitrary bytes on
   arbitrary pages) are only required not to crash or wedge.                                         *)
EXTENDS UI, Json
Log == ndJsonDeserialize("trace.ndjson")
VARIABLES l, sid, skip, bad, cands, lens
vars == <<l, sid, skip, bad, cands, lens>>

HookTarget(h) == CASE h.k = "link"  -> LinkTarget[h.item][h.n]
                   [] h.k = "media" -> "media_" \o h.item
                   [] h.k = "pic"   -> "pic_" \o h.item
                   [] h.k = "banner" -> "banner_" \o h.item
                   [] OTHER -> "none"
HookMatches(h, calls) == IF h.k = "none" THEN calls = <<>>
                         ELSE Len(calls) = 1 /\ calls[1].target = HookTarget(h)
Outcomes(k, e) == UNION {{IF r.hook.k # "none" THEN HookExit(r.st) ELSE r.st : r \in {x \in KeyNext(s, k) : HookMatches(x.hook, e.hooks)}} : s \in cands}

Init == l = 1 /\ sid = 0 /\ skip = FALSE /\ bad = <<>> /\ cands = {} /\ lens = <<>>
Reject(why) == /\ bad' = Append(bad, [sid |-> sid, line |-> l, why |-> why]) /\ skip' = TRUE /\ UNCHANGED <<sid, cands, lens>>
Step == /\ l <= Len(Log) /\ l' = l + 1
        /\ LET e == Log[l] IN
           CASE e.ev = "reset" -> sid' = e.sid /\ skip' = FALSE /\ cands' = {Init0(e.start)} /\ lens' = e.lens /\ UNCHANGED bad
             [] e.ev = "key" /\ ~skip ->
                  IF e.k = "bs" /\ \E s \in cands : s.buf # <<>> /\ s.buf[Len(s.buf)] \in CmdToks
                  THEN skip' = TRUE /\ UNCHANGED <<sid, bad, cands, lens>>     \* editing inside a macro token is not modelled
                  ELSE IF e.panic THEN Reject("panic")
                  ELSE IF e.wedged THEN Reject("interface wedged (loads never settled)")
                  ELSE LET next == {s \in Outcomes(e.k, e) : Proj(s, lens) = e.obs} IN
                       IF next = {} THEN Reject("state after the key is not what the keymap predicts")
                       ELSE cands' = next /\ UNCHANGED <<sid, skip, bad, lens>>
             [] e.ev = "wild" ->
                  IF e.panic \/ e.wedged
                  THEN bad' = Append(bad, [sid |-> e.sid, line |-> l, why |-> IF e.panic THEN "panic" ELSE "interface wedged (loads never settled)"]) /\ UNCHANGED <<sid, skip, cands, lens>>
                  ELSE UNCHANGED <<sid, skip, bad, cands, lens>>
             [] OTHER -> UNCHANGED <<sid, skip, bad, cands, lens>>
Spec == Init /\ [][Step]_vars
Done == (l = Len(Log) + 1) => PrintT("VERDICT " \o ToJson([consumed |-> l - 1, bad |-> bad]))
=============================================================================
