------------------------------ MODULE T_Config ------------------------------
(* Trace specification for C19: every `config` line is one real start-up with a generated configuration
   file (class vector `vec`): whether start-up rejected it (and printed a diagnostic), and for accepted
   ones how the first fetch, render, page load, external open and feed went in that process.
   `colours` lines report the exhaustive sweep of the colour converter.                              *)
EXTENDS Config, Json
Log == ndJsonDeserialize("trace.ndjson")
VARIABLES l, bad
vars == <<l, bad>>
Why(e) == IF MustReject(e.vec) /\ e.decision # "rejected" THEN "invalid configuration accepted"
          ELSE IF MustAccept(e.vec) /\ e.decision # "accepted" THEN "valid configuration (or defaults) rejected"
          ELSE IF e.decision = "rejected" /\ ~e.diagnostic THEN "rejected without a diagnostic"
          ELSE IF e.decision = "accepted" /\ ~ColoursOK(e.colours) THEN "accepted configuration yields malformed colour codes"
          ELSE IF e.decision = "accepted" /\ e.timeout_ms < 0 THEN "accepted configuration yields a negative timeout"
          ELSE IF ~RunOK(e.vec, e.decision, e.diagnostic, e.steps, ColoursOK(e.colours), e.timeout_ms) THEN "accepted configuration crashed later"
          ELSE ""
Init == l = 1 /\ bad = <<>>
Step == /\ l <= Len(Log) /\ l' = l + 1
        /\ LET e == Log[l] IN
           CASE e.ev = "config" /\ Why(e) # "" -> bad' = Append(bad, [line |-> l, why |-> Why(e)])
             [] e.ev = "colours" /\ (e.mismatches # 0 \/ e.accepted_malformed # 0) ->
                  bad' = Append(bad, [line |-> l, why |-> "colour conversion wrong"])
             [] OTHER -> UNCHANGED bad
Spec == Init /\ [][Step]_vars
Done == (l = Len(Log) + 1) => PrintT("VERDICT " \o ToJson([consumed |-> l - 1, bad |-> bad]))
=============================================================================
