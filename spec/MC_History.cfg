SPECIFICATION Spec
CONSTANTS
  MaxItems = 9
  GenDepth = 0
INVARIANTS TypeOK CurrentDefined
PROPERTIES AddDiscardsOnlyForward MovesKeepEntries Saturate
CONSTRAINT Bound
VIEW View
CHECK_DEADLOCK FALSE
