SPECIFICATION Spec
CONSTANTS
  Variant = "fixed"
  GenOn = TRUE
CONSTRAINT GenEmit
CHECK_DEADLOCK FALSE
