------------------------------- MODULE T_Hook -------------------------------
(* Trace specification for C20: every `hook` line is one external open performed through the real UI
   (o / p / b / number + Enter) with the configured hook, the link and media type the item offers, and
   what the hook program - this harness binary re-executed - actually received.                      *)
EXTENDS Hook, TLC, Json
Log == ndJsonDeserialize("trace.ndjson")
VARIABLES l, bad
vars == <<l, bad>>
Why(e) == IF e.panic THEN "panic"
          ELSE IF Len(e.calls) # 1 THEN "hook not run exactly once"
          ELSE IF e.calls[1].argv # Subst(e.hook, e.link, e.mt) THEN "argv is not the configured command with placeholders replaced argument-wise"
          ELSE IF ~HookOK(e.hook, e.link, e.mt, e.calls[1].argv, e.calls[1].stdin) THEN "standard input rule violated"
          ELSE ""
Init == l = 1 /\ bad = <<>>
Step == /\ l <= Len(Log) /\ l' = l + 1
        /\ LET e == Log[l] IN
           IF e.ev = "hook" /\ Why(e) # "" THEN bad' = Append(bad, [line |-> l, why |-> Why(e)]) ELSE UNCHANGED bad
Spec == Init /\ [][Step]_vars
Done == (l = Len(Log) + 1) => PrintT("VERDICT " \o ToJson([consumed |-> l - 1, bad |-> bad]))
=============================================================================
