-------------------------------- MODULE Hook --------------------------------
(* The media hook (ui.openExternally, C20): the configured command is a list of strings; the first is
   the program and is never touched; every further argument that is EXACTLY one of the documented
   placeholders is replaced - by the link, the full media type, its supertype or its subtype - and no
   other argument changes; if no argument is exactly %url the link is passed on standard input.       *)
EXTENDS Integers, Sequences, FiniteSets

Subst(hook, link, mt) ==
    [i \in 1..Len(hook) |->
        IF i = 1 THEN hook[1]
        ELSE CASE hook[i] = "%url"       -> link
               [] hook[i] = "%mimetype"  -> mt.essence
               [] hook[i] = "%supertype" -> mt.supertype
               [] hook[i] = "%subtype"   -> mt.subtype
               [] OTHER                  -> hook[i]]
UsesUrl(hook) == \E i \in 2..Len(hook) : hook[i] = "%url"

(* one observed invocation: argv as received by the program, what arrived on its standard input *)
HookOK(hook, link, mt, argv, stdin) ==
    /\ argv = Subst(hook, link, mt)
    /\ stdin = IF UsesUrl(hook) THEN "" ELSE link

(* openExternally as coded, with the ways it could go wrong as variants *)
SubstM(variant, hook, link, mt) ==
    CASE variant = "ok" -> Subst(hook, link, mt)
      [] variant = "program_too" ->
           [i \in 1..Len(hook) |-> IF hook[i] = "%url" THEN link ELSE Subst(hook, link, mt)[i]]
      [] variant = "reexpand" ->     \* substituted text is looked at again
           LET once == Subst(hook, link, mt) IN
           [i \in 1..Len(hook) |-> IF i > 1 /\ once[i] = "%mimetype" /\ hook[i] # "%mimetype" THEN mt.essence ELSE once[i]]
=============================================================================
