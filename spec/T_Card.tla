------------------------------- MODULE T_Card -------------------------------
(* Trace specification: every `card` line is one object built by the real constructors of pub from a field
   vector and rendered in full and as a preview, cut into lines of words by the driver; accepted iff both
   equal the composition transcribed in Card.tla.                                                     *)
EXTENDS Card, Json
Log == ndJsonDeserialize("trace.ndjson")
VARIABLES l, bad
vars == <<l, bad>>
String(e) == CASE e.what = "post" -> PostString(e.f) [] e.what = "actor" -> ActorString(e.f) [] OTHER -> ActString(e.f)
Preview(e) == CASE e.what = "post" -> PostPreview(e.f) [] e.what = "actor" -> ActorPreview(e.f) [] OTHER -> ActPreview(e.f)
Why(e) == IF e.panic THEN <<"building or drawing it panicked">>
          ELSE IF ~e.built THEN <<"the object was refused outright">>
          ELSE (IF e.string # String(e) THEN <<"the full card differs from the composition">> ELSE <<>>)
            \o (IF e.preview # Preview(e) THEN <<"the preview differs from the composition">> ELSE <<>>)
Init == l = 1 /\ bad = <<>>
Step == /\ l <= Len(Log) /\ l' = l + 1
        /\ LET e == Log[l] IN
           IF e.ev = "card" /\ Why(e) # <<>>
           THEN bad' = Append(bad, [line |-> l, why |-> Why(e)])
           ELSE UNCHANGED bad
Spec == Init /\ [][Step]_vars
Done == (l = Len(Log) + 1) => PrintT("VERDICT " \o ToJson([consumed |-> l - 1, bad |-> bad]))
=============================================================================
