------------------------------- MODULE Request -------------------------------
(* The wire format of everything servitor sends (C04), as an acceptor over the raw bytes the
   simulator received on one connection.

      "GET" SP request-target SP "HTTP/1.0" CRLF
      "Host: " authority CRLF   and   "Accept: " accept CRLF     (each exactly once, nothing else)
      CRLF
      (no further byte)

   request-target: visible ASCII only (33..126); split at the first '?' its percent-decoded path and
   query must equal the percent-decoded path and query of the URL being fetched.                     *)
EXTENDS Integers, Sequences, FiniteSets, SequencesExt

GET_     == <<71, 69, 84>>
HTTP10   == <<72, 84, 84, 80, 47, 49, 46, 48>>
HOST_    == <<72, 111, 115, 116>>
ACCEPT_  == <<65, 99, 99, 101, 112, 116>>

(* split at CRLF; a bare CR or LF stays inside its line (and is then rejected as a control byte) *)
CrlfLines(bs) ==
    LET st == FoldLeft(LAMBDA acc, b :
                 IF b = 10 /\ acc.cur # <<>> /\ Last(acc.cur) = 13
                 THEN [lines |-> Append(acc.lines, Front(acc.cur)), cur |-> <<>>]
                 ELSE [lines |-> acc.lines, cur |-> Append(acc.cur, b)],
               [lines |-> <<>>, cur |-> <<>>], bs)
    IN [lines |-> st.lines, rest |-> st.cur]

SplitAt(bs, sep) ==    \* sequence of fields separated by single `sep` bytes
    FoldLeft(LAMBDA acc, b : IF b = sep THEN Append(acc, <<>>) ELSE [acc EXCEPT ![Len(acc)] = Append(@, b)],
             << <<>> >>, bs)
IndexOf(bs, x) == IF \E i \in 1..Len(bs) : bs[i] = x THEN CHOOSE i \in 1..Len(bs) : bs[i] = x /\ \A j \in 1..(i - 1) : bs[j] # x ELSE 0

Visible(bs) == \A i \in 1..Len(bs) : bs[i] \in 33..126
NoCtl(bs)   == \A i \in 1..Len(bs) : bs[i] \in 32..126

IsHex(b) == b \in 48..57 \/ b \in 65..70 \/ b \in 97..102
HexVal(b) == IF b \in 48..57 THEN b - 48 ELSE IF b \in 65..70 THEN b - 55 ELSE b - 87
(* percent-decoding; a malformed escape yields <<-1>> *)
PctDecode(bs) ==
    LET st == FoldLeft(LAMBDA acc, b :
                 IF acc.bad THEN acc
                 ELSE IF acc.pend = 0 THEN (IF b = 37 THEN [acc EXCEPT !.pend = 1] ELSE [acc EXCEPT !.out = Append(@, b)])
                 ELSE IF ~IsHex(b) THEN [acc EXCEPT !.bad = TRUE]
                 ELSE IF acc.pend = 1 THEN [acc EXCEPT !.pend = 2, !.hi = HexVal(b)]
                 ELSE [acc EXCEPT !.pend = 0, !.out = Append(@, acc.hi * 16 + HexVal(b))],
               [out |-> <<>>, pend |-> 0, hi |-> 0, bad |-> FALSE], bs)
    IN IF st.bad \/ st.pend # 0 THEN <<-1>> ELSE st.out

TargetOK(target, path, query) ==
    /\ target # <<>> /\ Visible(target)
    /\ LET q == IndexOf(target, 63)
           tp == IF q = 0 THEN target ELSE SubSeq(target, 1, q - 1)
           tq == IF q = 0 THEN <<>> ELSE SubSeq(target, q + 1, Len(target))
       IN /\ PctDecode(tp) = (IF path = <<>> THEN <<47>> ELSE path)
          /\ PctDecode(tq) = query

HeaderOK(line, name, value) ==
    /\ Len(line) = Len(name) + 2 + Len(value)
    /\ SubSeq(line, 1, Len(name)) = name /\ line[Len(name) + 1] = 58 /\ line[Len(name) + 2] = 32
    /\ SubSeq(line, Len(name) + 3, Len(line)) = value /\ NoCtl(value)

(* raw: the bytes received; host/accept: expected header values; path/query: decoded bytes of the URL *)
RequestOK(raw, host, accept, path, query) ==
    LET p == CrlfLines(raw) ls == p.lines IN
    /\ p.rest = <<>>                                  \* nothing after the blank line, no partial line
    /\ Len(ls) = 4 /\ ls[4] = <<>>                   \* request line, two headers, blank line
    /\ LET toks == SplitAt(ls[1], 32) IN
         /\ Len(toks) = 3 /\ toks[1] = GET_ /\ toks[3] = HTTP10
         /\ TargetOK(toks[2], path, query)
    /\ \/ HeaderOK(ls[2], HOST_, host) /\ HeaderOK(ls[3], ACCEPT_, accept)
       \/ HeaderOK(ls[3], HOST_, host) /\ HeaderOK(ls[2], ACCEPT_, accept)
=============================================================================
