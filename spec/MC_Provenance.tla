--------------------------- MODULE MC_Provenance ---------------------------
(* Every world over a small URL set x every way of handing an object to FetchUnknown: C02's invariant.
   The state space is the set of (world, input, source) triples; there are no transitions.            *)
EXTENDS Integers, Sequences, FiniteSets, TLC, Json
CONSTANTS UrlSet, GenOn, GenN
HostTab(u) == CASE u = "A/x" -> "A" [] u = "A/y" -> "A" [] u = "B/x" -> "B" [] u = "B/y" -> "B" [] u = "M/x" -> "M" [] u = "M/y" -> "M"
              [] u = "A_p/x" -> "A_p"    \* host A's name on another port: another host (url.Host includes the port)
              [] OTHER -> "none"
P == INSTANCE Provenance
H == [u \in UrlSet |-> HostTab(u)]
Hosts == {HostTab(u) : u \in UrlSet}
VARIABLES W, inp, src, k

Resp == {[t |-> "err"]} \cup {[t |-> "redir", to |-> u] : u \in UrlSet}
        \cup {[t |-> "doc", id |-> i, stub |-> s] : i \in UrlSet \cup {"none"}, s \in BOOLEAN}
Inputs == {[t |-> "ref", u |-> u] : u \in UrlSet}
          \cup {[t |-> "emb", id |-> i, stub |-> s, stamp |-> h] : i \in UrlSet \cup {"none"}, s \in BOOLEAN, h \in Hosts}
Init == /\ W \in [UrlSet -> Resp] /\ inp \in Inputs /\ src \in UrlSet \cup {"none"}
        /\ P!InputOK(H, inp, src) /\ k = 0
Next == UNCHANGED <<W, inp, src, k>>
Spec == Init /\ [][Next]_<<W, inp, src, k>>

Res == P!FetchUnknownM(W, H, inp, src)
Prov == P!ProvOK(H, Res)
(* a stub with an id is never accepted as it stands: what is returned was fetched *)
NoStubAsIs == (Res.ok /\ inp.t = "emb" /\ inp.stub /\ inp.id # "none") =>
                 \E u \in UrlSet : W[u].t = "doc" /\ Res.stamp = HostTab(u) /\ Res.id = W[u].id
(* generation: GenN random (world, input, source) triples drawn by TLC from the space above *)
GenInit == /\ k \in 1..GenN
           /\ W = [u \in UrlSet |-> RandomElement(Resp)] /\ inp = RandomElement(Inputs)
           /\ src = RandomElement(UrlSet \cup {"none"})
GenSpec == GenInit /\ [][UNCHANGED <<W, inp, src, k>>]_<<W, inp, src, k>>
GenEmit == (GenOn /\ P!InputOK(H, inp, src)) => PrintT("GEN " \o ToJson([world |-> W, inp |-> inp, src |-> src]))
=============================================================================
