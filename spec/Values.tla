------------------------------- MODULE Values -------------------------------
(* The typed accessors of object.Object (C17) as a decision table: accessor x class of the JSON value
   under the key  ->  set of allowed outcomes.  Outcomes: "value" (a value is returned - it must then be
   the faithful one, compared as canonical strings), "absent", "error" (wrong type / unparseable).      *)
EXTENDS Integers, Sequences, FiniteSets, TLC

(* "GetMarkup": the class is that of the value under the media type key (the content itself is a plain string) *)
Accessors == {"GetAny", "GetString", "GetNumber", "GetObject", "GetList", "GetTime", "GetURL", "GetMediaType", "GetMarkup",
              "GetMarkupNoBody"}    \* GetMarkup where there is no body (missing, null, empty once sanitised): "absent", whatever the media type key holds
StrClasses == {"str_empty", "str_plain", "str_format", "str_ctl_only", "str_ctl_mixed", "str_tab_nl", "str_time", "str_url", "str_url_bad", "str_mime", "str_mime_bad",
               "str_mime_junk"}   \* a media type followed by something that is neither a parameter nor a token character (",text/html", " x"):
                                  \* it may be refused or read leniently - then as the media type it starts with
                                  \* str_format: invisible characters that are no control characters (joiners, soft hyphen, direction marks,
                                  \* line and paragraph separators, private use, variation selectors): part of the value, kept
NumClasses == {"num_zero", "num_small", "num_2_53", "num_big_in_range", "num_neg", "num_frac", "num_ge_2_64", "num_huge"}
Classes == {"missing", "null", "bool", "arr_empty", "arr_one", "arr_many", "obj"} \cup StrClasses \cup NumClasses

Absentish(c) == c \in {"missing", "null"}
(* strings that are empty once sanitised count as absent *)
EmptyString(c) == c \in {"str_empty", "str_ctl_only"}

Allowed(acc, c) ==
    IF acc = "GetMarkupNoBody" THEN {"absent"}
    ELSE IF acc = "GetMarkup" THEN
        \* no media type (absent, null, empty once sanitised): the default applies; a media type of the wrong JSON type or
        \* one that cannot be parsed is an error, never silently the default; a well-formed one is rendered or unsupported
        IF Absentish(c) \/ EmptyString(c) THEN {"value"}
        ELSE IF c \notin StrClasses \/ c \in {"str_mime_bad", "str_plain", "str_format", "str_time"} THEN {"error"}
        ELSE {"value", "error"}
    ELSE IF Absentish(c) THEN {"absent"}
    ELSE CASE acc = "GetAny"    -> {"value"}
           [] acc = "GetString" -> IF c \notin StrClasses THEN {"error"} ELSE IF EmptyString(c) THEN {"absent"} ELSE {"value"}
           [] acc = "GetNumber" -> IF c \notin NumClasses THEN {"error"}
                                   ELSE IF c \in {"num_zero", "num_small", "num_2_53", "num_big_in_range"} THEN {"value"} ELSE {"error"}
           [] acc = "GetObject" -> IF c = "obj" THEN {"value"} ELSE {"error"}
           [] acc = "GetList"   -> IF c = "arr_empty" THEN {"value", "absent"} ELSE {"value"}      \* single values are promoted
           [] acc = "GetTime"   -> IF c \notin StrClasses THEN {"error"} ELSE IF EmptyString(c) THEN {"absent"}
                                   ELSE IF c = "str_time" THEN {"value"} ELSE {"error"}
           [] acc = "GetURL"    -> IF c \notin StrClasses THEN {"error"} ELSE IF EmptyString(c) THEN {"absent"}
                                   ELSE IF c = "str_url_bad" THEN {"error"}
                                   ELSE IF c \in {"str_url", "str_plain", "str_mime"} THEN {"value"} ELSE {"value", "error"}
           [] acc = "GetMediaType" -> IF c \notin StrClasses THEN {"error"} ELSE IF EmptyString(c) THEN {"absent"}
                                   ELSE IF c = "str_mime" THEN {"value"}
                                   ELSE IF c \in {"str_mime_bad", "str_plain", "str_format", "str_time"} THEN {"error"} ELSE {"value", "error"}

(* one observation: outcome, and for "value" the canonical rendering of what was returned and of what the
   JSON holds (exact decimal expansion of the IEEE double for numbers, sanitised text for strings, ...) *)
(* reading never changes what is read: the object is the same document after every call (`mutated` in the trace) *)
ObsOK(acc, c, outcome, got, want) ==
    /\ outcome \in Allowed(acc, c)
    /\ outcome = "value" => got = want
(* a value handed out belongs to its holder: whatever the holder does to it, a later read of the same JSON gives the
   faithful value again (`again` in the trace) *)
AgainOK(outcome, again, want) == outcome = "value" => again = want

TableTotal == \A a \in Accessors, c \in Classes : Allowed(a, c) # {} /\ Allowed(a, c) \subseteq {"value", "absent", "error"}
=============================================================================
