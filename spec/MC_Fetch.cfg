SPECIFICATION Spec
CONSTANTS
  Variant = "fixed"
  Urls = {"h1/a", "h1/b", "h2/c"}
  Budgets = {0, 1, 2}
  Caps = {1, 2}
  MaxFetches = 3
  GenDepth = 0
  RespSet = "small"
INVARIANTS HistoryIndependent RequestsBounded AcceptOnlyGood CacheWithinCapacity
CONSTRAINT Bound
VIEW View
CHECK_DEADLOCK FALSE
