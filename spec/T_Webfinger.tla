----------------------------- MODULE T_Webfinger -----------------------------
(* Every `webfinger` line: the real client.ResolveWebfinger against a simulator-served JRD document whose
   links realise the given classes; accepted iff the outcome equals ResolveM.                        *)
EXTENDS Webfinger, Json
Log == ndJsonDeserialize("trace.ndjson")
VARIABLES l, bad
vars == <<l, bad>>
Init == l = 1 /\ bad = <<>>
Step == /\ l <= Len(Log) /\ l' = l + 1
        /\ LET e == Log[l] IN
           IF e.ev = "webfinger" /\ (e.panic \/ e.res # ResolveM(e.links))
           THEN bad' = Append(bad, [line |-> l, why |-> IF e.panic THEN "panic" ELSE "outcome differs from the transcribed resolution"])
           ELSE UNCHANGED bad
Spec == Init /\ [][Step]_vars
Done == (l = Len(Log) + 1) => PrintT("VERDICT " \o ToJson([consumed |-> l - 1, bad |-> bad]))
=============================================================================
