------------------------------ MODULE T_Faults ------------------------------
(* Trace specification for C05: every line is one fetch by the real code against a peer that
   misbehaved at (hop, byte offset / stage) in the way `kind` says.  Accepted iff
     - the fetch returned (no hang, no panic),
     - a document was returned only if the peer delivered the whole response (`whole`),
     - it took at most 3 timeouts per hop up to and including the faulty one,
     - and what the fault left behind does not spoil a later fetch of the same address (`again`: the peer
       has recovered; the answer is a document or an error, never neither).                          *)
EXTENDS Integers, Sequences, TLC, Json
Log == ndJsonDeserialize("trace.ndjson")
VARIABLES l, bad
vars == <<l, bad>>
Why(e) == IF e.outcome = "panic" THEN "panic"
          ELSE IF e.outcome = "timeout" THEN "fetch did not return"
          ELSE IF e.outcome = "nodoc" THEN "fetch returned neither a document nor an error"
          ELSE IF e.outcome = "ok" /\ ~e.whole THEN "document accepted from a truncated response"
          ELSE IF e.again \in {"nodoc", "panic"} THEN "after the fault, asking for the same address again gave neither a document nor an error"
          ELSE IF e.ticks > 3 * (e.hop + 1) THEN "error returned too late"
          ELSE ""
Init == l = 1 /\ bad = <<>>
Step == /\ l <= Len(Log) /\ l' = l + 1
        /\ LET e == Log[l] IN
           IF e.ev = "fault" /\ Why(e) # "" THEN bad' = Append(bad, [line |-> l, why |-> Why(e)])
           ELSE UNCHANGED bad
Spec == Init /\ [][Step]_vars
Done == (l = Len(Log) + 1) => PrintT("VERDICT " \o ToJson([consumed |-> l - 1, bad |-> bad]))
=============================================================================
