------------------------------ MODULE T_Faults ------------------------------
(* Trace specification for C05: every line is one fetch by the real code against a peer that
   misbehaved at (hop, byte offset / stage) in the way `kind` says.  Accepted iff
     - the fetch returned (no hang, no panic),
     - a document was returned only if the peer delivered the whole response (`whole`),
     - it took at most 3 timeouts per hop up to and including the faulty one.                    *)
EXTENDS Integers, Sequences, TLC, Json
Log == ndJsonDeserialize("trace.ndjson")
VARIABLES l, bad
vars == <<l, bad>>
Why(e) == IF e.outcome = "panic" THEN "panic"
          ELSE IF e.outcome = "timeout" THEN "fetch did not return"
          ELSE IF e.outcome = "ok" /\ ~e.whole THEN "document accepted from a truncated response"
          ELSE IF e.ticks > 3 * (e.hop + 1) THEN "error returned too late"
          ELSE ""
Init == l = 1 /\ bad = <<>>
Step == /\ l <= Len(Log) /\ l' = l + 1
        /\ LET e == Log[l] IN
           IF e.ev = "fault" /\ Why(e) # "" THEN bad' = Append(bad, [line |-> l, why |-> Why(e)])
           ELSE UNCHANGED bad
Spec == Init /\ [][Step]_vars
Done == (l = Len(Log) + 1) => PrintT("VERDICT " \o ToJson([consumed |-> l - 1, bad |-> bad]))
=============================================================================
