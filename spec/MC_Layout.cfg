SPECIFICATION Spec
CONSTANTS
  MaxLen = 6
  MaxW = 3
  MaxH = 2
  Fn = "wrap"
INVARIANTS WrapHolds DumbWrapHolds PadHolds IndentHolds SnipHolds SnipAfterWrap ApplyHolds
CHECK_DEADLOCK FALSE
