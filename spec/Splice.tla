------------------------------- MODULE Splice -------------------------------
(* Feeds: the newest-first k-way merge of several paged sources (splicer/splicer.go, C11).

   A source is a sequence of items [s |-> source index, k |-> position, ts |-> timestamp]; ts = 0 stands
   for "no timestamp" (the zero time, older than everything).  A splicer value is, per source, the items
   already buffered and the index of the next item its page would deliver; it is immutable: Harvest works
   on a clone and returns the clone as the continuation.

   Merge(sources) is the reference: repeatedly take, among the current heads, the one with the latest
   timestamp, ties going to the source listed first.                                                *)
EXTENDS Integers, Sequences, FiniteSets, SequencesExt

Heads(srcs, pos) == {i \in 1..Len(srcs) : pos[i] <= Len(srcs[i])}
Best(srcs, pos) ==       \* the source whose head is chosen
    CHOOSE i \in Heads(srcs, pos) :
        \A j \in Heads(srcs, pos) :
            \/ srcs[i][pos[i]].ts > srcs[j][pos[j]].ts
            \/ (srcs[i][pos[i]].ts = srcs[j][pos[j]].ts /\ i <= j)
RECURSIVE MergeFrom(_, _)
MergeFrom(srcs, pos) ==
    IF Heads(srcs, pos) = {} THEN <<>>
    ELSE LET i == Best(srcs, pos) IN <<srcs[i][pos[i]]>> \o MergeFrom(srcs, [pos EXCEPT ![i] = @ + 1])
Merge(srcs) == MergeFrom(srcs, [i \in 1..Len(srcs) |-> 1])

(* what C11 demands of one call made on the continuation standing at position `at` of the merged
   sequence: the next q items after skipping `start`, and an end that is clean *)
CallOK(srcs, at, q, start, items, done) ==
    LET M == Merge(srcs)
        from == at + start
        want == SubSeq(M, from + 1, IF from + q <= Len(M) THEN from + q ELSE Len(M))
    IN /\ items = (IF from >= Len(M) THEN <<>> ELSE want)
       /\ done => from + Len(items) >= Len(M)                 \* the feed ends only when everything was delivered
       /\ (q > 0 /\ items = <<>>) => done                      \* and it does end then

\* ------------------------------------------------------------------ Splicer.Harvest as coded
(* sp[i] = [buf |-> buffered items, nxt |-> index of the next item of source i, live |-> page # nil] *)
Fresh(srcs, failed) == [i \in 1..Len(srcs) |-> [buf |-> <<>>, nxt |-> 1, live |-> i \notin failed]]
Replenish(srcs, sp, amount) ==
    [i \in 1..Len(sp) |->
        IF Len(sp[i].buf) < amount /\ sp[i].live
        THEN LET take == amount - Len(sp[i].buf)
                 upto == IF sp[i].nxt + take - 1 <= Len(srcs[i]) THEN sp[i].nxt + take - 1 ELSE Len(srcs[i])
             IN [buf |-> sp[i].buf \o SubSeq(srcs[i], sp[i].nxt, upto), nxt |-> upto + 1, live |-> upto < Len(srcs[i])]
        ELSE sp[i]]
BufHeads(sp) == {i \in 1..Len(sp) : sp[i].buf # <<>>}
Pick(sp) == CHOOSE i \in BufHeads(sp) :
                \A j \in BufHeads(sp) : \/ Head(sp[i].buf).ts > Head(sp[j].buf).ts
                                        \/ (Head(sp[i].buf).ts = Head(sp[j].buf).ts /\ i <= j)
RECURSIVE Pop(_, _, _)
Pop(sp, n, acc) ==      \* -> [out, sp, dry]
    IF n = 0 THEN [out |-> acc, sp |-> sp, dry |-> FALSE]
    ELSE IF BufHeads(sp) = {} THEN [out |-> acc, sp |-> sp, dry |-> TRUE]
    ELSE LET i == Pick(sp) IN Pop([sp EXCEPT ![i].buf = Tail(@)], n - 1, Append(acc, Head(sp[i].buf)))
HarvestM(srcs, sp, q, start) ==
    LET r == Replenish(srcs, sp, q + start)
        skipped == Pop(r, start, <<>>)
        taken == Pop(skipped.sp, q, <<>>)
    IN [items |-> taken.out, sp |-> taken.sp, done |-> taken.dry]
=============================================================================
