SPECIFICATION Spec
CONSTANTS
  Keys = {"k1", "k2"}
  Loads = {"l1", "l2"}
  Variant = "fixed"
  Hook = "l1"
INVARIANTS MutateOnlyByHolder OneWriter EmitOnlyByHolder OneFrameAtATime
PROPERTY KeysFinish
CHECK_DEADLOCK FALSE
