SPECIFICATION Spec
CONSTANTS
  Hops = 2
  Variant = "absolute"
  TicksPerT = 3
  BodyUnits = 20
INVARIANTS NoPartialDoc ElapsedBounded NeverUnwatched
PROPERTY EventuallyReturns
CHECK_DEADLOCK FALSE
