SPECIFICATION Spec
CONSTANTS
  UrlSet = {"A/x", "B/x", "M/x"}
  GenOn = FALSE
  GenN = 0
INVARIANTS Prov NoStubAsIs
CHECK_DEADLOCK FALSE
