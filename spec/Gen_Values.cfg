SPECIFICATION Spec
CONSTRAINT GenEmit
CHECK_DEADLOCK FALSE
