------------------------------ MODULE T_Paging ------------------------------
(* Trace specification for C10: every `paging` line is one complete paging session of the real
   pub.Collection (layout realised as embedded JSON or served page by page by the simulator): the
   sequence of Harvest calls with what each delivered.  Accepted iff HistoryOK of Paging.tla.       *)
EXTENDS Paging, TLC, Json
Log == ndJsonDeserialize("trace.ndjson")
VARIABLES l, bad
vars == <<l, bad>>
Why(e) == IF e.panic THEN "panic"
          ELSE IF \E i \in 1..Len(e.calls) : e.calls[i].tail > 0 THEN "items delivered after an error item"
          ELSE IF \E i \in 1..Len(e.calls) : e.calls[i].visits > VisitBound(e.calls[i].n) THEN "too many pages visited for one request"
          ELSE IF ~HistoryOK(e.pages, e.calls) THEN "paging history is not a prefix of the true sequence with a justified end"
          ELSE ""
Init == l = 1 /\ bad = <<>>
Step == /\ l <= Len(Log) /\ l' = l + 1
        /\ LET e == Log[l] IN
           IF e.ev = "paging" /\ Why(e) # "" THEN bad' = Append(bad, [line |-> l, why |-> Why(e)])
           ELSE UNCHANGED bad
Spec == Init /\ [][Step]_vars
Done == (l = Len(Log) + 1) => PrintT("VERDICT " \o ToJson([consumed |-> l - 1, bad |-> bad]))
=============================================================================
