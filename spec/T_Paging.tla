------------------------------ MODULE T_Paging ------------------------------
(* Trace specification for C10: every `paging` line is one complete paging session of the real
   pub.Collection (layout realised as embedded JSON or served page by page by the simulator): the
   sequence of Harvest calls with what each delivered.  Accepted iff HistoryOK of Paging.tla.       *)
EXTENDS Paging, TLC, Json
Log == ndJsonDeserialize("trace.ndjson")
VARIABLES l, bad, drift
vars == <<l, bad, drift>>
Why(e) == IF e.panic THEN "panic"
          ELSE IF \E i \in 1..Len(e.calls) : e.calls[i].tail > 0 THEN "items delivered after an error item"
          ELSE IF \E i \in 1..Len(e.calls) : e.calls[i].visits > VisitBound(e.calls[i].n) THEN "too many pages visited for one request"
          ELSE IF ~HistoryOK(e.pages, e.calls) THEN "paging history is not a prefix of the true sequence with a justified end"
          ELSE ""
(* the implementation-shaped model run over the same request sizes: exact items, error and end per call *)
RECURSIVE ModelCalls(_, _, _, _)
ModelCalls(pages, cont, sizes, i) ==
    IF i > Len(sizes) \/ cont = <<>> THEN <<>>
    ELSE LET r == HarvestM("fixed", pages, cont[1], cont[2], sizes[i], 0) IN
         <<[items |-> r.items, err |-> r.err, done |-> r.cont = <<>>]>> \o ModelCalls(pages, r.cont, sizes, i + 1)
Agrees(e) == LET m == ModelCalls(e.pages, <<1, 0>>, [i \in 1..Len(e.calls) |-> e.calls[i].n], 1) IN
             /\ Len(m) = Len(e.calls)
             /\ \A i \in 1..Len(m) : m[i].items = e.calls[i].items /\ m[i].err = e.calls[i].err /\ m[i].done = e.calls[i].done
Init == l = 1 /\ bad = <<>> /\ drift = <<>>
Step == /\ l <= Len(Log) /\ l' = l + 1
        /\ LET e == Log[l] IN
           /\ IF e.ev = "paging" /\ Why(e) # "" THEN bad' = Append(bad, [line |-> l, why |-> Why(e)])
              ELSE UNCHANGED bad
           /\ IF e.ev = "paging" /\ ~e.panic /\ "start0" \notin DOMAIN e /\ ~Agrees(e) THEN drift' = Append(drift, l) ELSE UNCHANGED drift
Spec == Init /\ [][Step]_vars
Done == (l = Len(Log) + 1) => PrintT("VERDICT " \o ToJson([consumed |-> l - 1, bad |-> bad, drift |-> drift]))
=============================================================================
