SPECIFICATION Spec
CONSTANTS
  MaxArgs = 3
  Variant = "ok"
  GenOn = FALSE
INVARIANT Holds
CHECK_DEADLOCK FALSE
