SPECIFICATION Spec
CONSTANTS
  MaxBlock = 14
  MaxH = 12
  Pinned = FALSE
INVARIANTS CenterHolds FrameHolds
CHECK_DEADLOCK FALSE
