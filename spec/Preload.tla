------------------------------- MODULE Preload -------------------------------
(* The preloading discipline of a page (ui.loadSurroundings, feed extents), which the keymap reference
   UI.tla relies on:  "because the UI preloads Context >= 1 items beyond the cursor on every move, once
   background loads have settled the next item is loaded iff it exists".

   A page shows a thread around position 0 with Up ancestors and Down descendants in truth; lo/hi are the
   exclusive bounds of what is loaded (feed.Contains), cur the cursor.  Keys move the cursor only onto
   loaded positions and then call loadSurroundings, which starts at most one loader per direction when the
   position Context away from the cursor is not loaded and something is left to load; a loader, when it
   completes, adds up to Context items.  Keys and completions interleave in any order.                 *)
EXTENDS Integers, TLC
CONSTANTS Up, Down, Context
VARIABLES cur, lo, hi, loadingUp, loadingDown
vars == <<cur, lo, hi, loadingUp, loadingDown>>

Contains(p) == p > lo /\ p < hi
LeftUp == lo > -Up - 1            \* the frontier is not exhausted (an ancestor not yet loaded exists)
LeftDown == hi < Down + 1
Min(a, b) == IF a < b THEN a ELSE b

(* loadSurroundings, evaluated on the state after a move (primed variables) *)
Trigger == /\ loadingUp' = (loadingUp \/ (~Contains(cur' - Context) /\ LeftUp))
           /\ loadingDown' = (loadingDown \/ (~Contains(cur' + Context) /\ LeftDown))

Init == /\ cur = 0 /\ lo = -1 /\ hi = 1
        /\ loadingUp = (Up > 0) /\ loadingDown = (Down > 0)            \* switchTo calls loadSurroundings
MoveUp   == cur' = (IF Contains(cur - 1) THEN cur - 1 ELSE cur) /\ UNCHANGED <<lo, hi>> /\ Trigger
MoveDown == cur' = (IF Contains(cur + 1) THEN cur + 1 ELSE cur) /\ UNCHANGED <<lo, hi>> /\ Trigger
Center   == cur' = 0 /\ UNCHANGED <<lo, hi, loadingUp, loadingDown>>   \* 'g' does not call loadSurroundings
DoneUp   == loadingUp /\ lo' = lo - Min(Context, lo + Up + 1) /\ loadingUp' = FALSE /\ UNCHANGED <<cur, hi, loadingDown>>
DoneDown == loadingDown /\ hi' = hi + Min(Context, Down + 1 - hi) /\ loadingDown' = FALSE /\ UNCHANGED <<cur, lo, loadingUp>>
Next == MoveUp \/ MoveDown \/ Center \/ DoneUp \/ DoneDown
Spec == Init /\ [][Next]_vars /\ WF_vars(DoneUp) /\ WF_vars(DoneDown)

Quiescent == ~loadingUp /\ ~loadingDown
(* the assumption of UI.tla: at quiescence a neighbour is loaded iff it exists *)
NeighbourLoadedIffExists ==
    Quiescent => /\ (Contains(cur - 1) <=> cur - 1 >= -Up)
                 /\ (Contains(cur + 1) <=> cur + 1 <= Down)
(* stronger: everything within Context of the cursor that exists is loaded *)
WindowLoaded == Quiescent => \A d \in 1..Context : /\ (cur - d >= -Up => Contains(cur - d))
                                                   /\ (cur + d <= Down => Contains(cur + d))
CursorOnItem == Contains(cur)
NeverBeyondTruth == lo >= -Up - 1 /\ hi <= Down + 1
Settles == <>[]Quiescent \/ []<>Quiescent
=============================================================================
