--------------------------------- MODULE UI ---------------------------------
(* The keymap of servitor's UI (ui/ui.go Update, switchTo, loadSurroundings; feed, history) as a
   reference over an abstract content world, under quiescence ("once background loads have settled").

   World (module constants below): items with a kind, posts with a parent and replies, actors with an
   outbox, activities with actor and target, creators/recipients, numbered link targets, media.
   Because the UI preloads Context >= 1 items beyond the cursor on every move, "the next item is loaded"
   is equivalent to "the next item exists" once loads have settled; the reference is therefore defined
   on threads, not on loaded extents.

   State:  [mode, buf, pages, at]   pages[i] = [t |-> "item"|"list", c |-> centre, l |-> list, cur |-> position]
   KeyNext(st, k) is the SET of allowed outcomes [st, hook] of pressing key token k: a singleton for the
   documented keymap, two elements for the undocumented corner "a non-digit key while selecting"
   (cancel only / cancel and act).                                                                    *)
EXTENDS Integers, Sequences, FiniteSets, TLC

\* ------------------------------------------------------------------ the content worlds
(* World "w1": alice (outbox a1 = Create n1, a2 = Announce n3; one bio link; picture), bob (empty outbox),
               thread n1 <- n2 <- n3 (n3 by alice and bob, with media), nf a reply that fails to load.
   World "w2": carol (outbox of two pages, c1 c2 | c3 c4 c5 = Create m1..m5, so that the first load of the outbox opened
               by its address straddles the page boundary; picture and banner), grp (a group),
               m1 addressed to grp with one link, m2 with four ancestors q1 <- q2 <- q3 <- q4 (more than one
               preload step) and media, m3 whose parent fails to load (bp), m4 with the reply m5.
   "fo" is the failure page shown for an address that cannot be fetched.                              *)
CONSTANT World
Items == IF World = "w1" THEN {"alice", "bob", "a1", "a2", "n1", "n2", "n3", "nf", "fo"}
         ELSE {"carol", "grp", "c1", "c2", "c3", "c4", "c5", "m1", "m2", "m3", "m4", "m5", "q1", "q2", "q3", "q4", "bp", "fo"}
Kind == [i \in Items |-> CASE i \in {"alice", "bob", "carol", "grp"} -> "actor"
                            [] i \in {"a1", "a2", "c1", "c2", "c3", "c4", "c5"} -> "activity"
                            [] i \in {"n1", "n2", "n3", "m1", "m2", "m3", "m4", "m5", "q1", "q2", "q3", "q4"} -> "post"
                            [] OTHER -> "failure"]
Parent == [i \in Items |-> CASE i = "n2" -> "n1" [] i = "n3" -> "n2"
                              [] i = "m2" -> "q1" [] i = "q1" -> "q2" [] i = "q2" -> "q3" [] i = "q3" -> "q4"
                              [] i = "m3" -> "bp" [] i = "m5" -> "m4" [] OTHER -> "none"]
Kids == [i \in Items |-> CASE i = "alice" -> <<"a1", "a2">> [] i = "n1" -> <<"n2", "nf">> [] i = "n2" -> <<"n3">>
                            [] i = "carol" -> <<"c1", "c2", "c3", "c4", "c5">> [] i = "m4" -> <<"m5">> [] OTHER -> <<>>]
Creators == [i \in Items |-> CASE i \in {"n1", "n2"} -> <<"alice">> [] i = "n3" -> <<"alice", "bob">>
                                [] i \in {"m1", "m2", "m3", "m4", "m5", "q1", "q2", "q3", "q4"} -> <<"carol">> [] OTHER -> <<>>]
Recipients == [i \in Items |-> IF i = "m1" THEN <<"grp">> ELSE <<>>]
ActorOf == [i \in Items |-> IF Kind[i] # "activity" THEN "none" ELSE IF World = "w1" THEN "alice" ELSE "carol"]
TargetOf == [i \in Items |-> CASE i = "a1" -> "n1" [] i = "a2" -> "n3" [] i = "c1" -> "m1" [] i = "c2" -> "m2"
                                [] i = "c3" -> "m3" [] i = "c4" -> "m4" [] i = "c5" -> "m5" [] OTHER -> "none"]
NLinks == [i \in Items |-> CASE i = "n1" -> 4 []     \* (two links in its text and two attachments: 3 and 4 are the attachments)
                                 i = "alice" -> 1 [] i = "m1" -> 1 [] i = "q4" -> 12 [] OTHER -> 0]
(* what opening link k of item i internally yields *)
(* q4 (w2) carries twelve links so that two-digit and zero-padded numbers name something: 8 -> q1, 10 -> q3 *)
LinkTarget == [i \in Items |-> [k \in 1..12 |-> CASE i = "n1" /\ k = 1 -> "n3" [] i = "alice" /\ k = 1 -> "n3"
                                                   [] i = "m1" /\ k = 1 -> "q4"
                                                   [] i = "q4" /\ k = 8 -> "q1" [] i = "q4" /\ k = 10 -> "q3" [] OTHER -> "fo"]]
HasMedia == [i \in Items |-> i \in {"n3", "m2"}]
HasPic == [i \in Items |-> i \in {"alice", "carol"}]
HasBanner == [i \in Items |-> i = "carol"]
FeedF == IF World = "w1" THEN <<"a1", "a2">> ELSE <<"c1", "c2", "c3", "c4", "c5">>
OpenActor == IF World = "w1" THEN "alice" ELSE "carol"     \* what ":open <actor address>" / start_a shows
OpenPost  == IF World = "w1" THEN "n2" ELSE "m2"

Base(i) == IF Kind[i] = "activity" THEN TargetOf[i] ELSE i
RECURSIVE Anc(_)
Anc(i) == IF Kind[i] # "post" \/ Parent[i] = "none" THEN <<>> ELSE <<Parent[i]>> \o Anc(Parent[i])
Above(c) == Anc(Base(c))           \* nearest first
Below(c) == Kids[Base(c)]

\* ------------------------------------------------------------------ pages
ItemPage(c) == [t |-> "item", c |-> c, l |-> <<>>, cur |-> 0]
ListPage(l) == [t |-> "list", c |-> "none", l |-> l, cur |-> 1]
Lo(p) == IF p.t = "item" THEN -Len(Above(p.c)) ELSE 1
Hi(p) == IF p.t = "item" THEN Len(Below(p.c)) ELSE Len(p.l)
At(p, pos) == IF p.t = "list" THEN p.l[pos]
              ELSE IF pos = 0 THEN p.c ELSE IF pos < 0 THEN Above(p.c)[-pos] ELSE Below(p.c)[pos]
Empty(p) == p.t = "list" /\ p.l = <<>>
Cur(st) == st.pages[st.at]
Highlighted(st) == IF Empty(Cur(st)) THEN "none" ELSE At(Cur(st), Cur(st).cur)

Push(st, p) == [st EXCEPT !.pages = Append(SubSeq(st.pages, 1, st.at), p), !.at = st.at + 1]
OpenItems(st, s) == IF Len(s) = 0 THEN st ELSE IF Len(s) = 1 THEN Push(st, ItemPage(s[1])) ELSE Push(st, ListPage(s))
SetCur(st, n) == [st EXCEPT !.pages[st.at].cur = n]
Normal(st) == [st EXCEPT !.mode = "normal", !.buf = <<>>]
NoHook == [k |-> "none", item |-> "none", n |-> 0]
Out(st) == [st |-> st, hook |-> NoHook]
OutHook(st, kind, item, n) == [st |-> st, hook |-> [k |-> kind, item |-> item, n |-> n]]

\* ------------------------------------------------------------------ keys
Digits == {"0", "1", "2", "3", "4", "5", "6", "7", "8", "9"}
CmdToks == {"open_a", "open_p", "open_c", "open_bad", "open_empty", "feed_f", "feed_u", "bad_cmd"}   \* open_empty: "open " - the command with an empty argument
CharKeys == {"j", "k", "g", "h", "l", "sp", "c", "r", "a", "o", "p", "b", "x", "hi", "dot"} \cup Digits \cup {"colon"}   \* "x": an unbound ASCII key, "hi": a byte >= 0x80
Keys == CharKeys \cup {"enter", "esc", "bs"} \cup CmdToks

DigitVal(d) == CASE d = "0" -> 0 [] d = "1" -> 1 [] d = "2" -> 2 [] d = "3" -> 3 [] d = "4" -> 4 [] d = "5" -> 5
                   [] d = "6" -> 6 [] d = "7" -> 7 [] d = "8" -> 8 [] OTHER -> 9
RECURSIVE NumOf(_)
NumOf(b) == IF b = <<>> THEN 0 ELSE LET r == NumOf(SubSeq(b, 1, Len(b) - 1)) * 10 + DigitVal(b[Len(b)]) IN IF r > 1000 THEN 1000 ELSE r

(* keys of normal mode: movement, history, opening pages, media *)
Nav(st, k) ==
    LET h == Highlighted(st) b == IF h = "none" THEN "none" ELSE Base(h) p == Cur(st) IN
    CASE k = "j" -> Out(IF ~Empty(p) /\ p.cur + 1 <= Hi(p) THEN SetCur(st, p.cur + 1) ELSE st)
      [] k = "k" -> Out(IF ~Empty(p) /\ p.cur - 1 >= Lo(p) THEN SetCur(st, p.cur - 1) ELSE st)
      [] k = "g" -> Out(IF p.t = "item" THEN SetCur(st, 0) ELSE st)
      [] k = "h" -> Out([st EXCEPT !.at = IF st.at > 1 THEN st.at - 1 ELSE st.at])
      [] k = "l" -> Out([st EXCEPT !.at = IF st.at < Len(st.pages) THEN st.at + 1 ELSE st.at])
      [] k = "sp" -> Out(IF h = "none" THEN st ELSE Push(st, ItemPage(h)))
      [] k = "c" -> Out(IF b # "none" /\ Kind[b] = "post" THEN OpenItems(st, Creators[b]) ELSE st)
      [] k = "r" -> Out(IF b # "none" /\ Kind[b] = "post" THEN OpenItems(st, Recipients[b]) ELSE st)
      [] k = "a" -> Out(IF h # "none" /\ Kind[h] = "activity" THEN Push(st, ItemPage(ActorOf[h])) ELSE st)
      [] k = "o" -> IF b # "none" /\ Kind[b] = "post" /\ HasMedia[b] THEN OutHook([st EXCEPT !.mode = "opening"], "media", b, 0) ELSE Out(st)
      [] k = "p" -> IF h # "none" /\ Kind[h] = "actor" /\ HasPic[h] THEN OutHook([st EXCEPT !.mode = "opening"], "pic", h, 0) ELSE Out(st)
      [] k = "b" -> IF h # "none" /\ Kind[h] = "actor" /\ HasBanner[h] THEN OutHook([st EXCEPT !.mode = "opening"], "banner", h, 0) ELSE Out(st)
      [] OTHER -> Out(st)

RunCommand(st) ==
    LET n == Normal(st) IN
    IF Len(st.buf) = 1 THEN
        CASE st.buf[1] = "open_a"     -> Push(n, ItemPage(OpenActor))
          [] st.buf[1] = "open_p"     -> Push(n, ItemPage(OpenPost))
          [] st.buf[1] = "open_c"     -> Push(n, ListPage(Kids[OpenActor]))    \* a collection opened by its address: a page listing its items
          [] st.buf[1] \in {"open_bad", "open_empty"} -> Push(n, ItemPage("fo"))
          [] st.buf[1] = "feed_f"     -> Push(n, ListPage(FeedF))
          [] OTHER                    -> n          \* unknown feed, unknown command, no space: a problem frame at most
    ELSE IF Len(st.buf) > 1 /\ st.buf[1] \in {"open_a", "open_p", "open_c", "open_bad", "open_empty"} THEN Push(n, ItemPage("fo"))   \* text after the URL
    ELSE n

(* the dispatcher, in the order of ui.Update; keys are ignored while loading, which a settled UI never is *)
KeyNext(st, k) ==
    IF k = "esc" THEN {Out(Normal(st))}
    ELSE IF k = "bs" /\ st.mode = "opening" THEN {Out(st)}   \* the footer holds the (long) address being opened: one character less of it
    ELSE IF k = "bs" THEN
        {Out(IF st.buf = <<>> THEN Normal(st)
             ELSE LET b == SubSeq(st.buf, 1, Len(st.buf) - 1) IN
                  [st EXCEPT !.buf = b, !.mode = IF b = <<>> /\ st.mode = "selection" THEN "normal" ELSE st.mode])}
    ELSE IF st.mode = "command" THEN
        {Out(IF k = "enter" THEN RunCommand(st) ELSE [st EXCEPT !.buf = Append(st.buf, k)])}
    ELSE IF k = "colon" THEN {Out([st EXCEPT !.mode = "command", !.buf = <<>>])}
    ELSE IF k \in Digits THEN
        {Out([st EXCEPT !.mode = "selection", !.buf = IF st.mode = "selection" THEN Append(st.buf, k) ELSE <<k>>])}
    ELSE IF st.mode = "selection" /\ k \in {"enter", "dot"} THEN
        LET n == NumOf(st.buf) h == Highlighted(st)
            present == h # "none" /\ n >= 1 /\ n <= NLinks[Base(h)] IN
        IF ~present THEN {Out(Normal(st))}
        ELSE IF k = "dot" THEN {Out(Push(Normal(st), ItemPage(LinkTarget[Base(h)][n])))}
        ELSE {OutHook([st EXCEPT !.mode = "opening"], "link", Base(h), n)}
    ELSE IF st.mode = "selection" THEN
        {Nav(Normal(st), k), Out(Normal(st))}          \* undocumented: cancel and act / cancel only
    ELSE IF k \in CmdToks THEN {Out(st)}                \* (macro tokens only make sense after ':')
    ELSE {Nav(st, k)}                                   \* normal and opening: keys act as in normal mode

(* the hook process ending while still "opening" returns to normal.  A key that starts a hook leaves the
   mode "opening" until then; further keys may arrive meanwhile (they act as in normal mode), and when
   the hook ends after the user has moved on (Esc, a command, a selection) nothing changes.  T_UI and
   MC_UI take the exit as a step of its own in sessions whose hooks are held back ("hookexit"). *)
HookExit(st) == IF st.mode = "opening" THEN Normal(st) ELSE st

Init0(o) == [mode |-> "normal", buf |-> <<>>, pages |-> <<ItemPage(IF o = "a" THEN OpenActor ELSE OpenPost)>>, at |-> 1]

\* ------------------------------------------------------------------ well-formedness of the reference
StateOK(st) ==
    /\ st.mode \in {"normal", "command", "selection", "opening"} /\ st.at \in 1..Len(st.pages)
    /\ \A i \in 1..Len(st.pages) : Empty(st.pages[i]) \/ (st.pages[i].cur >= Lo(st.pages[i]) /\ st.pages[i].cur <= Hi(st.pages[i]))
    /\ (st.mode = "selection" => st.buf # <<>> /\ \A i \in 1..Len(st.buf) : st.buf[i] \in Digits)
    /\ (st.mode = "normal" => st.buf = <<>>)

(* observable projection compared with the real UI after each key has settled *)
RECURSIVE BufLen(_, _)
BufLen(b, lens) == IF b = <<>> THEN 0 ELSE (IF b[1] \in DOMAIN lens THEN lens[b[1]] ELSE 1) + BufLen(Tail(b), lens)
(* lens: number of characters a macro token stands for (command texts contain the server's address) *)
Proj(st, lens) == [mode |-> st.mode, npages |-> Len(st.pages), at |-> st.at,
             hl |-> IF Highlighted(st) = "none" THEN "none" ELSE IF Kind[Highlighted(st)] = "failure" THEN "fail" ELSE Highlighted(st),
             centre |-> IF Cur(st).t = "list" THEN "list" ELSE IF Kind[Cur(st).c] = "failure" THEN "fail" ELSE Cur(st).c,
             pos |-> IF Cur(st).t = "list" THEN Cur(st).cur ELSE Cur(st).cur,
             buflen |-> IF st.mode = "opening" THEN -1 ELSE BufLen(st.buf, lens)]
=============================================================================
