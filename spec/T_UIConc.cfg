SPECIFICATION Spec
CONSTANTS
  World = "w1"
INVARIANT Done
CHECK_DEADLOCK FALSE
