------------------------------ MODULE MC_Fetch ------------------------------
(* Exhaustive exploration of fetch histories: a world is chosen in Init, then any sequence of fetches
   (URL, request kind, budget) runs against one cache of capacity Cap.  C03's invariants compare every
   fetch with the reference Fresh - i.e. the cache must be transparent in every history.            *)
EXTENDS Fetch, TLC, Json
CONSTANTS Variant, Urls, Budgets, Caps, MaxFetches, GenDepth, RespSet
VARIABLES W, cap, cache, last, hist
vars == <<W, cap, cache, last, hist>>

R(status, ct, body, loc) == [status |-> status, ct |-> ct, body |-> body, loc |-> loc]
Plain == { R(200, <<"activity">>, "obj", ""), R(203, <<"jrd">>, "obj", ""), R(200, <<"json">>, "obj", ""),
           R(204, <<"activity">>, "obj", ""), R(103, <<"activity">>, "obj", ""), R(404, <<"html">>, "garbage", ""), R(200, <<"html">>, "obj", ""),
           R(200, <<"wild">>, "obj", ""),
           R(200, <<"html", "json">>, "obj", ""),   \* a foreign type declared next to a tolerated one
           R(302, <<>>, "locline", ""),             \* a redirect without Location whose body has a line that looks like one     \* a wildcard media type (*/*, application/*) is not a JSON media type
           R(200, <<>>, "obj", ""), R(200, <<"activity">>, "array", ""), R(0, <<"activity">>, "obj", ""),
           R(302, <<>>, "empty", ""), R(-1, <<>>, "empty", "") }
Small == { R(200, <<"activity">>, "obj", ""), R(203, <<"jrd">>, "obj", ""), R(404, <<"html">>, "garbage", "") }
Redirs == { R(301, <<>>, "empty", t) : t \in Urls \cup {"h1/gone"} }
Resp == (IF RespSet = "full" THEN Plain ELSE Small) \cup Redirs
WithDoc(u, r) == [status |-> r.status, ct |-> r.ct, body |-> r.body, loc |-> r.loc, doc |-> u]

Init == /\ \E w \in [Urls -> Resp] : W = [u \in Urls |-> WithDoc(u, w[u])]
        /\ cap \in Caps /\ cache = <<>> /\ hist = <<>>
        /\ last = [u |-> "none", kind |-> "activity", b |-> 0, res |-> Err, reqs |-> <<>>]
Fetch_(u, kind, b) ==
    LET g == GetM(Variant, W, cap, cache, u, kind, b) IN
    /\ cache' = g.cache
    /\ last' = [u |-> u, kind |-> kind, b |-> b, res |-> g.res, reqs |-> g.reqs]
    /\ hist' = Append(hist, [url |-> u, kind |-> kind, budget |-> b])
    /\ UNCHANGED <<W, cap>>
Next == \E u \in Urls, kind \in Kinds, b \in Budgets : Fetch_(u, kind, b)
Spec == Init /\ [][Next]_vars

Bound == Len(hist) <= MaxFetches
View == <<W, cap, cache, last, Len(hist)>>

(* C03: every fetch of every history equals the cache-free reference, with bounded requests *)
HistoryIndependent == last.u # "none" => last.res = Fresh(W, last.u, last.kind, last.b)
RequestsBounded == last.u # "none" =>
                      /\ Len(last.reqs) <= last.b + 1
                      /\ IsSubseq(last.reqs, Chain(W, last.u, last.b))
AcceptOnlyGood == (last.u # "none" /\ last.res.ok) =>
                      /\ last.res.src \in DOMAIN W /\ Good(W[last.res.src], last.kind)
                      /\ last.res.doc = W[last.res.src].doc
CacheWithinCapacity == Len(cache) <= cap

GenEmit == (Len(hist) = GenDepth) =>
              PrintT("GEN " \o ToJson([world |-> W, cap |-> cap, fetches |-> hist]))
GenBound == Len(hist) <= GenDepth
=============================================================================
