SPECIFICATION Spec
CONSTANTS
  Keys = {"k1", "k2", "k3"}
  Loads = {"l1", "l2"}
  Variant = "fixed"
  Hook = "none"
INVARIANTS MutateOnlyByHolder OneWriter EmitOnlyByHolder OneFrameAtATime NoDeadlock
PROPERTY EveryoneFinishes
CHECK_DEADLOCK FALSE
