------------------------------- MODULE Config -------------------------------
(* Start-up configuration and what later code assumes about it (config/config.go and its consumers;
   C19).  A configuration file is abstracted to a vector of field classes; the lifecycle is
        Parse -> Reject (diagnostic, exit)  |  Accept -> first fetch -> first render -> first page load
                                                        -> first external open -> first feed
   and every consumer has an assumption whose failure is a crash:
        jtp cache      : lru.New needs a size > 0 (else the cache is nil and the first fetch dereferences it)
        ui / splicer   : preload_amount is converted to unsigned sizes: negative => absurd allocation on a feed;
                         every frame walks 2 * preload_amount + 1 positions: an absurd amount freezes the first page
        openExternally : indexes hook[0]
        style          : colour strings are spliced into SGR sequences: must be d;d;d with 0..255
   Variant "pinned": postprocess validates colours only (tree as first received);
           "fixed" : it also rejects a non-positive cache size, a negative or absurd preload amount, a negative
                     timeout and an empty hook.                                                                       *)
EXTENDS Integers, Sequences, FiniteSets, TLC

Hook     == {"absent", "empty", "program_only", "with_args", "wrong_type",
             "blank_program"}   \* a first entry that is empty or white space only: there is an entry, but it names no program
(* "one": the smallest admissible value; "huge": a value near the top of the 64-bit range, which sizes and
   durations computed from it overflow - it may be refused or accepted, but if accepted it must be safe *)
Cache    == {"absent", "negative", "zero", "one", "positive", "huge", "wrong_type"}
Preload  == {"absent", "negative", "zero", "positive", "huge", "wrong_type"}
Timeout  == {"absent", "negative", "zero", "positive", "huge", "fractional", "wrong_type",
             "special"}         \* nan, inf: TOML floats that are no numbers of seconds at all
Colour   == {"absent", "valid", "empty", "short", "no_hash", "non_hex", "signed", "wrong_type"}
Shape    == {"ok", "unknown_key", "unknown_table", "syntax_error", "missing_file", "empty_file",
             "no_location"}     \* neither HOME nor XDG_CONFIG_HOME is set: there is nowhere to look, the defaults apply
Vectors  == [hook : Hook, cache : Cache, preload : Preload, timeout : Timeout, colour : Colour, shape : Shape]

(* a missing or empty file carries no keys at all *)
Effective(v) == IF v.shape \in {"missing_file", "empty_file", "no_location"}
                THEN [hook |-> "absent", cache |-> "absent", preload |-> "absent", timeout |-> "absent", colour |-> "absent", shape |-> v.shape]
                ELSE v

MustReject(v) ==
    LET e == Effective(v) IN
    \/ e.shape \in {"unknown_key", "unknown_table", "syntax_error"}
    \/ e.colour \in {"empty", "short", "no_hash", "non_hex", "signed", "wrong_type"}
    \/ "wrong_type" \in {e.hook, e.cache, e.preload, e.timeout}
Dangerous(v) ==
    LET e == Effective(v) IN e.hook = "empty" \/ e.cache \in {"negative", "zero"} \/ e.preload \in {"negative", "huge"}
(* may be refused or accepted - but if accepted, safe: a fraction of a second is a sensible timeout for a start-up that reads
   floats; nan and inf are not, and neither is a program name that is blank *)
Unsettled(v) == LET e == Effective(v) IN "huge" \in {e.cache, e.preload, e.timeout} \/ e.timeout \in {"fractional", "special"} \/ e.hook = "blank_program"
MustAccept(v) == ~MustReject(v) /\ ~Dangerous(v) /\ Effective(v).timeout # "negative" /\ ~Unsettled(v)

Decision(variant, v) ==
    IF MustReject(v) THEN "rejected"
    ELSE IF variant = "fixed" /\ (Dangerous(v) \/ Effective(v).timeout = "negative") THEN "rejected"
    ELSE "accepted"

Steps == <<"fetch", "render", "load", "open", "feed", "open_untyped", "feed_empty">>   \* the last two: links whose media type says nothing usable; a feed that lists nothing
Crashes(v, step) ==
    LET e == Effective(v) IN
    CASE step = "fetch" -> e.cache \in {"negative", "zero"}
      [] step = "open"  -> e.hook = "empty"
      [] step = "feed"  -> e.preload = "negative"
      [] step = "load"  -> e.preload = "huge"       \* every frame walks 2 * preload + 1 positions: the interface freezes
      [] OTHER          -> FALSE

(* C19 on the model *)
AcceptedIsSafe(variant, v) == Decision(variant, v) = "accepted" => \A i \in 1..Len(Steps) : ~Crashes(v, Steps[i])

(* C19 on one observed run: decision taken by the real start-up, and how each later step went *)
ColoursOK(cs) == \A i \in 1..Len(cs) : Len(cs[i]) = 3 /\ \A j \in 1..3 : cs[i][j] \in 0..255
RunOK(v, decision, diagnostic, steps, coloursOK, timeoutMs) ==
    /\ MustReject(v) => decision = "rejected"
    /\ MustAccept(v) => decision = "accepted"
    /\ decision = "rejected" => diagnostic
    /\ decision = "accepted" => /\ coloursOK
                                /\ timeoutMs >= 0          \* the timeout the fetcher will use, however the file said it
                                /\ \A i \in 1..Len(steps) : steps[i].outcome \in {"ok", "error"}
=============================================================================
