------------------------------ MODULE T_Request ------------------------------
(* Trace specification for C04: every `conn` line is one connection the simulator accepted while the
   real code was fetching; it must be TLS (never plaintext) and carry exactly one well-formed request
   for the URL in question (Request.tla).  A connection also must not identify
   the client below HTTP (resumed TLS session, client certificate).  `noconn` lines assert that a fetch which must not touch the
   network (non-https URL) produced no connection at all.                                          *)
EXTENDS Request, TLC, Json
Log == ndJsonDeserialize("trace.ndjson")
VARIABLES l, bad
vars == <<l, bad>>
(* host_alt: a second admissible Host value (the authority without its default port) *)
(* noreq: a connection on which nothing at all was sent (a handshake the client gave up) is no request *)
Why(e) == IF "noreq_ok" \in DOMAIN e /\ e.noreq_ok /\ e.raw = <<>> /\ ~e.plain THEN ""
          ELSE IF e.plain THEN "plaintext connection"
          ELSE IF e.resumed THEN "TLS session resumed: the client presented an identifier a server gave it earlier"
          ELSE IF e.clientcert THEN "client certificate presented"
          ELSE IF ~ \/ RequestOK(e.raw, e.host, e.accept, e.path, e.query)
                    \/ "host_alt" \in DOMAIN e /\ RequestOK(e.raw, e.host_alt, e.accept, e.path, e.query)
               THEN "malformed or tampered request"
          ELSE ""
Init == l = 1 /\ bad = <<>>
Step == /\ l <= Len(Log) /\ l' = l + 1
        /\ LET e == Log[l] IN
           IF e.ev = "conn" THEN
              bad' = IF Why(e) = "" THEN bad ELSE Append(bad, [line |-> l, why |-> Why(e)])
           ELSE IF e.ev = "noconn" THEN
              bad' = IF e.conns = 0 THEN bad ELSE Append(bad, [line |-> l, why |-> "connection made for a URL that must not be dialled"])
           ELSE UNCHANGED bad
Spec == Init /\ [][Step]_vars
Done == (l = Len(Log) + 1) => PrintT("VERDICT " \o ToJson([consumed |-> l - 1, bad |-> bad]))
=============================================================================
