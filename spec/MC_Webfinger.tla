----------------------------- MODULE MC_Webfinger -----------------------------
EXTENDS Webfinger, Json
CONSTANTS MaxLen, GenOn
VARIABLE links
Entry == [kind : {"obj", "nonobj"}, rel : {"self", "other", "absent", "bad"}, type : {"activity", "ld", "other", "absent", "bad"}, href : {"ok", "absent", "bad"}]
Relevant == {e \in Entry : e.kind = "obj" \/ (e.rel = "self" /\ e.type = "activity" /\ e.href = "ok")}   \* one representative non-object
Init == links \in UNION {[1..n -> Relevant] : n \in 0..MaxLen}
Next == UNCHANGED links
Spec == Init /\ [][Next]_links
Finds == FindsFirstSelf(links)
GenEmit == GenOn => PrintT("GEN " \o ToJson(links))
=============================================================================
