SPECIFICATION Spec
CONSTANTS
  Variant = "fixed"
  Urls = {"h1/d/a", "h1/d/b", "h2/c", "h2/c?p=2"}
  Budgets = {0, 1, 2, 3}
  Caps = {1, 2, 3}
  MaxFetches = 5
  GenDepth = 5
  RespSet = "full"
CONSTRAINTS GenBound GenEmit
CHECK_DEADLOCK FALSE
