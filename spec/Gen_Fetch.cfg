SPECIFICATION Spec
CONSTANTS
  Variant = "fixed"
  Urls = {"h1/a", "h1/b", "h2/c", "h2/d"}
  Budgets = {0, 1, 2, 3}
  Caps = {1, 2, 3}
  MaxFetches = 5
  GenDepth = 5
  RespSet = "full"
CONSTRAINTS GenBound GenEmit
CHECK_DEADLOCK FALSE
