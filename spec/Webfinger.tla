------------------------------ MODULE Webfinger ------------------------------
(* client.ResolveWebfinger (client/client.go) transcribed: which link of a JRD document is taken as the
   actor's address, and which malformed entries abort the resolution.  Not one of the listed properties;
   part of the growing specification.

   A JRD link entry is [kind, rel, type, href]:
      kind \in {"obj", "nonobj"}                          an object, or something else in the list
      rel  \in {"self", "other", "absent", "bad"}         bad = not a string
      type \in {"activity", "ld", "other", "absent", "bad"}   media type of the entry (bad = unparseable)
      href \in {"ok", "absent", "bad"}
   Outcome: [t |-> "ok", i |-> index of the entry whose href is returned] | [t |-> "err", i |-> 0]      *)
EXTENDS Integers, Sequences, FiniteSets, TLC

Ok(i) == [t |-> "ok", i |-> i]
Err == [t |-> "err", i |-> 0]

RECURSIVE Scan(_, _)
Scan(links, k) ==
    IF k > Len(links) THEN Err                                  \* actor not found in webfinger listing
    ELSE LET e == links[k] IN
         IF e.kind = "nonobj" THEN Err                          \* unrecognized type in the list
         ELSE IF e.rel \in {"absent", "bad"} THEN Err           \* rel must be a string (even on unrelated entries)
         ELSE IF e.rel # "self" THEN Scan(links, k + 1)
         ELSE IF e.type = "absent" THEN Scan(links, k + 1)
         ELSE IF e.type = "bad" THEN Err
         ELSE IF e.type = "other" THEN Scan(links, k + 1)
         ELSE IF e.href # "ok" THEN Err
         ELSE Ok(k)
(* a document without a links key behaves like one with an empty list: nothing found *)
ResolveM(links) == Scan(links, 1)

(* what one would want when every entry is well-formed: the first self link of an ActivityPub type *)
WellFormed(links) == \A i \in 1..Len(links) : links[i].kind = "obj" /\ links[i].rel \in {"self", "other"} /\ links[i].type # "bad" /\ links[i].href = "ok"
FirstSelf(links) == IF \E i \in 1..Len(links) : links[i].rel = "self" /\ links[i].type \in {"activity", "ld"}
                    THEN Ok(CHOOSE i \in 1..Len(links) : /\ links[i].rel = "self" /\ links[i].type \in {"activity", "ld"}
                                                           /\ \A j \in 1..(i - 1) : ~(links[j].rel = "self" /\ links[j].type \in {"activity", "ld"}))
                    ELSE Err
FindsFirstSelf(links) == WellFormed(links) => Scan(links, 1) = FirstSelf(links)
=============================================================================
