------------------------------- MODULE T_Fetch -------------------------------
(* Trace specification for C03 (and the request bound of C04/C05): a session starts with the world
   the simulator served (reset line); every later line is one fetch performed by the real jtp.Get /
   client.FetchURL with its result and the URLs the simulator saw requested, in order.
   A fetch is accepted iff FetchOK of Fetch.tla holds - result equal to the cache-free reference
   Fresh, at most budget+1 requests, one per hop in redirect order.                               *)
EXTENDS Fetch, TLC, Json
Log == ndJsonDeserialize("trace.ndjson")
VARIABLES l, sid, skip, bad, W
vars == <<l, sid, skip, bad, W>>

Init == l = 1 /\ sid = 0 /\ skip = FALSE /\ bad = <<>> /\ W = <<>>
Why(e) == IF e.panic THEN "panic"
          ELSE IF Len(e.reqs) > e.budget + 1 THEN "too many requests"
          ELSE IF ~IsSubseq(e.reqs, Chain(W, e.url, e.budget)) THEN "requests are not the hops of the redirect chain"
          ELSE IF e.res.ok /\ ~Fresh(W, e.url, e.kind, e.budget).ok THEN "document accepted where the reference demands an error"
          ELSE IF ~e.res.ok /\ Fresh(W, e.url, e.kind, e.budget).ok THEN "error where the reference yields a document"
          ELSE "wrong document or source"
Step == /\ l <= Len(Log) /\ l' = l + 1
        /\ LET e == Log[l] IN
           CASE e.ev = "reset" -> sid' = e.sid /\ skip' = FALSE /\ W' = e.world /\ UNCHANGED bad
             [] e.ev # "reset" /\ (skip \/ e.ev # "fetch") -> UNCHANGED <<sid, skip, bad, W>>
             [] e.ev = "fetch" /\ ~skip ->
                  IF ~e.panic /\ FetchOK(W, e.url, e.kind, e.budget, e.res, e.reqs)
                  THEN UNCHANGED <<sid, skip, bad, W>>
                  ELSE /\ bad' = Append(bad, [sid |-> sid, line |-> l, why |-> Why(e)])
                       /\ skip' = TRUE /\ UNCHANGED <<sid, W>>
Spec == Init /\ [][Step]_vars
Done == (l = Len(Log) + 1) => PrintT("VERDICT " \o ToJson([consumed |-> l - 1, bad |-> bad]))
=============================================================================
