------------------------------- MODULE T_Fetch -------------------------------
(* Trace specification for C03 (and the request bound of C04/C05): a session starts with the world
   the simulator served (reset line); every later line is one fetch performed by the real jtp.Get /
   client.FetchURL with its result and the URLs the simulator saw requested, in order.
   A fetch is accepted iff FetchOK of Fetch.tla holds - result equal to the cache-free reference
   Fresh, at most budget+1 requests, one per hop in redirect order.                               *)
EXTENDS Fetch, TLC, Json
Log == ndJsonDeserialize("trace.ndjson")
VARIABLES l, sid, skip, bad, W, cache, cap, drift
vars == <<l, sid, skip, bad, W, cache, cap, drift>>

Init == l = 1 /\ sid = 0 /\ skip = FALSE /\ bad = <<>> /\ W = <<>> /\ cache = <<>> /\ cap = 1 /\ drift = <<>>
Why(e) == IF e.panic THEN "panic"
          ELSE IF Len(e.reqs) > e.budget + 1 THEN "too many requests"
          ELSE IF ~IsSubseq(e.reqs, Chain(W, e.url, e.budget)) THEN "requests are not the hops of the redirect chain"
          ELSE IF e.res.ok /\ ~Fresh(W, e.url, e.kind, e.budget).ok THEN "document accepted where the reference demands an error"
          ELSE IF ~e.res.ok /\ Fresh(W, e.url, e.kind, e.budget).ok THEN "error where the reference yields a document"
          ELSE IF e.res.ok /\ e.srcfrag # SrcFrag(W, e.url, e.frag) THEN "reported source carries a fragment that is not its own"
          ELSE "wrong document or source"
Step == /\ l <= Len(Log) /\ l' = l + 1
        /\ LET e == Log[l] IN
           CASE e.ev = "reset" -> sid' = e.sid /\ skip' = FALSE /\ W' = e.world /\ cache' = <<>> /\ cap' = e.cap /\ UNCHANGED <<bad, drift>>
             [] e.ev # "reset" /\ (skip \/ e.ev # "fetch") -> UNCHANGED <<sid, skip, bad, W, cache, cap, drift>>
             [] e.ev = "fetch" /\ ~skip ->
                  \* the implementation-shaped model runs alongside: its cache is threaded through the session and
                  \* its prediction (result and exact requests) is compared as drift, never as a verdict
                  LET g == GetF("fixed", W, cap, cache, e.url, e.kind, e.budget, e.frag) IN
                  /\ cache' = g.cache
                  /\ drift' = IF g.res = e.res /\ g.reqs = e.reqs THEN drift ELSE Append(drift, l)
                  /\ IF ~e.panic /\ FetchOK(W, e.url, e.kind, e.budget, e.res, e.reqs) /\ (e.res.ok => e.srcfrag = SrcFrag(W, e.url, e.frag))
                     THEN UNCHANGED <<sid, skip, bad, W, cap>>
                     ELSE /\ bad' = Append(bad, [sid |-> sid, line |-> l, why |-> Why(e)])
                          /\ skip' = TRUE /\ UNCHANGED <<sid, W, cap>>
Spec == Init /\ [][Step]_vars
Done == (l = Len(Log) + 1) => PrintT("VERDICT " \o ToJson([consumed |-> l - 1, bad |-> bad, drift |-> drift]))
=============================================================================
