SPECIFICATION Spec
CONSTANTS
  Variant = "fixed"
  CacheVariant = "ok"
  GenOn = FALSE
  Mode = "docs"
INVARIANTS Numbering CacheTransparent
CHECK_DEADLOCK FALSE
