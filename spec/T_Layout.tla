------------------------------ MODULE T_Layout ------------------------------
(* Trace specification for C13 (and the layout part of C14 / C16): every line of the log is one call
   of a real layout helper with its input and output lexed into cells.  A line is accepted iff the
   pair satisfies the Requirement of Layout.tla for that helper.  There is no state between lines:
   the trace spec walks the log and collects the rejected lines.                                 *)
EXTENDS Layout, TLC, Json
Log == ndJsonDeserialize("trace.ndjson")
VARIABLES l, bad
vars == <<l, bad>>

Clean(t) == \A i \in 1..Len(t) : t[i].k # "bad"

LayoutOK(e) ==
    /\ ~e.panic /\ Clean(e.out)
    /\ CASE e.fn = "Wrap"      -> WrapOK(e.in, e.w, e.out)
         [] e.fn = "DumbWrap"  -> DumbWrapOK(e.in, e.w, e.out)
         [] e.fn = "Pad"       -> PadOK(e.in, e.w, e.out)
         [] e.fn = "Indent"    -> IndentOK(e.in, e.pre, e.first, e.out)
         [] e.fn = "Snip"      -> LinesWithin(e.in, e.w) => SnipOK(e.in, e.w, e.h, e.ell[1], e.out)
         [] e.fn = "SetLength" -> SetLengthOK(e.in, e.w, e.ell[1], e.out)
         [] e.fn = "Apply"     -> ApplyOK(e.in, e.pre[1].c, e.out)

Accept(e) == CASE e.ev = "layout"      -> LayoutOK(e)
               [] e.ev = "center"      -> ~e.panic /\ CenterOK(e.pre, e.cen, e.suf, e.h, e.out)
               [] e.ev = "replacelast" -> ~e.panic /\ ReplaceLastOK(e.orig, e.repl, e.out)
               [] OTHER                -> TRUE

Init == l = 1 /\ bad = <<>>
Step == /\ l <= Len(Log) /\ l' = l + 1
        /\ bad' = IF Accept(Log[l]) THEN bad ELSE Append(bad, [line |-> l])
Spec == Init /\ [][Step]_vars
Done == (l = Len(Log) + 1) => PrintT("VERDICT " \o ToJson([consumed |-> l - 1, bad |-> bad]))
=============================================================================
