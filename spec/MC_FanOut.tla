------------------------------ MODULE MC_FanOut ------------------------------
EXTENDS FanOut
VARIABLE site
Init == site \in DOMAIN Site
Next == UNCHANGED site
Spec == Init /\ [][Next]_site
Holds == Disjoint(Site[site])
=============================================================================
