------------------------------ MODULE MC_Card ------------------------------
(* Every field vector of a family of cards: the design-level expectations of Card.tla are evaluated on each,
   and (Gen_Card.cfg) each is printed for the pub driver, which builds the object, renders it and records the
   lines for T_Card - one implementation test per vector.                                             *)
EXTENDS Card, Json
CONSTANTS Family, GenOn
VARIABLE v

Tm(c, d) == [c |-> c, d |-> d]
Deltas == {-3600, -30, 0, 30, 55, 65, 115, 125, 3595, 3605, 7195, 7205, 86395, 86405, 172795, 172805, 864005, 31536005}
Times == {Tm("absent", 0), Tm("bad", 0)} \cup {Tm("good", d) : d \in Deltas}

Byline(prefix, i) == {[kind |-> "failure", name |-> "absent", handle |-> "absent", id |-> "none"]}
                     \cup [kind : {"person", "group"}, name : {"absent", "bad", prefix \o ToString(i)}, handle : {"absent"}, id : {"none"}]
Bylines(prefix, n) == UNION {{f \in [1..k -> UNION {Byline(prefix, i) : i \in 1..k}] : \A i \in 1..k : f[i] \in Byline(prefix, i)} : k \in 0..n}

AttCls == {"named", "urlonly", "nourl", "badname", "notlink", "untyped"}
Atts == {[c |-> "absent", l |-> <<>>]} \cup {[c |-> "list", l |-> l] : l \in UNION {[1..k -> AttCls] : k \in 0..2}}
Cnt(c, n) == [c |-> c, n |-> n]
Counts == {Cnt(c, 0) : c \in {"absent", "number", "untyped", "nosize", "badsize"}} \cup {Cnt("count", n) : n \in {0, 1, 2, 11}}

PlainPost == [kind |-> "note", title |-> "absent", parent |-> "absent", creators |-> <<>>, recipients |-> <<>>,
              created |-> Tm("good", 125), body |-> "plain", atts |-> [c |-> "absent", l |-> <<>>], comments |-> Cnt("absent", 0)]
Person(n) == [kind |-> "person", name |-> n, handle |-> "absent", id |-> "none"]
RichPost == [PlainPost EXCEPT !.title = "good", !.creators = <<Person("cr1")>>, !.body = "link",
                              !.atts = [c |-> "list", l |-> <<"named", "urlonly">>], !.comments = Cnt("count", 2)]
FailedPost == [PlainPost EXCEPT !.kind = "failure"]

Posts == CASE Family = "post_header" ->
                 {[PlainPost EXCEPT !.kind = k, !.title = t, !.parent = par, !.creators = cs, !.recipients = rs] :
                      k \in {"note", "article"}, t \in {"absent", "bad", "good"}, par \in {"absent", "bad", "good"},
                      cs \in Bylines("cr", 2), rs \in Bylines("rc", 1)}
           [] Family = "post_time" -> {[PlainPost EXCEPT !.created = c, !.title = t] : c \in Times, t \in {"absent", "good"}}
           [] Family = "post_blocks" ->
                 {[PlainPost EXCEPT !.body = b, !.atts = a, !.comments = c] :
                      b \in {"absent", "bad", "plain", "link"}, a \in Atts, c \in Counts}
           [] OTHER -> {}
Actors == [kind : {"person", "group"}, name : {"absent", "bad", "nm"}, handle : {"absent", "bad", "hd"}, id : {"none", "some"},
           joined : {"absent", "bad", "good"}, bio : {"absent", "bad", "plain"}, outbox : Counts]
ByActors == {[kind |-> "absent", name |-> "absent", handle |-> "absent", id |-> "none"],
             [kind |-> "failure", name |-> "absent", handle |-> "absent", id |-> "none"],
             Person("nm"), [kind |-> "group", name |-> "absent", handle |-> "absent", id |-> "none"]}
Activities == [kind : {"Create", "Announce", "Like", "Dislike"}, actor : ByActors, target : {PlainPost, RichPost, FailedPost,
                                                                                            [PlainPost EXCEPT !.body = "absent", !.title = "bad"]}]

Cards == CASE Family \in {"post_header", "post_time", "post_blocks"} -> {[what |-> "post", f |-> p] : p \in Posts}
           [] Family = "actor" -> {[what |-> "actor", f |-> a] : a \in Actors}
           [] Family = "activity" -> {[what |-> "activity", f |-> a] : a \in Activities}

Init == v \in Cards
Next == UNCHANGED v
Spec == Init /\ [][Next]_v

String(c) == CASE c.what = "post" -> PostString(c.f) [] c.what = "actor" -> ActorString(c.f) [] OTHER -> ActString(c.f)
Preview(c) == CASE c.what = "post" -> PostPreview(c.f) [] c.what = "actor" -> ActorPreview(c.f) [] OTHER -> ActPreview(c.f)

ErrorsSaidInv == v.what = "post" => ErrorsSaid(v.f)
DenseInv == Dense(String(v)) /\ (v.what # "post" \/ Len(PostPreview(v.f)) < 4 \/ Dense(Preview(v)))
PreviewInv == v.what = "post" => PreviewShort(v.f) /\ PreviewStartsAlike(v.f)
NeverEmpty == Len(String(v)) >= 1 /\ Len(Preview(v)) >= 1 /\ ~IsBlank(String(v)[Len(String(v))])
GenEmit == GenOn => PrintT("GEN " \o ToJson(v))
=============================================================================
