-------------------------------- MODULE Card --------------------------------
(* What a built post, actor or activity looks like on the screen: the composition of title, byline,
   body, attachments and footer (pub/post.go, pub/actor.go, pub/activity.go, pub/failure.go) out of the
   fields of the object, each field being absent, unreadable or readable.  Not one of the listed
   properties; part of the growing specification (DESIGN section 10).  The case analysis is rich
   (which absence is silent, which one is said, which error is shown and which is swallowed), so it is
   transcribed and bound with one implementation test per field vector.

   A card is a sequence of lines; a line is [ind |-> columns of indentation, toks |-> the words on it];
   a blank line has no words.  Words are abstract: "title", "body", "problem" (any error text in the error
   colour), the literal fixed words of the program ("by", "to", "at", the bullet, "comments enabled" ...),
   the names given to creators and recipients, relative times.                                         *)
EXTENDS Integers, Sequences, TLC

Line(ind, toks) == [ind |-> ind, toks |-> toks]
Blank == Line(0, <<>>)
IsBlank(ln) == ln.toks = <<>>
Min(a, b) == IF a < b THEN a ELSE b

RECURSIVE Flat(_)
Flat(ss) == IF ss = <<>> THEN <<>> ELSE Head(ss) \o Flat(Tail(ss))
MapSeq(F(_, _), s) == [i \in 1..Len(s) |-> F(s[i], i)]

(* ----------------------------- relative times (pub.ago) ----------------------------- *)
SaturatedDays == 106751            \* time.Since saturates at the largest Duration: 9223372036 s, in days (beyond TLC's integers in seconds)
AgoText(d) ==
    IF d < 0 THEN "seconds ago"
    ELSE LET days == d \div 86400 hours == d \div 3600 mins == d \div 60 IN
         IF days > 1 THEN ToString(days) \o " days ago"
         ELSE IF days = 1 THEN "1 day ago"
         ELSE IF hours > 1 THEN ToString(hours) \o " hours ago"
         ELSE IF hours = 1 THEN "1 hour ago"
         ELSE IF mins > 1 THEN ToString(mins) \o " minutes ago"
         ELSE IF mins = 1 THEN "1 minute ago"
         ELSE "seconds ago"
(* a time field: [c |-> "absent" | "bad" | "good", d |-> seconds before now] *)
When(c) == IF c.c = "bad" THEN <<"at", "problem">>
           ELSE <<"•", IF c.c = "absent" THEN ToString(SaturatedDays) \o " days ago" ELSE AgoText(c.d)>>

(* ----------------------------- names of people ----------------------------- *)
(* an actor as it is named in a byline: [kind, name, handle, id]; a failed one has kind "failure".
   name, handle \in {"absent","bad"} or the word itself; id \in {"none","some"} *)
ActorName(a) ==
    IF a.kind = "failure" THEN <<"problem">>
    ELSE LET n == IF a.name = "absent" THEN <<>> ELSE IF a.name = "bad" THEN <<"problem">> ELSE <<a.name>>
             h == IF a.id = "none" \/ a.handle = "absent" THEN <<>>
                  ELSE IF a.handle = "bad" THEN <<"problem">> ELSE <<"@" \o a.handle>>
             k == IF a.kind # "person" THEN <<"(" \o a.kind \o ")">>
                  ELSE IF n \o h = <<>> THEN <<"person">> ELSE <<>>
         IN n \o h \o k
RECURSIVE Names(_)
Names(as) == IF as = <<>> THEN <<>>
             ELSE ActorName(Head(as)) \o (IF Len(as) > 1 THEN <<",">> ELSE <<>>) \o Names(Tail(as))
People(word, as) == IF as = <<>> THEN <<>> ELSE <<word>> \o Names(as)

(* ----------------------------- the post ----------------------------- *)
(* p: [kind, title, parent, creators, recipients, created, body, atts, comments]
     title   \in {"absent","bad","good"}
     parent  \in {"absent","bad","good"}           only its presence matters to the card
     body    \in {"absent","bad","plain","link"}   "link": the body has one numbered link
     atts    [c |-> "absent" | "list", l |-> a sequence over {"named","urlonly","nourl","badname","notlink","untyped"}]
     comments [c |-> "absent" | "number" | "untyped" | "nosize" | "badsize" | "count", n |-> count]                            *)
TitleLines(t) == IF t = "absent" THEN <<>> ELSE <<Line(0, <<IF t = "bad" THEN "problem" ELSE "title">>)>>
KindWord(p) == IF p.parent = "absent" THEN p.kind ELSE "comment"
PostHeader(p) == TitleLines(p.title) \o
                 <<Line(0, <<KindWord(p)>> \o People("by", p.creators) \o People("to", p.recipients) \o When(p.created))>>

Sup(n) == "^" \o ToString(n)
BodyLinks(p) == IF p.body = "link" THEN 1 ELSE 0
BodyPresent(p) == p.body # "absent"
BodyToks(p) == CASE p.body = "bad" -> <<"problem">> [] p.body = "plain" -> <<"body">> [] p.body = "link" -> <<"body", Sup(1)>>

(* the first entry that is no link decides: one that is some other kind of thing makes the whole list unreadable (said);
   one that does not say what it is makes the list count as absent (not said) - the missing "type" of the entry is
   taken for a missing "attachment" of the post: a deviation of the code, modelled as it is *)
Offenders(p) == {i \in 1..Len(p.atts.l) : p.atts.l[i] \in {"notlink", "untyped"}}
FirstOffender(p) == CHOOSE i \in Offenders(p) : \A j \in Offenders(p) : i <= j
AttsBad(p) == p.atts.c # "absent" /\ Offenders(p) # {} /\ p.atts.l[FirstOffender(p)] = "notlink"
AttsSilent(p) == p.atts.c # "absent" /\ Offenders(p) # {} /\ p.atts.l[FirstOffender(p)] = "untyped"
AttsShown(p) == p.atts.c # "absent" /\ ~AttsSilent(p) /\ (AttsBad(p) \/ Len(p.atts.l) > 0)
AttAlt(c, i) == CASE c = "named" -> "att" \o ToString(i) [] c = "urlonly" -> "url" \o ToString(i) [] OTHER -> "problem"
AttLines(p, ind) == IF AttsBad(p) THEN <<Line(ind, <<"problem">>)>>
                    ELSE [i \in 1..Len(p.atts.l) |-> Line(ind, <<"‣", AttAlt(p.atts.l[i], i), Sup(BodyLinks(p) + i)>>)]

Footer(c) == CASE c.c \in {"absent", "untyped"} -> "comments disabled"    \* untyped: the same deviation
               [] c.c \in {"number", "nosize"} -> "comments enabled"
               [] c.c = "badsize" -> "problem"
               [] OTHER -> IF c.n = 1 THEN "1 comment" ELSE ToString(c.n) \o " comments"

PostString(p) == PostHeader(p)
                 \o (IF BodyPresent(p) THEN <<Blank, Line(2, BodyToks(p))>> ELSE <<>>)
                 \o (IF AttsShown(p) THEN <<Blank>> \o AttLines(p, 2) ELSE <<>>)
                 \o <<Blank, Line(0, <<Footer(p.comments)>>)>>

(* ansi.Snip to `h` lines: whitespace-only lines at the end of what is kept are dropped; an ellipsis is
   added when anything was dropped *)
RECURSIVE DropBlankTail(_)
DropBlankTail(ls) == IF ls # <<>> /\ IsBlank(ls[Len(ls)]) THEN DropBlankTail(SubSeq(ls, 1, Len(ls) - 1)) ELSE ls
Snip(ls, h) == LET kept == SubSeq(ls, 1, Min(h, Len(ls)))
                   body == DropBlankTail(kept)
                   more == Len(ls) > h \/ Len(body) < Len(kept)
               IN IF ~more THEN body
                  ELSE IF body = <<>> THEN <<Line(0, <<"…">>)>>
                  ELSE [body EXCEPT ![Len(body)] = Line(@.ind, @.toks \o <<"…">>)]

PostPreview(p) == Snip(PostHeader(p)
                       \o (IF BodyPresent(p) THEN <<Line(0, BodyToks(p))>> ELSE <<>>)
                       \o (IF AttsShown(p) THEN (IF BodyPresent(p) THEN <<Blank>> ELSE <<>>) \o AttLines(p, 0) ELSE <<>>), 4)

(* ----------------------------- the actor ----------------------------- *)
(* a: [kind, name, handle, id, joined, bio, outbox]
     joined \in {"absent","bad","good"}; bio \in {"absent","bad","plain"};
     outbox [c |-> "absent" | "number" | "nosize" | "badsize" | "count", n |-> count]                              *)
ActorHeader(a) == <<Line(0, ActorName(a))>> \o
                  (CASE a.joined = "absent" -> <<>>
                     [] a.joined = "bad" -> <<Line(0, <<"joined", "problem">>)>>
                     [] OTHER -> <<Line(0, <<"joined", "date">>)>>)
ActorFooter(o) == CASE o.c \in {"absent", "number", "badsize", "untyped"} -> <<"problem">>
                    [] o.c = "nosize" -> <<>>
                    [] OTHER -> <<IF o.n = 1 THEN "1 post" ELSE ToString(o.n) \o " posts">>
BioToks(a) == IF a.bio = "bad" THEN <<"problem">> ELSE <<"body">>
ActorString(a) == ActorHeader(a)
                  \o (IF a.bio # "absent" THEN <<Blank, Line(2, BioToks(a))>> ELSE <<>>)
                  \o (IF ActorFooter(a.outbox) # <<>>
                      THEN (IF a.bio # "absent" THEN <<Blank>> ELSE <<>>) \o <<Line(0, ActorFooter(a.outbox))>> ELSE <<>>)
ActorPreview(a) == ActorHeader(a)
                   \o (IF a.bio # "absent" THEN Snip(<<Line(0, BioToks(a))>>, 4) ELSE <<>>)
                   \o (IF ActorFooter(a.outbox) # <<>> THEN <<Line(0, ActorFooter(a.outbox))>> ELSE <<>>)

(* ----------------------------- the activity ----------------------------- *)
(* v: [kind, actor, target]; kind \in {"Create","Announce","Like","Dislike"};
   actor: an actor as above, or of kind "absent" or "failure"; target: a post as above, or of kind "failure"              *)
Verb(k) == CASE k = "Announce" -> "retweeted:" [] k = "Like" -> "upvoted:" [] k = "Dislike" -> "downvoted:"
ActHeader(v) == IF v.kind = "Create" THEN <<>>
                ELSE <<Line(0, (IF v.actor.kind \in {"absent", "failure"} THEN <<"problem">> ELSE ActorName(v.actor)) \o <<Verb(v.kind)>>)>>
FailureCard == <<Line(0, <<"problem">>)>>
ActString(v) == ActHeader(v) \o (IF v.target.kind = "failure" THEN FailureCard ELSE PostString(v.target))
ActPreview(v) == ActHeader(v) \o (IF v.target.kind = "failure" THEN FailureCard ELSE PostPreview(v.target))

(* ----------------------------- what one would want of a card ----------------------------- *)
Toks(card) == Flat([i \in 1..Len(card) |-> card[i].toks])
Count(s, w) == LET RECURSIVE C(_) C(k) == IF k = 0 THEN 0 ELSE C(k - 1) + (IF s[k] = w THEN 1 ELSE 0) IN C(Len(s))
ActorProblems(a) == IF a.kind = "failure" THEN 1
                    ELSE (IF a.name = "bad" THEN 1 ELSE 0) + (IF a.id = "some" /\ a.handle = "bad" THEN 1 ELSE 0)
RECURSIVE SumActors(_)
SumActors(as) == IF as = <<>> THEN 0 ELSE ActorProblems(Head(as)) + SumActors(Tail(as))
RECURSIVE AttProblems(_)
AttProblems(as) == IF as = <<>> THEN 0 ELSE (IF Head(as) \in {"nourl", "badname"} THEN 1 ELSE 0) + AttProblems(Tail(as))
(* every field that is there but cannot be read is said once, in the error colour; nothing else is *)
Unreadable(p) == (IF p.title = "bad" THEN 1 ELSE 0) + SumActors(p.creators) + SumActors(p.recipients)
                 + (IF p.created.c = "bad" THEN 1 ELSE 0) + (IF p.body = "bad" THEN 1 ELSE 0)
                 + (IF p.atts.c = "absent" \/ AttsSilent(p) THEN 0 ELSE IF AttsBad(p) THEN 1 ELSE AttProblems(p.atts.l))
                 + (IF p.comments.c = "badsize" THEN 1 ELSE 0)
ErrorsSaid(p) == Count(Toks(PostString(p)), "problem") = Unreadable(p)
(* link numbers on a card count up from 1 without a gap *)
Sups(card) == SelectSeq(Toks(card), LAMBDA w : w \in {Sup(n) : n \in 1..9})
Dense(card) == \A i \in 1..Len(Sups(card)) : Sups(card)[i] = Sup(i)
(* a preview is at most four lines, starts like the full card, and says so when it leaves something out *)
PreviewShort(p) == Len(PostPreview(p)) <= 4 /\ Len(PostPreview(p)) >= 1
PreviewStartsAlike(p) == LET h == PostHeader(p) pv == PostPreview(p) IN
                         \A i \in 1..Min(Len(h), Len(pv)) : i < Len(pv) => pv[i] = h[i]
=============================================================================
