SPECIFICATION Spec
CONSTANTS
  Callers = {1, 2, 3, 4}
  Variant = "forget"
  MaxFlights = 3
INVARIANT Agreement
CHECK_DEADLOCK FALSE
