SPECIFICATION Spec
CONSTANTS
  MaxCells = 3
  MaxStyle = 2
  MaxLayout = 2
INVARIANTS Neutral_ AttrsAsExpected
CHECK_DEADLOCK FALSE
