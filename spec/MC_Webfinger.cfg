SPECIFICATION Spec
CONSTANTS
  MaxLen = 2
  GenOn = FALSE
INVARIANT Finds
CHECK_DEADLOCK FALSE
