SPECIFICATION GenSpec
CONSTANTS
  Deps = {"parent", "authors", "recipients", "replies"}
  Variant = "joinall"
  MaxTicks = 3
  GenKind = "post"
CONSTRAINT GenEmit
CHECK_DEADLOCK FALSE
