SPECIFICATION Spec
CONSTANTS
  Up = 5
  Down = 4
  Context = 2
INVARIANTS NeighbourLoadedIffExists WindowLoaded CursorOnItem NeverBeyondTruth
CHECK_DEADLOCK FALSE
