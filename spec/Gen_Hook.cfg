SPECIFICATION Spec
CONSTANTS
  MaxArgs = 2
  Variant = "ok"
  GenOn = TRUE
CONSTRAINT GenEmit
CHECK_DEADLOCK FALSE
