------------------------------ MODULE MC_Width ------------------------------
(* C06 at design level: how the effective width and the size of the output evolve through nested
   indenting blocks (hypertext.renderNode).  Every blockquote / list / heading / media element narrows the
   width for its children by Indent(kind), wraps what they produced at that width, and adds a prefix.
   Size abstraction: [lines, len] = number of lines and the longest line.

   Variant "pinned": the tree as first received - wrapping at a width below 1 puts every character on a
   line of its own and inserts empty lines, so each further level multiplies the line count; <hr> repeats
   its glyph `width` times, which panics for a negative width.
   Variant "fixed": below width 1 nothing is wrapped (the text is left to the enclosing blocks that
   still have room) and <hr> is empty.                                                            *)
EXTENDS Integers, Sequences, TLC
CONSTANTS Variant, MaxDepth, Cells
Widths == {-10, -1, 0, 1, 2, 3, 5, 8, 20, 40, 80, 81, 200, 604, 1004}
VARIABLES depth, kind, w0, leaf

Indent(k) == CASE k = "bq" -> 1 [] k = "ul" -> 2 [] k = "media" -> 2 [] k = "h1" -> 2 [] k = "h4" -> 5 [] k = "h6" -> 7
Init == depth \in 0..MaxDepth /\ kind \in {"bq", "ul", "h4", "h6"} /\ w0 \in Widths /\ leaf \in {"text", "hr"}
Next == UNCHANGED <<depth, kind, w0, leaf>>
Spec == Init /\ [][Next]_<<depth, kind, w0, leaf>>

Eff(d) == w0 - d * Indent(kind)                  \* width available inside d nested blocks
Ceil(a, b) == (a + b - 1) \div b
WrapAt(size, w) ==
    IF w >= 1 THEN [lines |-> size.lines * (IF size.len = 0 THEN 1 ELSE Ceil(size.len, w)), len |-> IF size.len < w THEN size.len ELSE w]
    ELSE IF Variant = "pinned" THEN [lines |-> size.lines * (size.len + 1), len |-> IF size.len = 0 THEN 0 ELSE 1]
    ELSE size
(* size of the rendering of d..depth levels around the leaf, seen from inside level d *)
RECURSIVE Inside(_)
Inside(d) == IF d = depth
             THEN (IF leaf = "hr" THEN [lines |-> 1, len |-> IF Eff(d) > 0 THEN Eff(d) ELSE 0] ELSE [lines |-> 1, len |-> Cells])
             ELSE LET inner == WrapAt(Inside(d + 1), Eff(d + 1)) IN [lines |-> inner.lines, len |-> inner.len + Indent(kind)]
Total == WrapAt(Inside(0), w0)

NoBadArgument == (leaf = "hr" /\ Variant = "pinned") => Eff(depth) >= 0        \* strings.Repeat(x, n) needs n >= 0
SizePolynomial == Total.lines <= (Cells + depth * 8 + 8) * (depth + 2)
=============================================================================
