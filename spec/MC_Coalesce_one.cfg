SPECIFICATION Spec
CONSTANTS
  Callers = {1, 2, 3, 4}
  Variant = "forget"
  MaxFlights = 3
INVARIANT OneAtATime
CHECK_DEADLOCK FALSE
