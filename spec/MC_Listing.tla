------------------------------ MODULE MC_Listing ------------------------------
(* C09 at design level: a listing is a sequence of entry classes (Provenance.tla); the constructor
   wrappers of pub (outbox: NewActivity + actor identity test, replies: NewPost + parent identity test)
   show an entry as genuine iff the checks pass.  The state space is the set of class sequences; TLC
   checks ListingOK for the outcome table of the wrappers as coded and enumerates the sequences for
   the Go driver.                                                                                   *)
EXTENDS Provenance, TLC, Json
CONSTANTS MaxLen, GenOn
VARIABLES kind, owner, classes, place
(* where the listing is served: by the owner's host under its own id ("own"); by another host, without an
   id of its own, named by URL in the owner's document ("foreign_anon"); or the same reached through a
   redirect from the owner's host ("redirect_anon").  Entries embedded there are that other host's word. *)
Places == {"own", "foreign_anon", "redirect_anon", "inline_anon"}   \* inline_anon: embedded in the owner's document, without an id

(* owner "anon": the owner (actor / parent post) has no id of its own - it only exists embedded in what was opened *)
Init == /\ kind \in {"outbox", "replies"} /\ owner \in {"path", "query", "anon"}
        /\ classes \in UNION {[1..n -> IF kind = "outbox" THEN OutboxClasses ELSE ReplyClasses] : n \in 0..MaxLen}
        /\ (kind = "replies" => owner \in {"path", "anon"})
        /\ (owner = "anon" => Len(classes) < MaxLen)
        /\ place \in Places /\ (place # "own" => Len(classes) < MaxLen /\ (owner = "path" \/ (owner = "anon" /\ place = "inline_anon")))
Next == UNCHANGED <<kind, owner, classes, place>>
Spec == Init /\ [][Next]_<<kind, owner, classes, place>>

(* the wrappers as coded: construct the entry (any failure => error item), then compare identifiers *)
Constructs(c) == c \notin {"fetch_fails", "not_activity", "not_post", "forged_author", "redirected_forged"}
IdentityMatches(c) == c \in {"legit_emb", "legit_ref", "legit_actor_emb", "legit_noid", "legit_stub", "legit_announce", "legit_author_no_actor", "legit_announce_wrapped"}
ShownM == [i \in 1..Len(classes) |-> IF Constructs(classes[i]) /\ IdentityMatches(classes[i]) THEN "genuine" ELSE "error"]
Holds == ListingOK(classes, ShownM)
GenEmit == GenOn => PrintT("GEN " \o ToJson([kind |-> kind, owner |-> owner, classes |-> classes, place |-> place]))
=============================================================================
