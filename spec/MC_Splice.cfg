SPECIFICATION Spec
CONSTANTS
  MaxSrc = 2
  MaxItems = 2
  MaxTs = 2
  MaxQ = 2
  MaxCalls = 2
  GenOn = FALSE
INVARIANT Holds
CHECK_DEADLOCK FALSE
