----------------------------- MODULE MC_Sanitize -----------------------------
EXTENDS Sanitize, Json
CONSTANTS Variant, GenOn
VARIABLES src, class, enc
Init == src \in Sources /\ class \in Classes /\ enc \in Encs /\ Expressible(src, enc)
Next == UNCHANGED <<src, class, enc>>
Spec == Init /\ [][Next]_<<src, class, enc>>
SinkClean == Clean(AtSink(Variant, src, [class |-> class, enc |-> enc]))
GenEmit == GenOn => PrintT("GEN " \o ToJson([src |-> src, class |-> class, enc |-> enc]))
=============================================================================
