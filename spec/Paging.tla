------------------------------- MODULE Paging -------------------------------
(* Lazily paged collections (pub/collection.go, C10).

   Layout: pages[p] = [n |-> number of items on page p, next |-> 0 (none) | -1 (fails to load) | q];
   the walk starts at page 1 (the collection object itself, whose inline items may be absent).  Item i
   of page p is <<p, i>>.  Back edges are allowed (cyclic chains => infinite true sequence).

   HistoryOK is what C10 demands of a whole paging session (a sequence of Harvest calls, each continuing
   where the previous one stopped); HarvestM is Collection.harvestWithEmptyCount as coded, with
   Variant = "pinned" (empty-page counter never reset within a request) or "fixed" (reset by a
   non-empty page, so that it counts CONSECUTIVE empty pages).                                        *)
EXTENDS Integers, Sequences, FiniteSets, SequencesExt

ItemsOf(pages, p) == [i \in 1..pages[p].n |-> <<p, i>>]

(* the first k items of the true sequence (fewer if it ends earlier); fuel bounds walks over empty cycles *)
RECURSIVE TrueFrom(_, _, _, _)
TrueFrom(pages, p, k, fuel) ==
    IF k <= 0 \/ fuel = 0 \/ p <= 0 THEN <<>>
    ELSE LET here == ItemsOf(pages, p) IN
         IF Len(here) >= k THEN SubSeq(here, 1, k)
         ELSE here \o TrueFrom(pages, pages[p].next, k - Len(here), IF here = <<>> THEN fuel - 1 ELSE Len(pages) + 1)
TruePrefix(pages, k) == TrueFrom(pages, 1, k, Len(pages) + 1)

(* does the walk, having delivered exactly k items (k = 0: nothing yet), run into an obstruction before
   the next item: a page that fails to load, or more than three consecutive empty pages? *)
RECURSIVE ObstructedFrom(_, _, _, _)
ObstructedFrom(pages, p, empties, fuel) ==      \* p: next page to look at
    IF p = -1 THEN TRUE
    ELSE IF p = 0 \/ fuel = 0 THEN FALSE
    ELSE IF pages[p].n > 0 THEN FALSE
    ELSE IF empties + 1 > 3 THEN TRUE
    ELSE ObstructedFrom(pages, pages[p].next, empties + 1, fuel - 1)
(* page holding the k-th item of the true sequence and whether it is that page's last item *)
RECURSIVE Locate(_, _, _, _)
Locate(pages, p, k, fuel) ==
    IF p <= 0 \/ fuel = 0 THEN [p |-> 0, last |-> FALSE]
    ELSE IF pages[p].n >= k THEN [p |-> p, last |-> pages[p].n = k]
    ELSE Locate(pages, pages[p].next, k - pages[p].n, IF pages[p].n = 0 THEN fuel - 1 ELSE Len(pages) + 1)
Obstructed(pages, k) ==
    IF k = 0 THEN ObstructedFrom(pages, 1, 0, Len(pages) + 5)
    ELSE LET loc == Locate(pages, 1, k, Len(pages) + 1) IN
         loc.p > 0 /\ loc.last /\ ObstructedFrom(pages, pages[loc.p].next, 0, Len(pages) + 5)
(* is everything delivered after k items: the chain ends (next = 0) with no further item *)
RECURSIVE EndsFrom(_, _, _)
EndsFrom(pages, p, fuel) == IF p = 0 THEN TRUE ELSE IF p = -1 \/ fuel = 0 THEN FALSE
                            ELSE pages[p].n = 0 /\ EndsFrom(pages, pages[p].next, fuel - 1)
Complete(pages, k) ==
    IF k = 0 THEN EndsFrom(pages, 1, Len(pages) + 1)
    ELSE LET loc == Locate(pages, 1, k, Len(pages) + 1) IN
         loc.p > 0 /\ loc.last /\ EndsFrom(pages, pages[loc.p].next, Len(pages) + 1)

Flatten(calls) == FoldLeft(LAMBDA acc, c : acc \o c.items, <<>>, calls)

(* calls[i] = [n, items, err, done]: requested size, item ids delivered, whether an error item followed
   them, whether the continuation returned was empty *)
HistoryOK(pages, calls) ==
    LET D == Flatten(calls) m == Len(calls) IN
    /\ \A i \in 1..m : Len(calls[i].items) <= calls[i].n                    \* never more than asked for
    /\ \A i \in 1..m : calls[i].err => (i = m /\ calls[i].done)             \* at most one error item, last
    /\ \A i \in 1..(m - 1) : ~calls[i].done                                 \* an empty continuation ends it
    /\ D = TruePrefix(pages, Len(D))                                        \* in order, no gaps, no duplicates
    /\ \A i \in 1..m : (calls[i].n > 0 /\ calls[i].items = <<>> /\ ~calls[i].err) => calls[i].done   \* progress
    /\ m > 0 => /\ (calls[m].done /\ ~calls[m].err) => Complete(pages, Len(D))   \* ends only when all is delivered
                /\ calls[m].err => Obstructed(pages, Len(D))                \* cut short only when justified

\* ------------------------------------------------------------------ harvestWithEmptyCount as coded
RECURSIVE HarvestM(_, _, _, _, _, _)
HarvestM(variant, pages, p, start, n, ec) ==      \* -> [items, err, cont |-> <<page, offset>> or <<>>, visits]
    LET len == pages[p].n
        ec2 == IF len = 0 THEN ec + 1 ELSE IF variant = "fixed" THEN 0 ELSE ec
    IN IF ec2 > 3 THEN [items |-> <<>>, err |-> TRUE, cont |-> <<>>, visits |-> 1]
       ELSE LET take == IF start >= len THEN 0 ELSE IF len > n + start THEN n ELSE len - start
                here == SubSeq(ItemsOf(pages, p), start + 1, start + take)
            IN IF len > n + start THEN [items |-> here, err |-> FALSE, cont |-> <<p, n + start>>, visits |-> 1]
               ELSE IF pages[p].next = 0 THEN [items |-> here, err |-> FALSE, cont |-> <<>>, visits |-> 1]
               ELSE IF pages[p].next = -1 THEN [items |-> here, err |-> TRUE, cont |-> <<>>, visits |-> 2]
               ELSE LET r == HarvestM(variant, pages, pages[p].next, 0, n - take, ec2)
                    IN [items |-> here \o r.items, err |-> r.err, cont |-> r.cont, visits |-> r.visits + 1]
VisitBound(n) == 5 * (n + 2)
=============================================================================
