---- MODULE MC_Fetch_TTrace_1790465187 ----
EXTENDS Sequences, TLCExt, MC_Fetch, Toolbox, Naturals, TLC

_expression ==
    LET MC_Fetch_TEExpression == INSTANCE MC_Fetch_TEExpression
    IN MC_Fetch_TEExpression!expression
----

_trace ==
    LET MC_Fetch_TETrace == INSTANCE MC_Fetch_TETrace
    IN MC_Fetch_TETrace!trace
----

_inv ==
    ~(
        TLCGet("level") = Len(_TETrace)
        /\
        hist = (<<[kind |-> "activity", url |-> "h1/a", budget |-> 0], [kind |-> "webfinger", url |-> "h1/a", budget |-> 0]>>)
        /\
        cache = (<<[res |-> [doc |-> "h1/a", ok |-> TRUE, src |-> "h1/a"], key |-> <<"h1/a">>, hops |-> 0]>>)
        /\
        cap = (1)
        /\
        last = ([u |-> "h1/a", kind |-> "webfinger", b |-> 0, res |-> [doc |-> "h1/a", ok |-> TRUE, src |-> "h1/a"], reqs |-> <<>>])
        /\
        W = (("h1/a" :> [status |-> 200, ct |-> <<"activity">>, body |-> "obj", loc |-> "", doc |-> "h1/a"] @@ "h1/b" :> [status |-> 200, ct |-> <<"activity">>, body |-> "obj", loc |-> "", doc |-> "h1/b"] @@ "h2/c" :> [status |-> 203, ct |-> <<"jrd">>, body |-> "obj", loc |-> "", doc |-> "h2/c"]))
    )
----

_init ==
    /\ W = _TETrace[1].W
    /\ hist = _TETrace[1].hist
    /\ cap = _TETrace[1].cap
    /\ last = _TETrace[1].last
    /\ cache = _TETrace[1].cache
----

_next ==
    /\ \E i,j \in DOMAIN _TETrace:
        /\ \/ /\ j = i + 1
              /\ i = TLCGet("level")
        /\ W  = _TETrace[i].W
        /\ W' = _TETrace[j].W
        /\ hist  = _TETrace[i].hist
        /\ hist' = _TETrace[j].hist
        /\ cap  = _TETrace[i].cap
        /\ cap' = _TETrace[j].cap
        /\ last  = _TETrace[i].last
        /\ last' = _TETrace[j].last
        /\ cache  = _TETrace[i].cache
        /\ cache' = _TETrace[j].cache

\* Uncomment the ASSUME below to write the states of the error trace
\* to the given file in Json format. Note that you can pass any tuple
\* to `JsonSerialize`. For example, a sub-sequence of _TETrace.
    \* ASSUME
    \*     LET J == INSTANCE Json
    \*         IN J!JsonSerialize("MC_Fetch_TTrace_1790465187.json", _TETrace)

=============================================================================

 Note that you can extract this module `MC_Fetch_TEExpression`
  to a dedicated file to reuse `expression` (the module in the 
  dedicated `MC_Fetch_TEExpression.tla` file takes precedence 
  over the module `MC_Fetch_TEExpression` below).

---- MODULE MC_Fetch_TEExpression ----
EXTENDS Sequences, TLCExt, MC_Fetch, Toolbox, Naturals, TLC

expression == 
    [
        \* To hide variables of the `MC_Fetch` spec from the error trace,
        \* remove the variables below.  The trace will be written in the order
        \* of the fields of this record.
        W |-> W
        ,hist |-> hist
        ,cap |-> cap
        ,last |-> last
        ,cache |-> cache
        
        \* Put additional constant-, state-, and action-level expressions here:
        \* ,_stateNumber |-> _TEPosition
        \* ,_WUnchanged |-> W = W'
        
        \* Format the `W` variable as Json value.
        \* ,_WJson |->
        \*     LET J == INSTANCE Json
        \*     IN J!ToJson(W)
        
        \* Lastly, you may build expressions over arbitrary sets of states by
        \* leveraging the _TETrace operator.  For example, this is how to
        \* count the number of times a spec variable changed up to the current
        \* state in the trace.
        \* ,_WModCount |->
        \*     LET F[s \in DOMAIN _TETrace] ==
        \*         IF s = 1 THEN 0
        \*         ELSE IF _TETrace[s].W # _TETrace[s-1].W
        \*             THEN 1 + F[s-1] ELSE F[s-1]
        \*     IN F[_TEPosition - 1]
    ]

=============================================================================



Parsing and semantic processing can take forever if the trace below is long.
 In this case, it is advised to uncomment the module below to deserialize the
 trace from a generated binary file.

\*
\*---- MODULE MC_Fetch_TETrace ----
\*EXTENDS IOUtils, MC_Fetch, TLC
\*
\*trace == IODeserialize("MC_Fetch_TTrace_1790465187.bin", TRUE)
\*
\*=============================================================================
\*

---- MODULE MC_Fetch_TETrace ----
EXTENDS MC_Fetch, TLC

trace == 
    <<
    ([hist |-> <<>>,cache |-> <<>>,cap |-> 1,last |-> [u |-> "none", kind |-> "activity", b |-> 0, res |-> [doc |-> "none", ok |-> FALSE, src |-> "none"], reqs |-> <<>>],W |-> ("h1/a" :> [status |-> 200, ct |-> <<"activity">>, body |-> "obj", loc |-> "", doc |-> "h1/a"] @@ "h1/b" :> [status |-> 200, ct |-> <<"activity">>, body |-> "obj", loc |-> "", doc |-> "h1/b"] @@ "h2/c" :> [status |-> 203, ct |-> <<"jrd">>, body |-> "obj", loc |-> "", doc |-> "h2/c"])]),
    ([hist |-> <<[kind |-> "activity", url |-> "h1/a", budget |-> 0]>>,cache |-> <<[res |-> [doc |-> "h1/a", ok |-> TRUE, src |-> "h1/a"], key |-> <<"h1/a">>, hops |-> 0]>>,cap |-> 1,last |-> [u |-> "h1/a", kind |-> "activity", b |-> 0, res |-> [doc |-> "h1/a", ok |-> TRUE, src |-> "h1/a"], reqs |-> <<"h1/a">>],W |-> ("h1/a" :> [status |-> 200, ct |-> <<"activity">>, body |-> "obj", loc |-> "", doc |-> "h1/a"] @@ "h1/b" :> [status |-> 200, ct |-> <<"activity">>, body |-> "obj", loc |-> "", doc |-> "h1/b"] @@ "h2/c" :> [status |-> 203, ct |-> <<"jrd">>, body |-> "obj", loc |-> "", doc |-> "h2/c"])]),
    ([hist |-> <<[kind |-> "activity", url |-> "h1/a", budget |-> 0], [kind |-> "webfinger", url |-> "h1/a", budget |-> 0]>>,cache |-> <<[res |-> [doc |-> "h1/a", ok |-> TRUE, src |-> "h1/a"], key |-> <<"h1/a">>, hops |-> 0]>>,cap |-> 1,last |-> [u |-> "h1/a", kind |-> "webfinger", b |-> 0, res |-> [doc |-> "h1/a", ok |-> TRUE, src |-> "h1/a"], reqs |-> <<>>],W |-> ("h1/a" :> [status |-> 200, ct |-> <<"activity">>, body |-> "obj", loc |-> "", doc |-> "h1/a"] @@ "h1/b" :> [status |-> 200, ct |-> <<"activity">>, body |-> "obj", loc |-> "", doc |-> "h1/b"] @@ "h2/c" :> [status |-> 203, ct |-> <<"jrd">>, body |-> "obj", loc |-> "", doc |-> "h2/c"])])
    >>
----


=============================================================================

---- CONFIG MC_Fetch_TTrace_1790465187 ----
CONSTANTS
    Variant = "pinned"
    Urls = { "h1/a" , "h1/b" , "h2/c" }
    Budgets = { 0 , 1 , 2 }
    Caps = { 1 , 2 }
    MaxFetches = 3
    GenDepth = 0
    RespSet = "small"

INVARIANT
    _inv

CHECK_DEADLOCK
    \* CHECK_DEADLOCK off because of PROPERTY or INVARIANT above.
    FALSE

INIT
    _init

NEXT
    _next

CONSTANT
    _TETrace <- _trace

ALIAS
    _expression
=============================================================================
\* Generated on Sat Sep 26 23:26:28 UTC 2026