------------------------------ MODULE MC_Style ------------------------------
(* C14 at design level: style functions are Apply with an SGR parameter; texts are nested and
   concatenated (Style on a sub-range), then laid out (wrap, hard wrap, indent, pad, snip) and possibly
   styled again as a whole.  After every step the terminal acceptor (Term.tla) run over the text must
   be neutral at every line break and at the end, and every glyph must carry exactly the boolean
   attributes applied to it and, per colour plane, the innermost colour applied to it.                                 *)
EXTENDS Layout, Term, TLC
CONSTANTS MaxCells, MaxStyle, MaxLayout
VARIABLES text, exp, ns, nl

Styles == {"1", "4", "38;2;1;1;1", "38;2;2;2;2", "48;2;3;3;3"}
Params(s) == CASE s = "1" -> <<1>> [] s = "4" -> <<4>> [] s = "9" -> <<9>> [] s = "3" -> <<3>>
               [] s = "38;2;1;1;1" -> <<38, 2, 1, 1, 1>> [] s = "38;2;2;2;2" -> <<38, 2, 2, 2, 2>>
               [] s = "48;2;3;3;3" -> <<48, 2, 3, 3, 3>>

GName == <<"g1", "g2", "g3", "g4", "g5">>
GId(i) == GName[i]
GIds == {GId(i) : i \in 1..MaxCells}
Glyph(i) == [k |-> "g", c |-> GId(i), s |-> <<>>, r |-> FALSE]
Shapes == UNION {[1..n -> {"g", "sp", "nl"}] : n \in 1..MaxCells}
Mk(sh) == [i \in 1..Len(sh) |-> IF sh[i] = "g" THEN Glyph(i) ELSE IF sh[i] = "sp" THEN SpCell ELSE NlCell]

CellToks(c) == [i \in 1..Len(c.s) |-> [t |-> "sgr", p |-> Params(c.s[i])]]
               \o << IF c.k = "nl" THEN [t |-> "nl"] ELSE [t |-> "ch", n |-> 1, id |-> c.c] >>
               \o (IF c.r THEN << [t |-> "sgr", p |-> <<0>>] >> ELSE <<>>)
ToToks(t) == FoldLeft(LAMBDA acc, c : acc \o CellToks(c), <<>>, t)

Init == /\ \E sh \in Shapes : text = Mk(sh)
        /\ exp = [g \in GIds |-> <<>>] /\ ns = 0 /\ nl = 0      \* styles applied to each glyph, innermost (earliest) first

StyleRange == /\ ns < MaxStyle /\ nl = 0
              /\ \E st \in Styles, i \in 1..Len(text) : \E j \in i..Len(text) :
                   /\ text' = SubSeq(text, 1, i - 1) \o ApplyAlg(SubSeq(text, i, j), st) \o SubSeq(text, j + 1, Len(text))
                   /\ exp' = [g \in GIds |-> IF \E q \in i..j : GName[q] = g THEN Append(exp[g], st) ELSE exp[g]]
              /\ ns' = ns + 1 /\ UNCHANGED nl
StyleAll ==   /\ ns < MaxStyle /\ nl > 0
              /\ \E st \in Styles :
                   /\ text' = ApplyAlg(text, st)
                   /\ exp' = [g \in GIds |-> Append(exp[g], st)]
              /\ ns' = ns + 1 /\ UNCHANGED nl
Decor == Plain("|")
LayoutOp ==   /\ nl < MaxLayout
              /\ \/ \E w \in 1..2 : text' = WrapAlg(text, w)
                 \/ \E w \in 1..2 : text' = DumbWrapAlg(text, w)
                 \/ text' = IndentAlg(text, <<Decor>>, TRUE)
                 \/ text' = PadAlg(text, 2)
                 \/ \E h \in 1..2 : text' = SnipAlg(text, MaxCells, h, [Decor EXCEPT !.s = <<"38;2;1;1;1">>, !.r = TRUE])
              /\ nl' = nl + 1 /\ UNCHANGED <<exp, ns>>
Next == StyleRange \/ StyleAll \/ LayoutOp
Spec == Init /\ [][Next]_<<text, exp, ns, nl>>

Fold == GlyphFold(ToToks(text))
Neutral_ == NeutralAtBreaks(Fold.st) /\ NoCtl(Fold.st)
ExpBools(S) == {Params(s)[1] : s \in {x \in Range(S) : Len(Params(x)) = 1}}
Plane(S, p) == SelectSeq(S, LAMBDA x : Len(Params(x)) = 5 /\ Params(x)[1] = p)
ExpFg(S) == [i \in 1..Len(Plane(S, 38)) |-> SubSeq(Params(Plane(S, 38)[i]), 3, 5)]
ExpBg(S) == [i \in 1..Len(Plane(S, 48)) |-> SubSeq(Params(Plane(S, 48)[i]), 3, 5)]
AttrsAsExpected ==
    \A i \in 1..Len(Fold.seen) :
       LET g == Fold.seen[i] IN
       g.id \in GIds =>
         /\ g.a.bools = ExpBools(exp[g.id])
         \* of several colours of one plane the innermost shows
         /\ IF ExpFg(exp[g.id]) = <<>> THEN g.a.fg = <<>> ELSE g.a.fg = ExpFg(exp[g.id])[1]
         /\ IF ExpBg(exp[g.id]) = <<>> THEN g.a.bg = <<>> ELSE g.a.bg = ExpBg(exp[g.id])[1]
=============================================================================
