---- MODULE UIConc_TTrace_1790476198 ----
EXTENDS Sequences, TLCExt, UIConc, Toolbox, Naturals, TLC

_expression ==
    LET UIConc_TEExpression == INSTANCE UIConc_TEExpression
    IN UIConc_TEExpression!expression
----

_trace ==
    LET UIConc_TETrace == INSTANCE UIConc_TETrace
    IN UIConc_TETrace!trace
----

_inv ==
    ~(
        TLCGet("level") = Len(_TETrace)
        /\
        emitting = ({})
        /\
        pc = ([k1 |-> "done", k2 |-> "done", k3 |-> "done", l1 |-> "done", l2 |-> "done", poll |-> "done", feed |-> "done"])
        /\
        holder = ("none")
        /\
        writers = ({})
        /\
        done = ({"k1", "k2", "k3", "l1", "l2", "poll", "feed"})
        /\
        version = (7)
    )
----

_init ==
    /\ holder = _TETrace[1].holder
    /\ done = _TETrace[1].done
    /\ emitting = _TETrace[1].emitting
    /\ writers = _TETrace[1].writers
    /\ pc = _TETrace[1].pc
    /\ version = _TETrace[1].version
----

_next ==
    /\ \E i,j \in DOMAIN _TETrace:
        /\ \/ /\ j = i + 1
              /\ i = TLCGet("level")
        /\ holder  = _TETrace[i].holder
        /\ holder' = _TETrace[j].holder
        /\ done  = _TETrace[i].done
        /\ done' = _TETrace[j].done
        /\ emitting  = _TETrace[i].emitting
        /\ emitting' = _TETrace[j].emitting
        /\ writers  = _TETrace[i].writers
        /\ writers' = _TETrace[j].writers
        /\ pc  = _TETrace[i].pc
        /\ pc' = _TETrace[j].pc
        /\ version  = _TETrace[i].version
        /\ version' = _TETrace[j].version

\* Uncomment the ASSUME below to write the states of the error trace
\* to the given file in Json format. Note that you can pass any tuple
\* to `JsonSerialize`. For example, a sub-sequence of _TETrace.
    \* ASSUME
    \*     LET J == INSTANCE Json
    \*         IN J!JsonSerialize("UIConc_TTrace_1790476198.json", _TETrace)

=============================================================================

 Note that you can extract this module `UIConc_TEExpression`
  to a dedicated file to reuse `expression` (the module in the 
  dedicated `UIConc_TEExpression.tla` file takes precedence 
  over the module `UIConc_TEExpression` below).

---- MODULE UIConc_TEExpression ----
EXTENDS Sequences, TLCExt, UIConc, Toolbox, Naturals, TLC

expression == 
    [
        \* To hide variables of the `UIConc` spec from the error trace,
        \* remove the variables below.  The trace will be written in the order
        \* of the fields of this record.
        holder |-> holder
        ,done |-> done
        ,emitting |-> emitting
        ,writers |-> writers
        ,pc |-> pc
        ,version |-> version
        
        \* Put additional constant-, state-, and action-level expressions here:
        \* ,_stateNumber |-> _TEPosition
        \* ,_holderUnchanged |-> holder = holder'
        
        \* Format the `holder` variable as Json value.
        \* ,_holderJson |->
        \*     LET J == INSTANCE Json
        \*     IN J!ToJson(holder)
        
        \* Lastly, you may build expressions over arbitrary sets of states by
        \* leveraging the _TETrace operator.  For example, this is how to
        \* count the number of times a spec variable changed up to the current
        \* state in the trace.
        \* ,_holderModCount |->
        \*     LET F[s \in DOMAIN _TETrace] ==
        \*         IF s = 1 THEN 0
        \*         ELSE IF _TETrace[s].holder # _TETrace[s-1].holder
        \*             THEN 1 + F[s-1] ELSE F[s-1]
        \*     IN F[_TEPosition - 1]
    ]

=============================================================================



Parsing and semantic processing can take forever if the trace below is long.
 In this case, it is advised to uncomment the module below to deserialize the
 trace from a generated binary file.

\*
\*---- MODULE UIConc_TETrace ----
\*EXTENDS IOUtils, UIConc, TLC
\*
\*trace == IODeserialize("UIConc_TTrace_1790476198.bin", TRUE)
\*
\*=============================================================================
\*

---- MODULE UIConc_TETrace ----
EXTENDS UIConc, TLC

trace == 
    <<
    ([emitting |-> {},pc |-> [k1 |-> "want", k2 |-> "want", k3 |-> "want", l1 |-> "work", l2 |-> "work", poll |-> "want", feed |-> "work"],holder |-> "none",writers |-> {},done |-> {},version |-> 0]),
    ([emitting |-> {},pc |-> [k1 |-> "mutate", k2 |-> "want", k3 |-> "want", l1 |-> "work", l2 |-> "work", poll |-> "want", feed |-> "work"],holder |-> "k1",writers |-> {},done |-> {},version |-> 0]),
    ([emitting |-> {},pc |-> [k1 |-> "mutating", k2 |-> "want", k3 |-> "want", l1 |-> "work", l2 |-> "work", poll |-> "want", feed |-> "work"],holder |-> "k1",writers |-> {"k1"},done |-> {},version |-> 0]),
    ([emitting |-> {},pc |-> [k1 |-> "emit", k2 |-> "want", k3 |-> "want", l1 |-> "work", l2 |-> "work", poll |-> "want", feed |-> "work"],holder |-> "k1",writers |-> {},done |-> {},version |-> 1]),
    ([emitting |-> {"k1"},pc |-> [k1 |-> "emitting", k2 |-> "want", k3 |-> "want", l1 |-> "work", l2 |-> "work", poll |-> "want", feed |-> "work"],holder |-> "k1",writers |-> {},done |-> {},version |-> 1]),
    ([emitting |-> {},pc |-> [k1 |-> "release", k2 |-> "want", k3 |-> "want", l1 |-> "work", l2 |-> "work", poll |-> "want", feed |-> "work"],holder |-> "k1",writers |-> {},done |-> {},version |-> 1]),
    ([emitting |-> {},pc |-> [k1 |-> "done", k2 |-> "want", k3 |-> "want", l1 |-> "work", l2 |-> "work", poll |-> "want", feed |-> "work"],holder |-> "none",writers |-> {},done |-> {"k1"},version |-> 1]),
    ([emitting |-> {},pc |-> [k1 |-> "done", k2 |-> "mutate", k3 |-> "want", l1 |-> "work", l2 |-> "work", poll |-> "want", feed |-> "work"],holder |-> "k2",writers |-> {},done |-> {"k1"},version |-> 1]),
    ([emitting |-> {},pc |-> [k1 |-> "done", k2 |-> "mutating", k3 |-> "want", l1 |-> "work", l2 |-> "work", poll |-> "want", feed |-> "work"],holder |-> "k2",writers |-> {"k2"},done |-> {"k1"},version |-> 1]),
    ([emitting |-> {},pc |-> [k1 |-> "done", k2 |-> "emit", k3 |-> "want", l1 |-> "work", l2 |-> "work", poll |-> "want", feed |-> "work"],holder |-> "k2",writers |-> {},done |-> {"k1"},version |-> 2]),
    ([emitting |-> {"k2"},pc |-> [k1 |-> "done", k2 |-> "emitting", k3 |-> "want", l1 |-> "work", l2 |-> "work", poll |-> "want", feed |-> "work"],holder |-> "k2",writers |-> {},done |-> {"k1"},version |-> 2]),
    ([emitting |-> {"k2"},pc |-> [k1 |-> "done", k2 |-> "emitting", k3 |-> "want", l1 |-> "want", l2 |-> "work", poll |-> "want", feed |-> "work"],holder |-> "k2",writers |-> {},done |-> {"k1"},version |-> 2]),
    ([emitting |-> {},pc |-> [k1 |-> "done", k2 |-> "release", k3 |-> "want", l1 |-> "want", l2 |-> "work", poll |-> "want", feed |-> "work"],holder |-> "k2",writers |-> {},done |-> {"k1"},version |-> 2]),
    ([emitting |-> {},pc |-> [k1 |-> "done", k2 |-> "done", k3 |-> "want", l1 |-> "want", l2 |-> "work", poll |-> "want", feed |-> "work"],holder |-> "none",writers |-> {},done |-> {"k1", "k2"},version |-> 2]),
    ([emitting |-> {},pc |-> [k1 |-> "done", k2 |-> "done", k3 |-> "mutate", l1 |-> "want", l2 |-> "work", poll |-> "want", feed |-> "work"],holder |-> "k3",writers |-> {},done |-> {"k1", "k2"},version |-> 2]),
    ([emitting |-> {},pc |-> [k1 |-> "done", k2 |-> "done", k3 |-> "mutating", l1 |-> "want", l2 |-> "work", poll |-> "want", feed |-> "work"],holder |-> "k3",writers |-> {"k3"},done |-> {"k1", "k2"},version |-> 2]),
    ([emitting |-> {},pc |-> [k1 |-> "done", k2 |-> "done", k3 |-> "emit", l1 |-> "want", l2 |-> "work", poll |-> "want", feed |-> "work"],holder |-> "k3",writers |-> {},done |-> {"k1", "k2"},version |-> 3]),
    ([emitting |-> {"k3"},pc |-> [k1 |-> "done", k2 |-> "done", k3 |-> "emitting", l1 |-> "want", l2 |-> "work", poll |-> "want", feed |-> "work"],holder |-> "k3",writers |-> {},done |-> {"k1", "k2"},version |-> 3]),
    ([emitting |-> {},pc |-> [k1 |-> "done", k2 |-> "done", k3 |-> "release", l1 |-> "want", l2 |-> "work", poll |-> "want", feed |-> "work"],holder |-> "k3",writers |-> {},done |-> {"k1", "k2"},version |-> 3]),
    ([emitting |-> {},pc |-> [k1 |-> "done", k2 |-> "done", k3 |-> "done", l1 |-> "want", l2 |-> "work", poll |-> "want", feed |-> "work"],holder |-> "none",writers |-> {},done |-> {"k1", "k2", "k3"},version |-> 3]),
    ([emitting |-> {},pc |-> [k1 |-> "done", k2 |-> "done", k3 |-> "done", l1 |-> "want", l2 |-> "want", poll |-> "want", feed |-> "work"],holder |-> "none",writers |-> {},done |-> {"k1", "k2", "k3"},version |-> 3]),
    ([emitting |-> {},pc |-> [k1 |-> "done", k2 |-> "done", k3 |-> "done", l1 |-> "mutate", l2 |-> "want", poll |-> "want", feed |-> "work"],holder |-> "l1",writers |-> {},done |-> {"k1", "k2", "k3"},version |-> 3]),
    ([emitting |-> {},pc |-> [k1 |-> "done", k2 |-> "done", k3 |-> "done", l1 |-> "mutating", l2 |-> "want", poll |-> "want", feed |-> "work"],holder |-> "l1",writers |-> {"l1"},done |-> {"k1", "k2", "k3"},version |-> 3]),
    ([emitting |-> {},pc |-> [k1 |-> "done", k2 |-> "done", k3 |-> "done", l1 |-> "emit", l2 |-> "want", poll |-> "want", feed |-> "work"],holder |-> "l1",writers |-> {},done |-> {"k1", "k2", "k3"},version |-> 4]),
    ([emitting |-> {"l1"},pc |-> [k1 |-> "done", k2 |-> "done", k3 |-> "done", l1 |-> "emitting", l2 |-> "want", poll |-> "want", feed |-> "work"],holder |-> "l1",writers |-> {},done |-> {"k1", "k2", "k3"},version |-> 4]),
    ([emitting |-> {"l1"},pc |-> [k1 |-> "done", k2 |-> "done", k3 |-> "done", l1 |-> "emitting", l2 |-> "want", poll |-> "want", feed |-> "want"],holder |-> "l1",writers |-> {},done |-> {"k1", "k2", "k3"},version |-> 4]),
    ([emitting |-> {},pc |-> [k1 |-> "done", k2 |-> "done", k3 |-> "done", l1 |-> "release", l2 |-> "want", poll |-> "want", feed |-> "want"],holder |-> "l1",writers |-> {},done |-> {"k1", "k2", "k3"},version |-> 4]),
    ([emitting |-> {},pc |-> [k1 |-> "done", k2 |-> "done", k3 |-> "done", l1 |-> "done", l2 |-> "want", poll |-> "want", feed |-> "want"],holder |-> "none",writers |-> {},done |-> {"k1", "k2", "k3", "l1"},version |-> 4]),
    ([emitting |-> {},pc |-> [k1 |-> "done", k2 |-> "done", k3 |-> "done", l1 |-> "done", l2 |-> "mutate", poll |-> "want", feed |-> "want"],holder |-> "l2",writers |-> {},done |-> {"k1", "k2", "k3", "l1"},version |-> 4]),
    ([emitting |-> {},pc |-> [k1 |-> "done", k2 |-> "done", k3 |-> "done", l1 |-> "done", l2 |-> "mutating", poll |-> "want", feed |-> "want"],holder |-> "l2",writers |-> {"l2"},done |-> {"k1", "k2", "k3", "l1"},version |-> 4]),
    ([emitting |-> {},pc |-> [k1 |-> "done", k2 |-> "done", k3 |-> "done", l1 |-> "done", l2 |-> "emit", poll |-> "want", feed |-> "want"],holder |-> "l2",writers |-> {},done |-> {"k1", "k2", "k3", "l1"},version |-> 5]),
    ([emitting |-> {"l2"},pc |-> [k1 |-> "done", k2 |-> "done", k3 |-> "done", l1 |-> "done", l2 |-> "emitting", poll |-> "want", feed |-> "want"],holder |-> "l2",writers |-> {},done |-> {"k1", "k2", "k3", "l1"},version |-> 5]),
    ([emitting |-> {},pc |-> [k1 |-> "done", k2 |-> "done", k3 |-> "done", l1 |-> "done", l2 |-> "release", poll |-> "want", feed |-> "want"],holder |-> "l2",writers |-> {},done |-> {"k1", "k2", "k3", "l1"},version |-> 5]),
    ([emitting |-> {},pc |-> [k1 |-> "done", k2 |-> "done", k3 |-> "done", l1 |-> "done", l2 |-> "done", poll |-> "want", feed |-> "want"],holder |-> "none",writers |-> {},done |-> {"k1", "k2", "k3", "l1", "l2"},version |-> 5]),
    ([emitting |-> {},pc |-> [k1 |-> "done", k2 |-> "done", k3 |-> "done", l1 |-> "done", l2 |-> "done", poll |-> "mutate", feed |-> "want"],holder |-> "poll",writers |-> {},done |-> {"k1", "k2", "k3", "l1", "l2"},version |-> 5]),
    ([emitting |-> {},pc |-> [k1 |-> "done", k2 |-> "done", k3 |-> "done", l1 |-> "done", l2 |-> "done", poll |-> "mutating", feed |-> "want"],holder |-> "poll",writers |-> {"poll"},done |-> {"k1", "k2", "k3", "l1", "l2"},version |-> 5]),
    ([emitting |-> {},pc |-> [k1 |-> "done", k2 |-> "done", k3 |-> "done", l1 |-> "done", l2 |-> "done", poll |-> "emit", feed |-> "want"],holder |-> "poll",writers |-> {},done |-> {"k1", "k2", "k3", "l1", "l2"},version |-> 6]),
    ([emitting |-> {"poll"},pc |-> [k1 |-> "done", k2 |-> "done", k3 |-> "done", l1 |-> "done", l2 |-> "done", poll |-> "emitting", feed |-> "want"],holder |-> "poll",writers |-> {},done |-> {"k1", "k2", "k3", "l1", "l2"},version |-> 6]),
    ([emitting |-> {},pc |-> [k1 |-> "done", k2 |-> "done", k3 |-> "done", l1 |-> "done", l2 |-> "done", poll |-> "release", feed |-> "want"],holder |-> "poll",writers |-> {},done |-> {"k1", "k2", "k3", "l1", "l2"},version |-> 6]),
    ([emitting |-> {},pc |-> [k1 |-> "done", k2 |-> "done", k3 |-> "done", l1 |-> "done", l2 |-> "done", poll |-> "done", feed |-> "want"],holder |-> "none",writers |-> {},done |-> {"k1", "k2", "k3", "l1", "l2", "poll"},version |-> 6]),
    ([emitting |-> {},pc |-> [k1 |-> "done", k2 |-> "done", k3 |-> "done", l1 |-> "done", l2 |-> "done", poll |-> "done", feed |-> "mutate"],holder |-> "feed",writers |-> {},done |-> {"k1", "k2", "k3", "l1", "l2", "poll"},version |-> 6]),
    ([emitting |-> {},pc |-> [k1 |-> "done", k2 |-> "done", k3 |-> "done", l1 |-> "done", l2 |-> "done", poll |-> "done", feed |-> "mutating"],holder |-> "feed",writers |-> {"feed"},done |-> {"k1", "k2", "k3", "l1", "l2", "poll"},version |-> 6]),
    ([emitting |-> {},pc |-> [k1 |-> "done", k2 |-> "done", k3 |-> "done", l1 |-> "done", l2 |-> "done", poll |-> "done", feed |-> "emit"],holder |-> "feed",writers |-> {},done |-> {"k1", "k2", "k3", "l1", "l2", "poll"},version |-> 7]),
    ([emitting |-> {"feed"},pc |-> [k1 |-> "done", k2 |-> "done", k3 |-> "done", l1 |-> "done", l2 |-> "done", poll |-> "done", feed |-> "emitting"],holder |-> "feed",writers |-> {},done |-> {"k1", "k2", "k3", "l1", "l2", "poll"},version |-> 7]),
    ([emitting |-> {},pc |-> [k1 |-> "done", k2 |-> "done", k3 |-> "done", l1 |-> "done", l2 |-> "done", poll |-> "done", feed |-> "release"],holder |-> "feed",writers |-> {},done |-> {"k1", "k2", "k3", "l1", "l2", "poll"},version |-> 7]),
    ([emitting |-> {},pc |-> [k1 |-> "done", k2 |-> "done", k3 |-> "done", l1 |-> "done", l2 |-> "done", poll |-> "done", feed |-> "done"],holder |-> "none",writers |-> {},done |-> {"k1", "k2", "k3", "l1", "l2", "poll", "feed"},version |-> 7])
    >>
----


=============================================================================

---- CONFIG UIConc_TTrace_1790476198 ----
CONSTANTS
    Keys = { "k1" , "k2" , "k3" }
    Loads = { "l1" , "l2" }
    Variant = "fixed"

INVARIANT
    _inv

CHECK_DEADLOCK
    \* CHECK_DEADLOCK off because of PROPERTY or INVARIANT above.
    FALSE

INIT
    _init

NEXT
    _next

CONSTANT
    _TETrace <- _trace

ALIAS
    _expression
=============================================================================
\* Generated on Sun Sep 27 02:30:01 UTC 2026