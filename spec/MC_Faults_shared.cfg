SPECIFICATION Spec
CONSTANTS
  Hops = 1
  Variant = "shared"
  TicksPerT = 3
  BodyUnits = 4
INVARIANTS NoPartialDoc NeverUnwatched
CONSTRAINT Bound
CHECK_DEADLOCK FALSE
