----------------------------- MODULE SelectBest -----------------------------
(* pub.SelectBestLink (pub/link.go) transcribed: which of several links (renditions of a picture,
   a video in several sizes ...) is chosen for display / external opening.  Not one of the listed
   properties; part of the growing specification (DESIGN section 10).  The case analysis is rich:
   supertype match x rating (height x width, absent = 1) x error precedence.

   A link is [mt, h, w]:  mt \in {"absent", "bad", "match", "other"}   (mediaType vs the wanted supertype)
                          h, w \in {"absent", "bad", "1", "2", "3"}
   Outcome: [t |-> "pick", i |-> index] | [t |-> "err", field |-> "mt" | "dim" | "empty"]              *)
EXTENDS Integers, Sequences, FiniteSets, TLC

Dim(d) == CASE d = "absent" -> 1 [] d = "1" -> 1 [] d = "2" -> 2 [] d = "3" -> 3 [] OTHER -> 1
Rating(l) == IF l.h = "bad" \/ l.w = "bad" THEN -1 ELSE Dim(l.h) * Dim(l.w)
Pick(i) == [t |-> "pick", i |-> i, field |-> "none"]
Err(f) == [t |-> "err", i |-> 0, field |-> f]

(* the loop of SelectBestLink: best index so far, or an error that ends it *)
RECURSIVE Loop(_, _, _)
Loop(links, best, k) ==
    IF k > Len(links) THEN Pick(best)
    ELSE LET b == links[best] t == links[k] IN
         IF b.mt = "bad" \/ t.mt = "bad" THEN Err("mt")
         ELSE LET bm == b.mt = "match" tm == t.mt = "match" IN
              IF tm /\ ~bm THEN Loop(links, k, k + 1)
              ELSE IF ~tm /\ bm THEN Loop(links, best, k + 1)
              ELSE IF Rating(t) = -1 \/ Rating(b) = -1 THEN Err("dim")
              ELSE IF Rating(t) > Rating(b) THEN Loop(links, k, k + 1) ELSE Loop(links, best, k + 1)
SelectM(links) == IF links = <<>> THEN Err("empty") ELSE Loop(links, 1, 2)

(* what one would want of the choice, when nothing is malformed: a link of the wanted supertype if there is
   one, among those the best rated, the earliest among equals *)
Clean(links) == \A i \in 1..Len(links) : links[i].mt # "bad" /\ links[i].h # "bad" /\ links[i].w # "bad"
Wanted(links) == LET cand == IF \E i \in 1..Len(links) : links[i].mt = "match"
                             THEN {i \in 1..Len(links) : links[i].mt = "match"} ELSE 1..Len(links)
                     top == {i \in cand : \A j \in cand : Rating(links[i]) >= Rating(links[j])}
                 IN CHOOSE i \in top : \A j \in top : i <= j
BestWhenClean(links) == (links # <<>> /\ Clean(links)) => SelectM(links) = Pick(Wanted(links))
=============================================================================
