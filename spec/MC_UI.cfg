SPECIFICATION Spec
CONSTANTS
  World = "w1"
  MaxPages = 3
  MaxBuf = 2
  GenDepth = 0
INVARIANT WellFormed
PROPERTY HistoryDiscipline
CONSTRAINT Bound
VIEW View
CHECK_DEADLOCK FALSE
