------------------------------- MODULE Layout -------------------------------
(* Styled terminal text as sequences of cells, and servitor's layout helpers (ansi/ansi.go).

   A cell is a record [k, c, s, r]:  k \in {"g","sp","nl"} (visible glyph, non-newline whitespace,
   newline), c the character (opaque), s the sequence of SGR parameter strings in front of it,
   r whether it is followed by the reset ESC[0m.   Text = Seq(Cell).  A line break may carry styling
   like any other character; what counts of it is that it is a line break (kind "nl").

   Two layers:
     *Requirements*  (WrapOK, DumbWrapOK, PadOK, IndentOK, SnipOK, SetLengthOK, CenterOK, ApplyOK):
                     what C13 / C14 / C16 demand, clause by clause.  T_Layout evaluates these on
                     input/output pairs recorded from the real functions.
     *Algorithms*    (WrapAlg, DumbWrapAlg, PadAlg, IndentAlg, SnipAlg, CenterAlg, ApplyAlg):
                     the helpers transcribed as coded.  MC_Layout checks Algorithm => Requirement for
                     every input up to a bound, which shows the requirements are not stricter than
                     the design and exposes design-level defects as candidates.                     *)
EXTENDS Integers, Sequences, FiniteSets, SequencesExt

IsNl(c)  == c.k = "nl"
IsVis(c) == c.k = "g"
NotNl(c) == c.k # "nl"
NlCell   == [k |-> "nl", c |-> "\n", s |-> <<>>, r |-> FALSE]
SpCell   == [k |-> "sp", c |-> " ", s |-> <<>>, r |-> FALSE]
Plain(ch) == [k |-> "g", c |-> ch, s |-> <<>>, r |-> FALSE]

Vis(t)   == SelectSeq(t, IsVis)
NoNl(t)  == SelectSeq(t, NotNl)
MaxOf(a, b) == IF a > b THEN a ELSE b
MinOf(a, b) == IF a < b THEN a ELSE b

(* text -> sequence of lines (a text without newline is one line, "" is one empty line) *)
Lines(t) == FoldLeft(LAMBDA acc, c : IF IsNl(c) THEN Append(acc, <<>>)
                                      ELSE [acc EXCEPT ![Len(acc)] = Append(@, c)],
                     << <<>> >>, t)
(* sequence of lines -> text *)
Join(ls) == IF ls = <<>> THEN <<>>
            ELSE FoldLeft(LAMBDA acc, ln : acc \o <<NlCell>> \o ln, ls[1], Tail(ls))
(* the same with the line breaks of an original text (its i-th line break between line i and i+1) *)
Nls(t) == SelectSeq(t, IsNl)
JoinWith(ls, nls) == IF ls = <<>> THEN <<>>
                     ELSE FoldLeft(LAMBDA acc, i : acc \o <<nls[i - 1]>> \o ls[i], ls[1], [i \in 1..(Len(ls) - 1) |-> i + 1])
Spaces(n) == [i \in 1..n |-> SpCell]
IsPrefixOf(p, t) == Len(p) <= Len(t) /\ p = SubSeq(t, 1, Len(p))

(* separator after the k-th visible cell: 0 none, 1 only spaces, 2 contains a newline *)
Seps(t) == FoldLeft(LAMBDA acc, c :
                      IF IsVis(c) THEN Append(acc, 0)
                      ELSE IF acc = <<>> THEN acc
                      ELSE [acc EXCEPT ![Len(acc)] = MaxOf(@, IF IsNl(c) THEN 2 ELSE 1)],
                    <<>>, t)
WordStart(sep, k) == CHOOSE j \in 1..k : /\ (j = 1 \/ sep[j - 1] # 0)
                                         /\ \A i \in j..(k - 1) : sep[i] = 0
WordEnd(sep, k)   == CHOOSE j \in k..Len(sep) : /\ (j = Len(sep) \/ sep[j] # 0)
                                                /\ \A i \in k..(j - 1) : sep[i] = 0
WordLen(sep, k)   == WordEnd(sep, k) - WordStart(sep, k) + 1

\* ------------------------------------------------------------------ Requirements (C13)
LinesWithin(t, w) == \A ln \in Range(Lines(t)) : Len(ln) <= w

WrapOK(in, w, out) ==
    LET si == Seps(in) so == Seps(out) n == Len(si) IN
    /\ LinesWithin(out, w)                                   \* at most w visible characters per line
    /\ Vis(out) = Vis(in)                                    \* every non-whitespace cell, styled, in order
    /\ \A k \in 1..(n - 1) :
         /\ si[k] = 2 => so[k] = 2                           \* a separating line break is never removed
         /\ (si[k] = 0 /\ so[k] # 0) => WordLen(si, k) > w   \* break inside a word only if it cannot fit

(* hard wrap: every input line of n cells becomes chunks of exactly w cells, the last one 1..w
   (an empty line stays one empty line); nothing but newlines is inserted, nothing removed *)
Chunks(ln, w) == IF ln = <<>> THEN << <<>> >>
                 ELSE [i \in 1..((Len(ln) + w - 1) \div w) |->
                         SubSeq(ln, (i - 1) * w + 1, MinOf(i * w, Len(ln)))]
DumbWrapOK(in, w, out) ==
    out = Join(FoldLeft(LAMBDA acc, ln : acc \o Chunks(ln, w), <<>>, Lines(in)))

PadOK(in, n, out) ==
    LET li == Lines(in) lo == Lines(out) IN
    /\ Len(lo) = Len(li)
    /\ \A i \in 1..Len(li) : lo[i] = li[i] \o Spaces(MaxOf(0, n - Len(li[i])))

IndentOK(in, prefix, first, out) ==
    LET li == Lines(in) lo == Lines(out) IN
    /\ Len(lo) = Len(li)
    /\ \A i \in 1..Len(li) : lo[i] = (IF i > 1 \/ first THEN prefix ELSE <<>>) \o li[i]

(* snipping (precondition: input lines within w, h >= 1, ellipsis is a single cell):
   at most h lines, each within w, a prefix of the input - plus the ellipsis whenever something was cut *)
SnipOK(in, w, h, ell, out) ==
    /\ Len(Lines(out)) <= h
    /\ LinesWithin(out, w)
    /\ \/ out = in
       \/ /\ out # <<>> /\ Last(out) = ell
          /\ IsPrefixOf(Front(out), in)

(* one line of exactly n cells: the squashed text, or its prefix plus the ellipsis, or space padded *)
SetLengthOK(in, n, ell, out) ==
    /\ Len(out) = n /\ \A i \in 1..n : ~IsNl(out[i])
    /\ LET sq == [i \in 1..Len(in) |-> IF IsNl(in[i]) THEN SpCell ELSE in[i]] IN
       IF Len(sq) > n THEN n >= 1 => (SubSeq(out, 1, n - 1) = SubSeq(sq, 1, n - 1) /\ out[n] = ell)
       ELSE out = sq \o Spaces(n - Len(sq))

(* styling (C14): every non-newline cell gets the style in front of its own codes and a reset,
   newlines stay bare *)
ApplyOK(in, st, out) ==
    /\ Len(out) = Len(in)
    /\ \A i \in 1..Len(in) :
         IF IsNl(in[i]) THEN out[i] = NlCell
         ELSE \/ out[i] = [in[i] EXCEPT !.s = <<st>> \o @, !.r = TRUE]
              \* a style the cell already carries need not be repeated: attributes are idempotent and an
              \* inner colour overrides an outer one, so what the terminal shows is the same (Term.tla)
              \/ (st \in Range(in[i].s) /\ out[i] = [in[i] EXCEPT !.r = TRUE])

\* ------------------------------------------------------------------ Requirement (C16)
(* vertical centring works on lines; here a "text" is a sequence of line labels.
   pre/cen/suf are sequences of lines (at least one line each: the empty string is one empty line).
   Blank is the label of an empty line.                                                          *)
Blank == "_"
CenterOK(pre, cen, suf, h, out) ==
    LET c == Len(cen) IN
    /\ Len(out) = h                                                   \* exactly as tall as the terminal
    /\ IF h <= c THEN out = SubSeq(cen, 1, h)                         \* taller block: its first h lines
       ELSE \E top \in {(h - c) \div 2, (h - c + 1) \div 2} :         \* block starts after floor/ceil of spare/2
              LET bot == h - c - top IN
              /\ SubSeq(out, top + 1, top + c) = cen
              \* above: the last lines of the prefix, blank-padded outwards
              /\ \A i \in 1..top :
                    LET j == Len(pre) - top + i IN out[i] = IF j >= 1 THEN pre[j] ELSE Blank
              \* below: the first lines of the suffix, blank-padded outwards
              /\ \A i \in 1..bot :
                    out[top + c + i] = IF i <= Len(suf) THEN suf[i] ELSE Blank

(* replacing the last line keeps the line count (the status line of C16) *)
ReplaceLastOK(orig, repl, out) ==
    /\ Len(out) = Len(orig)
    /\ SubSeq(out, 1, Len(out) - 1) = SubSeq(orig, 1, Len(orig) - 1)
    /\ Last(out) = repl

\* ------------------------------------------------------------------ Algorithms, as coded
WEmpty == [res |-> <<>>, line |-> <<>>, space |-> <<>>, word |-> <<>>]
WrapStep(st, c, w) ==
    IF IsVis(c) THEN
        LET s1 == IF Len(st.word) = w THEN [WEmpty EXCEPT !.res = Append(st.res, st.word)] ELSE st
            s2 == IF Len(s1.line) + Len(s1.space) + Len(s1.word) >= w
                  THEN [s1 EXCEPT !.res = Append(s1.res, s1.line), !.line = <<>>, !.space = <<>>]
                  ELSE s1
        IN [s2 EXCEPT !.word = Append(s2.word, c)]
    ELSE
        LET s1 == IF st.word # <<>>
                  THEN [st EXCEPT !.line = st.line \o st.space \o st.word, !.space = <<>>, !.word = <<>>]
                  ELSE st IN
        IF IsNl(c) THEN
            LET ln == IF Len(s1.line) + Len(s1.space) <= w THEN s1.line \o s1.space ELSE s1.line IN
            [WEmpty EXCEPT !.res = Append(s1.res, ln)]
        ELSE [s1 EXCEPT !.space = Append(s1.space, c)]
WrapAlg(in, w) ==
    LET st == FoldLeft(LAMBDA acc, c : WrapStep(acc, c, w), WEmpty, in)
        ln == IF st.word # <<>> THEN st.line \o st.space \o st.word ELSE st.line
        res == IF ln # <<>> \/ (in # <<>> /\ IsNl(Last(in))) THEN Append(st.res, ln) ELSE st.res
    IN Join(res)

DumbWrapAlg(in, w) ==
    LET st == FoldLeft(LAMBDA acc, c :
                 IF IsNl(c) THEN [out |-> Append(acc.out, NlCell), n |-> 0]       \* a line break is written bare, whatever styling it came with
                 ELSE IF acc.n = w THEN [out |-> acc.out \o <<NlCell, c>>, n |-> 1]
                 ELSE [out |-> Append(acc.out, c), n |-> acc.n + 1],
               [out |-> <<>>, n |-> 0], in)
    IN st.out

PadAlg(in, n) ==
    LET st == FoldLeft(LAMBDA acc, c :
                 IF IsNl(c) THEN [out |-> acc.out \o Spaces(MaxOf(0, n - acc.n)) \o <<NlCell>>, n |-> 0]
                 ELSE [out |-> Append(acc.out, c), n |-> acc.n + 1],
               [out |-> <<>>, n |-> 0], in)
    IN st.out \o Spaces(MaxOf(0, n - st.n))

IndentAlg(in, prefix, first) ==
    FoldLeft(LAMBDA acc, c : IF IsNl(c) THEN acc \o <<NlCell>> \o prefix ELSE Append(acc, c),
             IF first THEN prefix ELSE <<>>, in)

OnlyWs(ln) == \A i \in 1..Len(ln) : ~IsVis(ln[i])
SnipAlg(in, w, h, ell) ==
    LET ls == Lines(in)
        hh == MinOf(h, Len(ls))
        cut0 == Len(ls) > h
        \* back to front: skip trailing whitespace-only lines among the first hh
        keep == IF \E i \in 1..hh : ~OnlyWs(ls[i])
                THEN CHOOSE i \in 1..hh : ~OnlyWs(ls[i]) /\ \A j \in (i + 1)..hh : OnlyWs(ls[j])
                ELSE 0
        cut == cut0 \/ keep < hh
        kept == [i \in 1..keep |-> IF i = keep /\ Len(ls[i]) = w /\ cut THEN Front(ls[i]) ELSE ls[i]]
    IN JoinWith(kept, Nls(in)) \o (IF cut THEN <<ell>> ELSE <<>>)      \* Snip cuts the text as it is: line breaks keep their styling

(* CenterVertically on line sequences (Height("") = 1: pre/suf always have at least one line) *)
CenterAlgPinned(pre, cen, suf, h) ==      \* as on the pinned tree: "" prefix still contributes a line
    LET c == Len(cen) IN
    IF h <= c THEN SubSeq(cen, 1, h)
    ELSE LET total == h - c top == total \div 2 bot == top + (total % 2)
             p == IF top > Len(pre) THEN [i \in 1..(top - Len(pre)) |-> Blank] \o pre
                  ELSE IF top < Len(pre) THEN
                         (IF top = 0 THEN <<Blank>> ELSE SubSeq(pre, Len(pre) - top + 1, Len(pre)))
                  ELSE pre
             s == IF bot > Len(suf) THEN suf \o [i \in 1..(bot - Len(suf)) |-> Blank]
                  ELSE IF bot < Len(suf) THEN
                         (IF bot = 0 THEN <<Blank>> ELSE SubSeq(suf, 1, bot))
                  ELSE suf
         IN p \o cen \o s
CenterAlg(pre, cen, suf, h) ==            \* after the fix: an empty buffer contributes no line
    LET c == Len(cen) IN
    IF h <= c THEN SubSeq(cen, 1, h)
    ELSE LET total == h - c top == total \div 2 bot == top + (total % 2)
             p == IF top > Len(pre) THEN [i \in 1..(top - Len(pre)) |-> Blank] \o pre
                  ELSE SubSeq(pre, Len(pre) - top + 1, Len(pre))
             s == IF bot > Len(suf) THEN suf \o [i \in 1..(bot - Len(suf)) |-> Blank]
                  ELSE SubSeq(suf, 1, bot)
         IN p \o cen \o s

ApplyAlg(in, st) ==
    [i \in 1..Len(in) |-> IF IsNl(in[i]) THEN NlCell
                           ELSE IF st \in Range(in[i].s) THEN [in[i] EXCEPT !.r = TRUE]
                           ELSE [in[i] EXCEPT !.s = <<st>> \o @, !.r = TRUE]]
=============================================================================
