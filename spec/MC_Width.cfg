SPECIFICATION Spec
CONSTANTS
  Variant = "fixed"
  MaxDepth = 95
  Cells = 12
INVARIANTS NoBadArgument SizePolynomial
CHECK_DEADLOCK FALSE
