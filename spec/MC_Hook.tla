------------------------------- MODULE MC_Hook -------------------------------
(* Every hook configuration of up to MaxArgs arguments over the argument alphabet (each placeholder, a
   literal, a placeholder embedded in a longer argument, a wrongly cased placeholder, the empty string)
   x link classes (ordinary, looks like a placeholder) : the substitution as coded satisfies HookOK. *)
EXTENDS Hook, TLC, Json
CONSTANTS MaxArgs, Variant, GenOn
VARIABLES hook, link
Args == {"%url", "%mimetype", "%supertype", "%subtype", "-x", "--u=%url", "%URL", "", "%urls", "x%mimetype",
         \* white space belongs to an argument: nothing is trimmed, and a padded placeholder is no placeholder
         " %url", "%url ", "%s\n", "--prefix= ", "\t%mimetype"}
Links == {"https://h/x", "%mimetype", "%url"}
Mt == [essence |-> "video/mp4", supertype |-> "video", subtype |-> "mp4"]
Init == /\ hook \in UNION {{<<p>> \o s : s \in [1..n -> Args], p \in {"prog", "%url"}} : n \in 0..MaxArgs} /\ link \in Links
Next == UNCHANGED <<hook, link>>
Spec == Init /\ [][Next]_<<hook, link>>
Holds == HookOK(hook, link, Mt, SubstM(Variant, hook, link, Mt), IF UsesUrl(hook) THEN "" ELSE link)
GenEmit == (GenOn /\ link = "https://h/x" /\ hook[1] = "prog") => PrintT("GEN " \o ToJson(Tail(hook)))
=============================================================================
