SPECIFICATION Spec
CONSTANTS
  MaxLen = 5
  MaxW = 1
  MaxH = 1
  Fn = "gen"
CONSTRAINT GenEmit
CHECK_DEADLOCK FALSE
