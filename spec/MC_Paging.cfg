SPECIFICATION Spec
CONSTANTS
  Variant = "fixed"
  MaxPages = 3
  MaxItems = 2
  MaxN = 2
  MaxCalls = 3
  GenOn = FALSE
  Shape = "any"
INVARIANTS Holds Bounded
CHECK_DEADLOCK FALSE
