-------------------------------- MODULE Fetch --------------------------------
(* servitor's fetcher (jtp/jtp.go Get + its LRU cache; client.FetchURL / ResolveWebfinger call it with
   budget 20) over an abstract world of URLs.

   A world W maps URL ids to responses
        [status : Int, ct : Seq(ContentTypeClass), body : BodyClass, loc : URL id or "", doc : token]
   (status 0 = malformed status line; status -1 = the URL is not https and is never dialled).  URL ids
   outside DOMAIN W are unknown paths (the server answers 404).

   Reference:  Fresh(W, u, kind, b)  - what a fetch must return, by the statement of C03, with an empty
               cache.  C03 demands that EVERY fetch in EVERY history returns exactly this.
   Model:      GetM(W, cache, u, kind, b) - jtp.Get as coded, cache included, parameterised by Variant:
               "pinned" = the tree as first received (cache keyed by URL only, outcomes of redirects -
               errors included - stored under the redirecting URL, hits ignore the remaining budget);
               "fixed"  = the current tree (key includes the request kind, only successes are cached,
               an entry remembers how many redirects it took and is ignored when the budget is smaller). *)
EXTENDS Integers, Sequences, FiniteSets, SequencesExt

Kinds == {"activity", "webfinger", "narrow"}     \* narrow: one bare type is asked for and another is the only one tolerated
Tolerated(kind) == IF kind = "activity" THEN {"activity", "ld", "json"} ELSE IF kind = "narrow" THEN {"json"} ELSE {"jrd", "json"}

Err == [ok |-> FALSE, doc |-> "none", src |-> "none"]
Ok(d, u) == [ok |-> TRUE, doc |-> d, src |-> u]

IsRedirect(r) == r.status \in 300..399
GoodStatus(r) == r.status \in 200..203
(* every declared content type tolerated, at least one declared *)
GoodTypes(r, kind) == r.ct # <<>> /\ \A i \in 1..Len(r.ct) : r.ct[i] \in Tolerated(kind)
(* a tolerated and a foreign type declared together: a foreign content type is declared, so this is an error
   like any other (every declared type has to be tolerated) *)
MixedTypes(r, kind) == /\ \E i \in 1..Len(r.ct) : r.ct[i] \in Tolerated(kind)
                       /\ \E i \in 1..Len(r.ct) : r.ct[i] \notin Tolerated(kind)
Good(r, kind) == GoodStatus(r) /\ GoodTypes(r, kind) /\ r.body = "obj"

\* ------------------------------------------------------------------ reference
RECURSIVE Fresh(_, _, _, _)
Fresh(W, u, kind, b) ==
    IF u \notin DOMAIN W THEN Err
    ELSE LET r == W[u] IN
         IF IsRedirect(r) THEN (IF r.loc = "" \/ b = 0 THEN Err ELSE Fresh(W, r.loc, kind, b - 1))
         ELSE IF Good(r, kind) THEN Ok(r.doc, u) ELSE Err

(* the URLs a fetch may contact, in order: one per hop, at most b + 1 *)
NonHttps(W, u) == u \in DOMAIN W /\ W[u].status = -1
RECURSIVE Chain(_, _, _)
Chain(W, u, b) ==
    IF u \notin DOMAIN W THEN <<u>>
    ELSE IF NonHttps(W, u) THEN <<>>
    ELSE IF IsRedirect(W[u]) /\ W[u].loc # "" /\ b > 0 THEN <<u>> \o Chain(W, W[u].loc, b - 1)
    ELSE <<u>>

(* is the outcome of a fetch undetermined by the statement (mixed content types on the final hop)? *)
RECURSIVE Unsettled(_, _, _, _)
Unsettled(W, u, kind, b) ==
    IF u \notin DOMAIN W THEN FALSE
    ELSE LET r == W[u] IN
         IF IsRedirect(r) THEN (r.loc # "" /\ b > 0 /\ Unsettled(W, r.loc, kind, b - 1))
         ELSE GoodStatus(r) /\ MixedTypes(r, kind) /\ r.body = "obj"

(* s is a subsequence of t (greedy matching; linear, chains may be long) *)
RECURSIVE SubseqFrom(_, _, _, _)
SubseqFrom(s, t, i, j) == IF i > Len(s) THEN TRUE
                          ELSE IF j > Len(t) THEN FALSE
                          ELSE IF s[i] = t[j] THEN SubseqFrom(s, t, i + 1, j + 1)
                          ELSE SubseqFrom(s, t, i, j + 1)
IsSubseq(s, t) == SubseqFrom(s, t, 1, 1)

(* the fragment of the reported source: the one asked for when the first response is final, none after a
   redirect (the Locations of these worlds carry no fragment; none is inherited) *)
SrcFrag(W, u, frag) == IF u \in DOMAIN W /\ IsRedirect(W[u]) THEN "" ELSE frag

(* what C03 demands of one observed fetch: result and requests *)
FetchOK(W, u, kind, b, res, reqs) ==
    /\ res = Fresh(W, u, kind, b)
    /\ Len(reqs) <= b + 1
    /\ IsSubseq(reqs, Chain(W, u, b))

\* ------------------------------------------------------------------ the cache (LRU, most recent last)
Lookup(c, key) == IF \E i \in 1..Len(c) : c[i].key = key
                  THEN LET i == CHOOSE i \in 1..Len(c) : c[i].key = key IN [found |-> TRUE, e |-> c[i], i |-> i]
                  ELSE [found |-> FALSE, e |-> [key |-> key, res |-> Err, hops |-> 0], i |-> 0]
Without(c, key) == SelectSeq(c, LAMBDA e : e.key # key)
Touch(c, key) == LET l == Lookup(c, key) IN IF l.found THEN Append(Without(c, key), l.e) ELSE c
Add(c, cap, e) == LET c2 == Append(Without(c, e.key), e) IN
                  IF Len(c2) > cap THEN Tail(c2) ELSE c2

\* ------------------------------------------------------------------ jtp.Get as coded
(* the key is the address as written, fragment included (frag = "" for the hops of a chain) *)
Key(variant, kind, u, frag) == IF variant = "pinned" THEN <<u, frag>> ELSE <<kind, u, frag>>
Usable(variant, e, b) == variant = "pinned" \/ e.hops <= b

RECURSIVE GetF(_, _, _, _, _, _, _, _)
GetF(variant, W, cap, c, u, kind, b, frag) ==
    LET key == Key(variant, kind, u, frag) hit == Lookup(c, key) IN
    IF hit.found /\ Usable(variant, hit.e, b)
    THEN [res |-> hit.e.res, hops |-> hit.e.hops, cache |-> Touch(c, key), reqs |-> <<>>]
    ELSE IF u \notin DOMAIN W
    THEN [res |-> Err, hops |-> 0, cache |-> c, reqs |-> <<u>>]
    ELSE IF NonHttps(W, u)
    THEN [res |-> Err, hops |-> 0, cache |-> c, reqs |-> <<>>]
    ELSE LET r == W[u] IN
      IF IsRedirect(r) THEN
          IF r.loc = "" \/ b = 0 THEN [res |-> Err, hops |-> 0, cache |-> c, reqs |-> <<u>>]
          ELSE LET sub == GetF(variant, W, cap, c, r.loc, kind, b - 1, "")
                   e == [key |-> key, res |-> sub.res, hops |-> sub.hops + 1]
                   c2 == IF variant = "pinned" \/ sub.res.ok THEN Add(sub.cache, cap, e) ELSE sub.cache
               IN [res |-> sub.res, hops |-> sub.hops + 1, cache |-> c2, reqs |-> <<u>> \o sub.reqs]
      ELSE IF Good(r, kind)
          THEN [res |-> Ok(r.doc, u), hops |-> 0,
                cache |-> Add(c, cap, [key |-> key, res |-> Ok(r.doc, u), hops |-> 0]), reqs |-> <<u>>]
      ELSE [res |-> Err, hops |-> 0, cache |-> c, reqs |-> <<u>>]
GetM(variant, W, cap, c, u, kind, b) == GetF(variant, W, cap, c, u, kind, b, "")
=============================================================================
