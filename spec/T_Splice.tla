------------------------------ MODULE T_Splice ------------------------------
(* Trace specification for C11: a session is a set of sources (reset line) and a tree of Harvest calls on
   the real splicer.Splicer, each made - as the UI does - on a continuation that was returned non-nil.
   The spec tracks the merged-sequence position every continuation stands at and accepts a call iff
   CallOK of Splice.tla holds.                                                                        *)
EXTENDS Splice, TLC, Json
Log == ndJsonDeserialize("trace.ndjson")
VARIABLES l, sid, skip, bad, srcs, ats
vars == <<l, sid, skip, bad, srcs, ats>>

Init == l = 1 /\ sid = 0 /\ skip = FALSE /\ bad = <<>> /\ srcs = <<>> /\ ats = <<0>>
Items(e) == [i \in 1..Len(e.items) |-> [s |-> e.items[i][1], k |-> e.items[i][2], ts |-> e.items[i][3]]]
Step == /\ l <= Len(Log) /\ l' = l + 1
        /\ LET e == Log[l] IN
           CASE e.ev = "reset" ->
                  /\ sid' = e.sid /\ skip' = FALSE /\ ats' = <<0>> /\ UNCHANGED bad
                  /\ srcs' = [i \in 1..Len(e.sources) |-> [k \in 1..Len(e.sources[i]) |-> [s |-> i, k |-> k, ts |-> e.sources[i][k]]]]
             [] e.ev = "call" /\ ~skip ->
                  IF ~e.panic /\ CallOK(srcs, ats[e.on], e.q, e.start, Items(e), e.done)
                  THEN /\ ats' = IF e.done THEN ats ELSE Append(ats, ats[e.on] + e.start + Len(e.items))
                       /\ UNCHANGED <<sid, skip, bad, srcs>>
                  ELSE /\ bad' = Append(bad, [sid |-> sid, line |-> l,
                                              why |-> IF e.panic THEN "panic" ELSE "call does not return the next items of the newest-first merge"])
                       /\ skip' = TRUE /\ UNCHANGED <<sid, srcs, ats>>
             [] OTHER -> UNCHANGED <<sid, skip, bad, srcs, ats>>
Spec == Init /\ [][Step]_vars
Done == (l = Len(Log) + 1) => PrintT("VERDICT " \o ToJson([consumed |-> l - 1, bad |-> bad]))
=============================================================================
