------------------------------ MODULE Sanitize ------------------------------
(* Data flow of remote text to the terminal (C01).

   A character token [class, enc] enters at a source and passes the stages of that source's pipeline:
     class \in {print, nl, tab, c0, esc, del, c1}
     enc   \in {raw      - the character itself (in JSON: an escape the JSON decoder already resolved),
                htmlref  - an HTML character reference (&#27; &#x9b;),
                pct      - percent-encoded inside a URL,
                netraw   - a raw byte of an HTTP status or header line}
   Decoders turn an encoding into raw; scrubbers delete raw control characters (tab becomes spaces,
   newline stays).  At the sink a token is harmful iff it is raw and neither printable nor a newline.
   Invariant (SinkClean): on every path, every decoder is followed by a scrubber before the sink.

   Pipelines are the data flow of the tree: Variant "pinned" is the tree as first received (only
   GetString and SetLength scrub), "fixed" the current one (scrubbing also where HTML text and
   attributes are read, where errors are shown, and where a URL's host is displayed).               *)
EXTENDS Integers, Sequences, FiniteSets, TLC

Classes == {"print", "nl", "tab", "c0", "esc", "del", "c1"}
Encs == {"raw", "htmlref", "pct", "netraw"}
Ctl(c) == c \in {"c0", "esc", "del", "c1"}
Gone == [class |-> "print", enc |-> "gone"]

Stage(name, tok) ==
    IF tok.enc = "gone" THEN tok
    ELSE CASE name \in {"Scrub", "TextScrub", "AttrScrub", "HostScrub", "ProblemScrub", "SetLength"} ->
                  IF tok.enc = "raw" /\ Ctl(tok.class) THEN Gone
                  ELSE IF tok.enc = "raw" /\ tok.class = "tab" THEN [tok EXCEPT !.class = "print"]
                  ELSE IF tok.enc = "raw" /\ tok.class = "nl" /\ name = "SetLength" THEN [tok EXCEPT !.class = "print"]
                  ELSE tok
           [] name = "HtmlParse"   -> IF tok.enc = "htmlref" THEN [tok EXCEPT !.enc = "raw"] ELSE tok
           [] name = "Markdown"    -> tok                      \* goldmark passes references through to the HTML it emits
           [] name = "UrlHost"     -> IF tok.enc = "pct" THEN (IF tok.class = "c1" THEN [tok EXCEPT !.enc = "raw"] ELSE Gone) ELSE tok
                                      \* net/url accepts percent-escapes in a host only for non-ASCII bytes
           [] name = "UrlString"   -> IF tok.enc = "raw" /\ tok.class # "print" THEN [tok EXCEPT !.enc = "pct"] ELSE tok
           [] name = "ErrorWrap"   -> IF tok.enc = "netraw" THEN [tok EXCEPT !.enc = "raw"] ELSE tok
           [] OTHER                -> tok

Pipelines(variant) ==
    LET fixed == variant = "fixed" IN
    [ json_field   |-> <<"Scrub">>,
      html_text    |-> <<"Scrub", "HtmlParse">> \o (IF fixed THEN <<"TextScrub">> ELSE <<>>),
      html_attr    |-> <<"Scrub", "HtmlParse">> \o (IF fixed THEN <<"AttrScrub">> ELSE <<>>),
      markdown     |-> <<"Scrub", "Markdown", "HtmlParse">> \o (IF fixed THEN <<"TextScrub">> ELSE <<>>),
      gemtext      |-> <<"Scrub">>,
      plaintext    |-> <<"Scrub">>,
      link_url     |-> <<"Scrub", "UrlHost", "UrlString">>,
      id_host      |-> <<"Scrub", "UrlHost">> \o (IF fixed THEN <<"HostScrub">> ELSE <<>>),
      status_line  |-> <<"ErrorWrap">> \o (IF fixed THEN <<"ProblemScrub">> ELSE <<>>),
      header_value |-> <<"ErrorWrap">> \o (IF fixed THEN <<"ProblemScrub">> ELSE <<>>),
      location_host|-> <<"UrlHost", "ErrorWrap">> \o (IF fixed THEN <<"ProblemScrub">> ELSE <<>>),
      \* the same three kinds of fetch error shown not as an item of their own (a Failure) but inline by
      \* the item that wanted the document: Activity.header (actor), Actor.footer (outbox); both call
      \* style.Problem directly
      status_line_inline  |-> <<"ErrorWrap">> \o (IF fixed THEN <<"ProblemScrub">> ELSE <<>>),
      header_value_inline |-> <<"ErrorWrap">> \o (IF fixed THEN <<"ProblemScrub">> ELSE <<>>),
      location_host_inline|-> <<"UrlHost", "ErrorWrap">> \o (IF fixed THEN <<"ProblemScrub">> ELSE <<>>),
      field_error  |-> <<"Scrub", "ErrorWrap">> \o (IF fixed THEN <<"ProblemScrub">> ELSE <<>>),
      hook_output  |-> <<"SetLength">>,
      typed_text   |-> <<"SetLength">> ]
Sources == DOMAIN Pipelines("fixed")

RECURSIVE Run(_, _)
Run(stages, tok) == IF stages = <<>> THEN tok ELSE Run(Tail(stages), Stage(Head(stages), tok))
AtSink(variant, src, tok) == Run(Pipelines(variant)[src], tok)
Clean(tok) == tok.enc = "raw" => tok.class \in {"print", "nl"}
(* which (source, encoding) pairs can occur at all *)
NetSources == {"status_line", "header_value", "location_host",
               "status_line_inline", "header_value_inline", "location_host_inline"}
Expressible(src, enc) ==
    CASE enc = "raw"     -> src \notin NetSources
      [] enc = "htmlref" -> src \in {"html_text", "html_attr", "markdown", "json_field", "gemtext", "plaintext"}
      [] enc = "pct"     -> src \in {"link_url", "id_host", "location_host", "location_host_inline"}
      [] enc = "netraw"  -> src \in NetSources
=============================================================================
