------------------------------- MODULE Markup -------------------------------
(* Markup documents, link numbering and the per-object render cache
   (hypertext / markdown / gemtext / plaintext, pub.Post.String / SelectLink; C12, C15).

   A document is a sequence of trees.  Leaves: "txt" (a word) and "img" (media with a target: img, video,
   audio, iframe); further leaves without a number: "imgx" (media without a source: its text only), "hr",
   "br", "long" (a word longer than a line), "wide" (white space only, wider than a line, between line breaks).  Further inner nodes without a number: "ax" (anchor without
   href), "pre", "unk" (unknown element).  Inner nodes: "a" (hyperlink with a target), "sty" (inline style), "blk" (an indenting
   block: blockquote, list, heading).  Reading the rendering left to right yields *marks*: the words
   (tokens) and the superscript numbers.  Every link-bearing node owns exactly one number, printed after
   its own text (for "a": after its children).

   Numbering: the renderer appends targets to one list in document order (pre-order) and prints, next to
   each link-bearing node, "the" index.  Variant "pinned" prints for "a" the length of the list AFTER the
   children were rendered (the tree as first received: <a><img></a> shows the image's number twice);
   "fixed" prints the node's own index.                                                             *)
EXTENDS Integers, Sequences, FiniteSets, SequencesExt

Leaf(n) == n.t \in {"txt", "img"}
Bears(n) == n.t \in {"a", "img"}

(* marks of the rendering together with the owner (pre-order index among link-bearing nodes) of every
   number; st = [links |-> number of targets so far, marks |-> ...] *)
RECURSIVE RenderNode(_, _, _)
RenderSeq(variant, kids, st) == FoldLeft(LAMBDA acc, k : RenderNode(variant, k, acc), st, kids)
RenderNode(variant, n, st) ==
    CASE n.t = "txt" -> [st EXCEPT !.marks = Append(@, [t |-> "tok"])]
      [] n.t = "imgx" -> [st EXCEPT !.marks = Append(@, [t |-> "tok"])]
      [] n.t \in {"hr", "br", "long", "wide", "cmt"} -> st      \* "cmt": something that renders as nothing (a comment)
      [] n.t = "img" -> [links |-> st.links + 1,
                         marks |-> st.marks \o <<[t |-> "tok"], [t |-> "lab", n |-> st.links + 1, owner |-> st.links + 1]>>]
      [] n.t = "a"   -> LET own == st.links + 1
                            r == RenderSeq(variant, n.kids, [st EXCEPT !.links = own])
                        IN [r EXCEPT !.marks = Append(@, [t |-> "lab", n |-> IF variant = "pinned" THEN r.links ELSE own, owner |-> own])]
      [] OTHER       -> RenderSeq(variant, n.kids, st)
Render(variant, doc) == RenderSeq(variant, doc, [links |-> 0, marks |-> <<>>])

(* C12 on marks: the numbers shown are 1..N, each exactly once, and number k sits next to the k-th target *)
Labs(marks) == SelectSeq(marks, LAMBDA m : m.t = "lab")
NumberingOK(r) ==
    LET ls == Labs(r.marks) IN
    /\ Len(ls) = r.links
    /\ {ls[i].n : i \in 1..Len(ls)} = 1..r.links
    /\ \A i \in 1..Len(ls) : ls[i].n = ls[i].owner           \* typing k opens the target labelled k

(* C12 on an observation of the real renderer.
   marks : what was read off the rendered text: [t |-> "tok", id] and [t |-> "lab", n]
   expect: what the generator knows: the same reading order with, for every number, the target it belongs to
   sel   : sel[k + 2] = target opened by typing k, for k = -1 .. N + 2 ("none" = nothing)              *)
ObservedOK(marks, expect, sel) ==
    LET ls == Labs(marks) N == Len(ls) IN
    /\ Len(marks) = Len(expect)
    /\ \A i \in 1..Len(marks) : /\ marks[i].t = expect[i].t
                                /\ marks[i].t = "tok" => marks[i].id = expect[i].id
    /\ {ls[i].n : i \in 1..N} = 1..N                                        \* 1..N, no repeats, no gaps
    /\ \A i \in 1..Len(marks) : marks[i].t = "lab" =>
          /\ marks[i].n \in 1..N
          /\ sel[marks[i].n + 2] = expect[i].target                          \* the number opens its own target
    /\ sel[1] = "none" /\ sel[2] = "none" /\ sel[N + 3] = "none" /\ sel[N + 4] = "none"   \* -1, 0, N+1, N+2

\* ------------------------------------------------------------------ render cache (C15)
(* every markup object keeps the last rendering and its width; R(w) stands for the rendering at width w.
   Variants model the ways the cache can go wrong.                                                   *)
CacheInit(R) == [text |-> R[80], width |-> 80]
CacheRender(variant, R, c, w) ==
    CASE variant = "ok"        -> IF c.width = w THEN [out |-> c.text, c |-> c] ELSE [out |-> R[w], c |-> [text |-> R[w], width |-> w]]
      [] variant = "stale"     -> IF c.width = w THEN [out |-> c.text, c |-> c] ELSE [out |-> R[w], c |-> [text |-> R[w], width |-> c.width]]
      [] variant = "le"        -> IF w <= c.width THEN [out |-> c.text, c |-> c] ELSE [out |-> R[w], c |-> [text |-> R[w], width |-> w]]
=============================================================================
