SPECIFICATION Spec
CONSTANTS
  Family = "post_header"
  GenOn = TRUE
CONSTRAINT GenEmit
CHECK_DEADLOCK FALSE
