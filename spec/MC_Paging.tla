------------------------------ MODULE MC_Paging ------------------------------
(* All layouts up to MaxPages pages of up to MaxItems items with any next pointers (back edges, broken),
   all sequences of up to MaxCalls requests of sizes 0..MaxN: the session history always satisfies C10. *)
EXTENDS Paging, TLC, Json
CONSTANTS Variant, MaxPages, MaxItems, MaxN, MaxCalls, GenOn, Shape
VARIABLES pages, cont, calls
vars == <<pages, cont, calls>>

AnyLayouts == UNION {[1..k -> [n : 0..MaxItems, next : -1..k]] : k \in 1..MaxPages}
(* plain chains 1 -> 2 -> ... -> k (ending cleanly or broken), for deep layouts *)
ChainLayouts == UNION {{[p \in 1..k |-> [n |-> f[p], next |-> IF p < k THEN p + 1 ELSE e]] : f \in [1..k -> 0..MaxItems], e \in {0, -1}} : k \in 1..MaxPages}
Layouts == IF Shape = "chain" THEN ChainLayouts ELSE AnyLayouts
Init == pages \in Layouts /\ cont = <<1, 0>> /\ calls = <<>>
Request(n) == /\ cont # <<>> /\ Len(calls) < MaxCalls
              /\ LET r == HarvestM(Variant, pages, cont[1], cont[2], n, 0) IN
                 /\ calls' = Append(calls, [n |-> n, items |-> r.items, err |-> r.err, done |-> r.cont = <<>>, visits |-> r.visits])
                 /\ cont' = r.cont
              /\ UNCHANGED pages
Next == \E n \in 0..MaxN : Request(n)
Spec == Init /\ [][Next]_vars

Holds == HistoryOK(pages, calls)
Bounded == \A i \in 1..Len(calls) : calls[i].visits <= VisitBound(calls[i].n)
GenEmit == (GenOn /\ (cont = <<>> \/ Len(calls) = MaxCalls)) =>
              PrintT("GEN " \o ToJson([pages |-> pages, sizes |-> [i \in 1..Len(calls) |-> calls[i].n]]))
=============================================================================
