SPECIFICATION Spec
CONSTANTS
  MaxLen = 2
  GenOn = FALSE
INVARIANTS Best Total
CHECK_DEADLOCK FALSE
