---- MODULE Faults_TTrace_1790465566 ----
EXTENDS Faults, Sequences, TLCExt, Toolbox, Naturals, TLC

_expression ==
    LET Faults_TEExpression == INSTANCE Faults_TEExpression
    IN Faults_TEExpression!expression
----

_trace ==
    LET Faults_TETrace == INSTANCE Faults_TETrace
    IN Faults_TETrace!trace
----

_inv ==
    ~(
        TLCGet("level") = Len(_TETrace)
        /\
        result = ("pending")
        /\
        stage = ("status")
        /\
        lastByte = (19)
        /\
        left = (1)
        /\
        hop = (0)
        /\
        fault = ([hop |-> 0, stage |-> "status", kind |-> "trickle"])
        /\
        clock = (19)
        /\
        hopStart = (0)
        /\
        partial = (FALSE)
    )
----

_init ==
    /\ result = _TETrace[1].result
    /\ lastByte = _TETrace[1].lastByte
    /\ fault = _TETrace[1].fault
    /\ left = _TETrace[1].left
    /\ hopStart = _TETrace[1].hopStart
    /\ hop = _TETrace[1].hop
    /\ partial = _TETrace[1].partial
    /\ stage = _TETrace[1].stage
    /\ clock = _TETrace[1].clock
----

_next ==
    /\ \E i,j \in DOMAIN _TETrace:
        /\ \/ /\ j = i + 1
              /\ i = TLCGet("level")
        /\ result  = _TETrace[i].result
        /\ result' = _TETrace[j].result
        /\ lastByte  = _TETrace[i].lastByte
        /\ lastByte' = _TETrace[j].lastByte
        /\ fault  = _TETrace[i].fault
        /\ fault' = _TETrace[j].fault
        /\ left  = _TETrace[i].left
        /\ left' = _TETrace[j].left
        /\ hopStart  = _TETrace[i].hopStart
        /\ hopStart' = _TETrace[j].hopStart
        /\ hop  = _TETrace[i].hop
        /\ hop' = _TETrace[j].hop
        /\ partial  = _TETrace[i].partial
        /\ partial' = _TETrace[j].partial
        /\ stage  = _TETrace[i].stage
        /\ stage' = _TETrace[j].stage
        /\ clock  = _TETrace[i].clock
        /\ clock' = _TETrace[j].clock

\* Uncomment the ASSUME below to write the states of the error trace
\* to the given file in Json format. Note that you can pass any tuple
\* to `JsonSerialize`. For example, a sub-sequence of _TETrace.
    \* ASSUME
    \*     LET J == INSTANCE Json
    \*         IN J!JsonSerialize("Faults_TTrace_1790465566.json", _TETrace)

=============================================================================

 Note that you can extract this module `Faults_TEExpression`
  to a dedicated file to reuse `expression` (the module in the 
  dedicated `Faults_TEExpression.tla` file takes precedence 
  over the module `Faults_TEExpression` below).

---- MODULE Faults_TEExpression ----
EXTENDS Faults, Sequences, TLCExt, Toolbox, Naturals, TLC

expression == 
    [
        \* To hide variables of the `Faults` spec from the error trace,
        \* remove the variables below.  The trace will be written in the order
        \* of the fields of this record.
        result |-> result
        ,lastByte |-> lastByte
        ,fault |-> fault
        ,left |-> left
        ,hopStart |-> hopStart
        ,hop |-> hop
        ,partial |-> partial
        ,stage |-> stage
        ,clock |-> clock
        
        \* Put additional constant-, state-, and action-level expressions here:
        \* ,_stateNumber |-> _TEPosition
        \* ,_resultUnchanged |-> result = result'
        
        \* Format the `result` variable as Json value.
        \* ,_resultJson |->
        \*     LET J == INSTANCE Json
        \*     IN J!ToJson(result)
        
        \* Lastly, you may build expressions over arbitrary sets of states by
        \* leveraging the _TETrace operator.  For example, this is how to
        \* count the number of times a spec variable changed up to the current
        \* state in the trace.
        \* ,_resultModCount |->
        \*     LET F[s \in DOMAIN _TETrace] ==
        \*         IF s = 1 THEN 0
        \*         ELSE IF _TETrace[s].result # _TETrace[s-1].result
        \*             THEN 1 + F[s-1] ELSE F[s-1]
        \*     IN F[_TEPosition - 1]
    ]

=============================================================================



Parsing and semantic processing can take forever if the trace below is long.
 In this case, it is advised to uncomment the module below to deserialize the
 trace from a generated binary file.

\*
\*---- MODULE Faults_TETrace ----
\*EXTENDS Faults, IOUtils, TLC
\*
\*trace == IODeserialize("Faults_TTrace_1790465566.bin", TRUE)
\*
\*=============================================================================
\*

---- MODULE Faults_TETrace ----
EXTENDS Faults, TLC

trace == 
    <<
    ([result |-> "pending",stage |-> "dial",lastByte |-> 0,left |-> 20,hop |-> 0,fault |-> [hop |-> 0, stage |-> "status", kind |-> "trickle"],clock |-> 0,hopStart |-> 0,partial |-> FALSE]),
    ([result |-> "pending",stage |-> "handshake",lastByte |-> 0,left |-> 20,hop |-> 0,fault |-> [hop |-> 0, stage |-> "status", kind |-> "trickle"],clock |-> 0,hopStart |-> 0,partial |-> FALSE]),
    ([result |-> "pending",stage |-> "send",lastByte |-> 0,left |-> 20,hop |-> 0,fault |-> [hop |-> 0, stage |-> "status", kind |-> "trickle"],clock |-> 0,hopStart |-> 0,partial |-> FALSE]),
    ([result |-> "pending",stage |-> "status",lastByte |-> 0,left |-> 20,hop |-> 0,fault |-> [hop |-> 0, stage |-> "status", kind |-> "trickle"],clock |-> 0,hopStart |-> 0,partial |-> FALSE]),
    ([result |-> "pending",stage |-> "status",lastByte |-> 1,left |-> 19,hop |-> 0,fault |-> [hop |-> 0, stage |-> "status", kind |-> "trickle"],clock |-> 1,hopStart |-> 0,partial |-> FALSE]),
    ([result |-> "pending",stage |-> "status",lastByte |-> 2,left |-> 18,hop |-> 0,fault |-> [hop |-> 0, stage |-> "status", kind |-> "trickle"],clock |-> 2,hopStart |-> 0,partial |-> FALSE]),
    ([result |-> "pending",stage |-> "status",lastByte |-> 3,left |-> 17,hop |-> 0,fault |-> [hop |-> 0, stage |-> "status", kind |-> "trickle"],clock |-> 3,hopStart |-> 0,partial |-> FALSE]),
    ([result |-> "pending",stage |-> "status",lastByte |-> 4,left |-> 16,hop |-> 0,fault |-> [hop |-> 0, stage |-> "status", kind |-> "trickle"],clock |-> 4,hopStart |-> 0,partial |-> FALSE]),
    ([result |-> "pending",stage |-> "status",lastByte |-> 5,left |-> 15,hop |-> 0,fault |-> [hop |-> 0, stage |-> "status", kind |-> "trickle"],clock |-> 5,hopStart |-> 0,partial |-> FALSE]),
    ([result |-> "pending",stage |-> "status",lastByte |-> 6,left |-> 14,hop |-> 0,fault |-> [hop |-> 0, stage |-> "status", kind |-> "trickle"],clock |-> 6,hopStart |-> 0,partial |-> FALSE]),
    ([result |-> "pending",stage |-> "status",lastByte |-> 7,left |-> 13,hop |-> 0,fault |-> [hop |-> 0, stage |-> "status", kind |-> "trickle"],clock |-> 7,hopStart |-> 0,partial |-> FALSE]),
    ([result |-> "pending",stage |-> "status",lastByte |-> 8,left |-> 12,hop |-> 0,fault |-> [hop |-> 0, stage |-> "status", kind |-> "trickle"],clock |-> 8,hopStart |-> 0,partial |-> FALSE]),
    ([result |-> "pending",stage |-> "status",lastByte |-> 9,left |-> 11,hop |-> 0,fault |-> [hop |-> 0, stage |-> "status", kind |-> "trickle"],clock |-> 9,hopStart |-> 0,partial |-> FALSE]),
    ([result |-> "pending",stage |-> "status",lastByte |-> 10,left |-> 10,hop |-> 0,fault |-> [hop |-> 0, stage |-> "status", kind |-> "trickle"],clock |-> 10,hopStart |-> 0,partial |-> FALSE]),
    ([result |-> "pending",stage |-> "status",lastByte |-> 11,left |-> 9,hop |-> 0,fault |-> [hop |-> 0, stage |-> "status", kind |-> "trickle"],clock |-> 11,hopStart |-> 0,partial |-> FALSE]),
    ([result |-> "pending",stage |-> "status",lastByte |-> 12,left |-> 8,hop |-> 0,fault |-> [hop |-> 0, stage |-> "status", kind |-> "trickle"],clock |-> 12,hopStart |-> 0,partial |-> FALSE]),
    ([result |-> "pending",stage |-> "status",lastByte |-> 13,left |-> 7,hop |-> 0,fault |-> [hop |-> 0, stage |-> "status", kind |-> "trickle"],clock |-> 13,hopStart |-> 0,partial |-> FALSE]),
    ([result |-> "pending",stage |-> "status",lastByte |-> 14,left |-> 6,hop |-> 0,fault |-> [hop |-> 0, stage |-> "status", kind |-> "trickle"],clock |-> 14,hopStart |-> 0,partial |-> FALSE]),
    ([result |-> "pending",stage |-> "status",lastByte |-> 15,left |-> 5,hop |-> 0,fault |-> [hop |-> 0, stage |-> "status", kind |-> "trickle"],clock |-> 15,hopStart |-> 0,partial |-> FALSE]),
    ([result |-> "pending",stage |-> "status",lastByte |-> 16,left |-> 4,hop |-> 0,fault |-> [hop |-> 0, stage |-> "status", kind |-> "trickle"],clock |-> 16,hopStart |-> 0,partial |-> FALSE]),
    ([result |-> "pending",stage |-> "status",lastByte |-> 17,left |-> 3,hop |-> 0,fault |-> [hop |-> 0, stage |-> "status", kind |-> "trickle"],clock |-> 17,hopStart |-> 0,partial |-> FALSE]),
    ([result |-> "pending",stage |-> "status",lastByte |-> 18,left |-> 2,hop |-> 0,fault |-> [hop |-> 0, stage |-> "status", kind |-> "trickle"],clock |-> 18,hopStart |-> 0,partial |-> FALSE]),
    ([result |-> "pending",stage |-> "status",lastByte |-> 19,left |-> 1,hop |-> 0,fault |-> [hop |-> 0, stage |-> "status", kind |-> "trickle"],clock |-> 19,hopStart |-> 0,partial |-> FALSE])
    >>
----


=============================================================================

---- CONFIG Faults_TTrace_1790465566 ----
CONSTANTS
    Hops = 2
    Variant = "pinned"
    TicksPerT = 3
    BodyUnits = 20

INVARIANT
    _inv

CHECK_DEADLOCK
    \* CHECK_DEADLOCK off because of PROPERTY or INVARIANT above.
    FALSE

INIT
    _init

NEXT
    _next

CONSTANT
    _TETrace <- _trace

ALIAS
    _expression
=============================================================================
\* Generated on Sat Sep 26 23:32:47 UTC 2026