------------------------------ MODULE MC_Config ------------------------------
EXTENDS Config, Json
CONSTANTS Variant, GenOn
VARIABLE v
Init == v \in Vectors
Next == UNCHANGED v
Spec == Init /\ [][Next]_v
Safe == AcceptedIsSafe(Variant, v)
Consistent == ~(MustReject(v) /\ MustAccept(v))
GenEmit == GenOn => PrintT("GEN " \o ToJson(v))
=============================================================================
