SPECIFICATION Spec
INVARIANTS Total Exclusive
CHECK_DEADLOCK FALSE
