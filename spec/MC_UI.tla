-------------------------------- MODULE MC_UI --------------------------------
(* Exhaustive exploration of the keymap reference: every key sequence that stays inside the bounds
   (history length, buffer length).  State-based search: sequences of any length are covered. *)
EXTENDS UI, Json
CONSTANTS MaxPages, MaxBuf, GenDepth
VARIABLES st, hist
vars == <<st, hist>>
Init == \E o \in {"a", "p"} : st = Init0(o) /\ hist = <<[k |-> "start_" \o o]>>
Press(k) == /\ \E r \in KeyNext(st, k) : st' = (IF r.hook.k # "none" THEN HookExit(r.st) ELSE r.st)
            /\ hist' = Append(hist, [k |-> k])
Next == \E k \in Keys : (k \in CmdToks => st.mode = "command" /\ st.buf = <<>>) /\ Press(k)
Spec == Init /\ [][Next]_vars
Bound == Len(st.pages) <= MaxPages /\ Len(st.buf) <= MaxBuf
View == st
WellFormed == StateOK(st)
(* opening a page keeps everything up to the current page and discards what lay beyond it *)
HistoryDiscipline == [][ \/ (Len(st'.pages) >= st.at /\ SubSeq(st'.pages, 1, st.at - 1) = SubSeq(st.pages, 1, st.at - 1))
                         \/ st'.pages = st.pages ]_vars
GenBound == Len(hist) <= GenDepth + 1 /\ Len(st.pages) <= MaxPages + 1
GenEmit == (Len(hist) = GenDepth + 1) => PrintT("GEN " \o ToJson([i \in 1..Len(hist) |-> hist[i].k]))
=============================================================================
