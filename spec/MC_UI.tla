-------------------------------- MODULE MC_UI --------------------------------
(* Exhaustive exploration of the keymap reference: every key sequence that stays inside the bounds
   (history length, buffer length).  State-based search: sequences of any length are covered. *)
EXTENDS UI, Json
CONSTANTS MaxPages, MaxBuf, GenDepth
VARIABLES st, hist, held, hp
vars == <<st, hist, held, hp>>
(* held: the media hook does not end by itself - its end is a step of its own (HookDone) that may come
   any number of keys later; hp: hooks started and not yet ended.  Not held: the hook ends before the
   next key (the composition key . HookExit).                                                        *)
Init == \E o \in {"a", "p"}, hd \in BOOLEAN :
           st = Init0(o) /\ held = hd /\ hp = 0 /\ hist = <<[k |-> (IF hd THEN "hstart_" ELSE "start_") \o o]>>
Press(k) == /\ \E r \in KeyNext(st, k) :
                 /\ st' = (IF r.hook.k # "none" /\ ~held THEN HookExit(r.st) ELSE r.st)
                 /\ hp' = IF r.hook.k # "none" /\ held /\ hp < 2 THEN hp + 1 ELSE hp
            /\ hist' = Append(hist, [k |-> k]) /\ UNCHANGED held
HookDone == /\ held /\ hp > 0 /\ st' = HookExit(st) /\ hp' = 0
            /\ hist' = Append(hist, [k |-> "hookexit"]) /\ UNCHANGED held
(* the exhaustive configuration (GenDepth = 0) types the digit classes 0, a valid number, a number beyond the links, 9;
   generated key sequences use all ten digits *)
UsedKeys == IF GenDepth = 0 THEN (Keys \ Digits) \cup {"0", "1", "2", "3", "9"} ELSE Keys
Next == \/ \E k \in UsedKeys : (k \in CmdToks => st.mode = "command" /\ st.buf = <<>>) /\ Press(k)
        \/ HookDone
Spec == Init /\ [][Next]_vars
Bound == Len(st.pages) <= MaxPages /\ Len(st.buf) <= MaxBuf
View == <<st, held, hp>>
WellFormed == StateOK(st) /\ (st.mode = "opening" => held /\ hp > 0)
(* opening a page keeps everything up to the current page and discards what lay beyond it *)
HistoryDiscipline == [][ \/ (Len(st'.pages) >= st.at /\ SubSeq(st'.pages, 1, st.at - 1) = SubSeq(st.pages, 1, st.at - 1))
                         \/ st'.pages = st.pages ]_vars
GenBound == Len(hist) <= GenDepth + 1 /\ Len(st.pages) <= MaxPages + 1
GenEmit == (Len(hist) = GenDepth + 1) => PrintT("GEN " \o ToJson([i \in 1..Len(hist) |-> hist[i].k]))
=============================================================================
