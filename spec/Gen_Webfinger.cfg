SPECIFICATION Spec
CONSTANTS
  MaxLen = 2
  GenOn = TRUE
CONSTRAINT GenEmit
CHECK_DEADLOCK FALSE
