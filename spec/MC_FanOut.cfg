SPECIFICATION Spec
INVARIANT Holds
CHECK_DEADLOCK FALSE
