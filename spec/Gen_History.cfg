SPECIFICATION Spec
CONSTANTS
  MaxItems = 99
  GenDepth = 7
CONSTRAINTS GenBound GenEmit
CHECK_DEADLOCK FALSE
