------------------------------- MODULE Faults -------------------------------
(* One fetch through a redirect chain of Hops+1 exchanges, with a peer that may misbehave at one
   stage of one exchange (C05).  Stages of an exchange, as jtp.Get performs them:
       dial -> handshake -> send -> status -> headers -> body -> (next hop | done)
   The client arms a deadline per Variant:
       "pinned"   only dial+handshake are covered (the tree as first received): a peer that goes silent
                  after the handshake blocks the fetch for ever
       "absolute" one absolute deadline per hop armed after the dial, covering the whole exchange (current tree)
       "perread"  the deadline is re-armed by every byte received: a trickling peer extends it for ever
       "shared"   the hops of a chain draw on one budget T counted from the start of the fetch, and a hop that finds
                  the budget used up arms no deadline at all: slow (but not faulty) earlier hops leave a stalling
                  later peer unwatched - EventuallyReturns is refuted (MC_Faults_shared.cfg)
   Peers that are not faulty may still be slow: up to T-1 ticks while connecting and again while answering.
   Time is a logical clock in units of the configured timeout T (TicksPerT ticks).                    *)
EXTENDS Integers, Sequences, FiniteSets, TLC
CONSTANTS Hops, Variant, TicksPerT, BodyUnits

Stages == <<"dial", "handshake", "send", "status", "headers", "body">>
Kinds == {"none", "refuse", "reset", "close", "stall", "trickle", "garbage"}

VARIABLES hop, stage, left, clock, hopStart, lastByte, result, fault, partial, slack, armed
vars == <<hop, stage, left, clock, hopStart, lastByte, result, fault, partial, slack, armed>>

StageIdx(s) == CHOOSE i \in 1..6 : Stages[i] = s
Init == /\ hop = 0 /\ stage = "dial" /\ left = BodyUnits /\ clock = 0 /\ hopStart = 0 /\ lastByte = 0
        /\ result = "pending" /\ partial = FALSE /\ slack = TicksPerT - 1 /\ armed = TRUE
        /\ fault \in [hop : 0..Hops, stage : {"dial", "handshake", "status", "headers", "body"}, kind : Kinds]

AtFault == fault.kind # "none" /\ fault.hop = hop /\ fault.stage = stage
Covered == CASE Variant = "pinned"   -> stage \in {"dial", "handshake"}
             [] Variant = "shared"   -> stage \in {"dial", "handshake"} \/ armed
             [] OTHER                -> TRUE
Deadline == CASE Variant = "perread" /\ stage \notin {"dial", "handshake"} -> lastByte + TicksPerT
              [] Variant = "pinned" -> hopStart + TicksPerT
              [] Variant = "shared" -> IF stage \in {"dial", "handshake"} THEN hopStart + TicksPerT ELSE TicksPerT
              [] OTHER -> IF stage \in {"dial", "handshake"} THEN hopStart + TicksPerT ELSE hopStart + 2 * TicksPerT

Finish(r) == result' = r /\ UNCHANGED <<hop, stage, left, clock, hopStart, lastByte, fault, partial, slack, armed>>

(* an exchange proceeds normally *)
Progress ==
    /\ result = "pending" /\ ~AtFault
    /\ IF stage = "body" THEN
          IF hop < Hops THEN /\ hop' = hop + 1 /\ stage' = "dial" /\ hopStart' = clock /\ lastByte' = clock
                             /\ slack' = TicksPerT - 1
                             /\ UNCHANGED <<left, clock, result, fault, partial, armed>>
          ELSE Finish("ok")
       ELSE /\ stage' = Stages[StageIdx(stage) + 1] /\ lastByte' = clock
            \* connected: the exchange deadline is armed here - in "shared" only while the budget of the whole fetch lasts
            /\ IF stage = "handshake" THEN slack' = TicksPerT - 1 /\ armed' = (Variant # "shared" \/ clock < TicksPerT)
               ELSE UNCHANGED <<slack, armed>>
            /\ UNCHANGED <<hop, left, clock, hopStart, result, fault, partial>>

(* the peer misbehaves in a way the client notices at once *)
Abrupt ==
    /\ result = "pending" /\ AtFault /\ fault.kind \in {"refuse", "reset", "close", "garbage"}
    /\ partial' = (stage = "body")            \* part of the response was delivered
    /\ result' = "err"                        \* decoder / reader reports the short or bad input
    /\ UNCHANGED <<hop, stage, left, clock, hopStart, lastByte, fault, slack, armed>>

(* a peer that is not faulty takes its time, within its limits *)
Slow ==
    /\ result = "pending" /\ ~AtFault /\ slack > 0
    /\ ~(Covered /\ clock >= Deadline)
    /\ clock' = clock + 1 /\ slack' = slack - 1
    /\ UNCHANGED <<hop, stage, left, hopStart, lastByte, result, fault, partial, armed>>
SlowTimesOut ==         \* (only "shared" can get here: elsewhere the slack stays within every deadline)
    /\ result = "pending" /\ ~AtFault /\ Covered /\ clock >= Deadline /\ Variant = "shared"
    /\ result' = "err" /\ UNCHANGED <<hop, stage, left, clock, hopStart, lastByte, fault, partial, slack, armed>>

(* the peer goes silent or sends one unit per tick *)
Tick ==
    /\ result = "pending" /\ AtFault /\ fault.kind \in {"stall", "trickle"}
    /\ ~(Covered /\ clock >= Deadline)
    /\ clock' = clock + 1
    /\ IF fault.kind = "trickle" /\ left > 0 THEN left' = left - 1 /\ lastByte' = clock + 1
       ELSE UNCHANGED <<left, lastByte>>
    /\ UNCHANGED <<hop, stage, hopStart, result, fault, partial, slack, armed>>
TrickleDone ==
    /\ result = "pending" /\ AtFault /\ fault.kind = "trickle" /\ left = 0
    /\ fault' = [fault EXCEPT !.kind = "none"] /\ UNCHANGED <<hop, stage, left, clock, hopStart, lastByte, result, partial, slack, armed>>
DeadlineFires ==
    /\ result = "pending" /\ Covered /\ clock >= Deadline /\ AtFault
    /\ result' = "err" /\ UNCHANGED <<hop, stage, left, clock, hopStart, lastByte, fault, partial, slack, armed>>

Next == Progress \/ Abrupt \/ Tick \/ TrickleDone \/ DeadlineFires \/ Slow \/ SlowTimesOut
Spec == Init /\ [][Next]_vars /\ WF_vars(Next)

(* C05 *)
NoPartialDoc == result = "ok" => ~partial
ElapsedBounded == clock <= 3 * TicksPerT * (Hops + 1)      \* what T_Faults demands of the real fetch: three timeouts per hop
EventuallyReturns == <>(result # "pending")
(* the safety core of it: a peer that has gone silent is always being watched by a deadline *)
NeverUnwatched == ~(result = "pending" /\ AtFault /\ fault.kind \in {"stall", "trickle"} /\ ~Covered)
Bound == clock <= 3 * TicksPerT * (Hops + 2)
=============================================================================
