------------------------------- MODULE Faults -------------------------------
(* One fetch through a redirect chain of Hops+1 exchanges, with a peer that may misbehave at one
   stage of one exchange (C05).  Stages of an exchange, as jtp.Get performs them:
       dial -> handshake -> send -> status -> headers -> body -> (next hop | done)
   The client arms a deadline per Variant:
       "pinned"   only dial+handshake are covered (the tree as first received): a peer that goes silent
                  after the handshake blocks the fetch for ever
       "absolute" one absolute deadline per hop armed after the dial, covering the whole exchange (current tree)
       "perread"  the deadline is re-armed by every byte received: a trickling peer extends it for ever
   Time is a logical clock in units of the configured timeout T (TicksPerT ticks).                    *)
EXTENDS Integers, Sequences, FiniteSets, TLC
CONSTANTS Hops, Variant, TicksPerT, BodyUnits

Stages == <<"dial", "handshake", "send", "status", "headers", "body">>
Kinds == {"none", "refuse", "reset", "close", "stall", "trickle", "garbage"}

VARIABLES hop, stage, left, clock, hopStart, lastByte, result, fault, partial
vars == <<hop, stage, left, clock, hopStart, lastByte, result, fault, partial>>

StageIdx(s) == CHOOSE i \in 1..6 : Stages[i] = s
Init == /\ hop = 0 /\ stage = "dial" /\ left = BodyUnits /\ clock = 0 /\ hopStart = 0 /\ lastByte = 0
        /\ result = "pending" /\ partial = FALSE
        /\ fault \in [hop : 0..Hops, stage : {"dial", "handshake", "status", "headers", "body"}, kind : Kinds]

AtFault == fault.kind # "none" /\ fault.hop = hop /\ fault.stage = stage
Covered == CASE Variant = "pinned"   -> stage \in {"dial", "handshake"}
             [] OTHER                -> TRUE
Deadline == CASE Variant = "perread" /\ stage \notin {"dial", "handshake"} -> lastByte + TicksPerT
              [] Variant = "pinned" -> hopStart + TicksPerT
              [] OTHER -> IF stage \in {"dial", "handshake"} THEN hopStart + TicksPerT ELSE hopStart + 2 * TicksPerT

Finish(r) == result' = r /\ UNCHANGED <<hop, stage, left, clock, hopStart, lastByte, fault, partial>>

(* an exchange proceeds normally *)
Progress ==
    /\ result = "pending" /\ ~AtFault
    /\ IF stage = "body" THEN
          IF hop < Hops THEN /\ hop' = hop + 1 /\ stage' = "dial" /\ hopStart' = clock /\ lastByte' = clock
                             /\ UNCHANGED <<left, clock, result, fault, partial>>
          ELSE Finish("ok")
       ELSE /\ stage' = Stages[StageIdx(stage) + 1] /\ lastByte' = clock
            /\ UNCHANGED <<hop, left, clock, hopStart, result, fault, partial>>

(* the peer misbehaves in a way the client notices at once *)
Abrupt ==
    /\ result = "pending" /\ AtFault /\ fault.kind \in {"refuse", "reset", "close", "garbage"}
    /\ partial' = (stage = "body")            \* part of the response was delivered
    /\ result' = "err"                        \* decoder / reader reports the short or bad input
    /\ UNCHANGED <<hop, stage, left, clock, hopStart, lastByte, fault>>

(* the peer goes silent or sends one unit per tick *)
Tick ==
    /\ result = "pending" /\ AtFault /\ fault.kind \in {"stall", "trickle"}
    /\ ~(Covered /\ clock >= Deadline)
    /\ clock' = clock + 1
    /\ IF fault.kind = "trickle" /\ left > 0 THEN left' = left - 1 /\ lastByte' = clock + 1
       ELSE UNCHANGED <<left, lastByte>>
    /\ UNCHANGED <<hop, stage, hopStart, result, fault, partial>>
TrickleDone ==
    /\ result = "pending" /\ AtFault /\ fault.kind = "trickle" /\ left = 0
    /\ fault' = [fault EXCEPT !.kind = "none"] /\ UNCHANGED <<hop, stage, left, clock, hopStart, lastByte, result, partial>>
DeadlineFires ==
    /\ result = "pending" /\ Covered /\ clock >= Deadline /\ AtFault
    /\ result' = "err" /\ UNCHANGED <<hop, stage, left, clock, hopStart, lastByte, fault, partial>>

Next == Progress \/ Abrupt \/ Tick \/ TrickleDone \/ DeadlineFires
Spec == Init /\ [][Next]_vars /\ WF_vars(Next)

(* C05 *)
NoPartialDoc == result = "ok" => ~partial
ElapsedBounded == clock <= 2 * TicksPerT * (Hops + 1)
EventuallyReturns == <>(result # "pending")
Bound == clock <= 3 * TicksPerT * (Hops + 2)
=============================================================================
