---------------------------- MODULE T_Containers ----------------------------
(* Trace specification for C18.  Each session of the log (reset ... ops) is an execution of the
   real history.History[int] / feed.Feed; every line carries the operation, its argument and the
   observable projection of the Go object after the call.  A step is accepted iff the projection
   equals the one of the reference model (Containers) after the same operation.  A rejected
   session is recorded in `bad` and skipped, so the remainder of the log is still examined.     *)
EXTENDS Containers, TLC, Json, Sequences, Integers
Log == ndJsonDeserialize("trace.ndjson")

VARIABLES l, sid, skip, bad, h, f, nxt
vars == <<l, sid, skip, bad, h, f, nxt>>

Offs == <<-4, -3, -2, -1, 0, 1, 2, 3, 4>>
Fresh(k) == [i \in 1..k |-> nxt + i - 1]
(* the items handed over: fresh ones, or - when the line says which - items of a small pool (the same item may come
   again: boosted twice, listed on two pages) *)
Items(e) == IF "tags" \in DOMAIN e THEN e.tags ELSE Fresh(e.k)

\* ---------------- projections of the reference state, shaped like the harness observations
HObs(hh) == [empty |-> HIsEmpty(hh), current |-> HCurrent(hh), elems |-> hh.elems, idx |-> hh.idx]
FObs(ff) == [contains |-> [i \in 1..9 |-> FContains(ff, Offs[i])],
             get      |-> [i \in 1..9 |-> FGet(ff, Offs[i])],
             parent   |-> [i \in 1..9 |-> FIsParent(ff, Offs[i])],
             child    |-> [i \in 1..9 |-> FIsChild(ff, Offs[i])],
             current  |-> FCurrent(ff)]

HAfter(e) == CASE e.op = "add"     -> HAdd(h, nxt)
               [] e.op = "readd"   -> HAdd(h, IF HIsEmpty(h) THEN 0 ELSE HCurrent(h))     \* the element shown, added once more
               [] e.op = "back"    -> HBack(h)
               [] e.op = "forward" -> HForward(h)
FAfter(e) == CASE e.op = "create"     -> FCreate(nxt)
               [] e.op = "createlist" -> FCreateList(Items(e))
               [] e.op = "append"     -> FAppend(f, Items(e))
               [] e.op = "prepend"    -> FPrepend(f, Items(e))
               [] e.op = "up"         -> FMoveUp(f)
               [] e.op = "down"       -> FMoveDown(f)
               [] e.op = "center"     -> FMoveToCenter(f)
Used(e) == CASE e.op \in {"add", "create"} -> 1
             [] e.op \in {"createlist", "append", "prepend"} -> e.k
             [] OTHER -> 0

Init == l = 1 /\ sid = 0 /\ skip = FALSE /\ bad = <<>> /\ h = HEmpty /\ f = FCreate(0) /\ nxt = 1

Reject(e, why) == /\ skip' = TRUE /\ bad' = Append(bad, [sid |-> sid, line |-> l, why |-> why])
                  /\ UNCHANGED <<sid, h, f, nxt>>

Step == /\ l <= Len(Log)
        /\ l' = l + 1
        /\ LET e == Log[l] IN
           CASE e.ev = "reset" -> /\ sid' = e.sid /\ skip' = FALSE /\ h' = HEmpty /\ f' = FCreate(0)
                                  /\ nxt' = 1 /\ UNCHANGED bad
             [] e.ev # "reset" /\ skip -> UNCHANGED <<sid, skip, bad, h, f, nxt>>
             [] e.ev = "h_op" /\ ~skip ->
                  LET g == HAfter(e) IN
                  IF e.panic THEN Reject(e, "history operation panicked")
                  ELSE IF e.obs # HObs(g) THEN Reject(e, "history differs from the list-with-cursor reference")
                  ELSE h' = g /\ nxt' = nxt + Used(e) /\ UNCHANGED <<sid, skip, bad, f>>
             [] e.ev = "f_op" /\ ~skip ->
                  LET g == FAfter(e) IN
                  IF e.panic THEN Reject(e, "feed operation panicked")
                  ELSE IF e.obs # FObs(g) THEN Reject(e, "feed differs from the two-sided sequence reference")
                  ELSE f' = g /\ nxt' = nxt + Used(e) /\ UNCHANGED <<sid, skip, bad, h>>

Spec == Init /\ [][Step]_vars
Done == (l = Len(Log) + 1) => PrintT("VERDICT " \o ToJson([consumed |-> l - 1, bad |-> bad]))
=============================================================================
