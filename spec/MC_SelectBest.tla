---------------------------- MODULE MC_SelectBest ----------------------------
EXTENDS SelectBest, Json
CONSTANTS MaxLen, GenOn
VARIABLE links
Dims == {"absent", "bad", "1", "2"}
LinkSet == [mt : {"absent", "bad", "match", "other"}, h : Dims, w : Dims]
Init == links \in UNION {[1..n -> LinkSet] : n \in 0..MaxLen}
Next == UNCHANGED links
Spec == Init /\ [][Next]_links
Best == BestWhenClean(links)
Total == SelectM(links).t \in {"pick", "err"}
GenEmit == GenOn => PrintT("GEN " \o ToJson(links))
=============================================================================
