---------------------------- MODULE T_SelectBest ----------------------------
(* Trace specification: every `select` line is one call of the real pub.SelectBestLink on concrete links
   of the given classes; accepted iff the outcome equals SelectM of SelectBest.tla.                  *)
EXTENDS SelectBest, Json
Log == ndJsonDeserialize("trace.ndjson")
VARIABLES l, bad
vars == <<l, bad>>
Init == l = 1 /\ bad = <<>>
Step == /\ l <= Len(Log) /\ l' = l + 1
        /\ LET e == Log[l] IN
           IF e.ev = "select" /\ (e.panic \/ e.res # SelectM(e.links))
           THEN bad' = Append(bad, [line |-> l, why |-> IF e.panic THEN "panic" ELSE "outcome differs from the transcribed algorithm"])
           ELSE UNCHANGED bad
Spec == Init /\ [][Step]_vars
Done == (l = Len(Log) + 1) => PrintT("VERDICT " \o ToJson([consumed |-> l - 1, bad |-> bad]))
=============================================================================
