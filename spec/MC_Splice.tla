------------------------------ MODULE MC_Splice ------------------------------
(* All source sets up to MaxSrc sources of up to MaxItems items with timestamps 0..MaxTs (ties, missing,
   unsorted), failed sources, and every tree of Harvest calls (on the latest or on any earlier
   continuation, sizes 0..MaxQ, offsets 0..1): each call returns what the reference merge prescribes. *)
EXTENDS Splice, TLC, Json
CONSTANTS MaxSrc, MaxItems, MaxTs, MaxQ, MaxCalls, GenOn
VARIABLES srcs, failed, conts, calls
vars == <<srcs, failed, conts, calls>>

Stamp(i, tss) == [k \in 1..Len(tss) |-> [s |-> i, k |-> k, ts |-> tss[k]]]
TsSeqs == UNION {[1..n -> 0..MaxTs] : n \in 0..MaxItems}
Init == /\ \E n \in 1..MaxSrc : \E f \in [1..n -> TsSeqs] : srcs = [i \in 1..n |-> Stamp(i, f[i])]
        /\ failed \in SUBSET (1..Len(srcs)) /\ Cardinality(failed) <= 1
        /\ \A i \in failed : srcs[i] = <<>>
        /\ conts = << [sp |-> Fresh(srcs, failed), at |-> 0] >> /\ calls = <<>>
Call(c, q, start) ==
    /\ Len(calls) < MaxCalls
    /\ LET r == HarvestM(srcs, conts[c].sp, q, start) IN
       /\ calls' = Append(calls, [on |-> c, at |-> conts[c].at, q |-> q, start |-> start, items |-> r.items, done |-> r.done])
       /\ conts' = IF r.done THEN conts ELSE Append(conts, [sp |-> r.sp, at |-> conts[c].at + start + Len(r.items)])
    /\ UNCHANGED <<srcs, failed>>
Next == \E c \in 1..Len(conts), q \in 0..MaxQ, start \in 0..1 : Call(c, q, start)
Spec == Init /\ [][Next]_vars

Holds == \A i \in 1..Len(calls) : CallOK(srcs, calls[i].at, calls[i].q, calls[i].start, calls[i].items, calls[i].done)
GenEmit == (GenOn /\ Len(calls) = MaxCalls) =>
    PrintT("GEN " \o ToJson([sources |-> [i \in 1..Len(srcs) |-> [k \in 1..Len(srcs[i]) |-> srcs[i][k].ts]],
                             failed |-> failed,
                             calls |-> [i \in 1..Len(calls) |-> [on |-> calls[i].on, q |-> calls[i].q, start |-> calls[i].start]]]))
=============================================================================
