---- MODULE UIConc_TTrace_1790476202 ----
EXTENDS Sequences, TLCExt, UIConc, Toolbox, Naturals, TLC

_expression ==
    LET UIConc_TEExpression == INSTANCE UIConc_TEExpression
    IN UIConc_TEExpression!expression
----

_trace ==
    LET UIConc_TETrace == INSTANCE UIConc_TETrace
    IN UIConc_TETrace!trace
----

_inv ==
    ~(
        TLCGet("level") = Len(_TETrace)
        /\
        emitting = ({})
        /\
        pc = ([k1 |-> "mutate", k2 |-> "want", k3 |-> "want", l1 |-> "work", l2 |-> "work", poll |-> "want", feed |-> "mutating"])
        /\
        holder = ("k1")
        /\
        writers = ({"feed"})
        /\
        done = ({})
        /\
        version = (0)
    )
----

_init ==
    /\ holder = _TETrace[1].holder
    /\ done = _TETrace[1].done
    /\ emitting = _TETrace[1].emitting
    /\ writers = _TETrace[1].writers
    /\ pc = _TETrace[1].pc
    /\ version = _TETrace[1].version
----

_next ==
    /\ \E i,j \in DOMAIN _TETrace:
        /\ \/ /\ j = i + 1
              /\ i = TLCGet("level")
        /\ holder  = _TETrace[i].holder
        /\ holder' = _TETrace[j].holder
        /\ done  = _TETrace[i].done
        /\ done' = _TETrace[j].done
        /\ emitting  = _TETrace[i].emitting
        /\ emitting' = _TETrace[j].emitting
        /\ writers  = _TETrace[i].writers
        /\ writers' = _TETrace[j].writers
        /\ pc  = _TETrace[i].pc
        /\ pc' = _TETrace[j].pc
        /\ version  = _TETrace[i].version
        /\ version' = _TETrace[j].version

\* Uncomment the ASSUME below to write the states of the error trace
\* to the given file in Json format. Note that you can pass any tuple
\* to `JsonSerialize`. For example, a sub-sequence of _TETrace.
    \* ASSUME
    \*     LET J == INSTANCE Json
    \*         IN J!JsonSerialize("UIConc_TTrace_1790476202.json", _TETrace)

=============================================================================

 Note that you can extract this module `UIConc_TEExpression`
  to a dedicated file to reuse `expression` (the module in the 
  dedicated `UIConc_TEExpression.tla` file takes precedence 
  over the module `UIConc_TEExpression` below).

---- MODULE UIConc_TEExpression ----
EXTENDS Sequences, TLCExt, UIConc, Toolbox, Naturals, TLC

expression == 
    [
        \* To hide variables of the `UIConc` spec from the error trace,
        \* remove the variables below.  The trace will be written in the order
        \* of the fields of this record.
        holder |-> holder
        ,done |-> done
        ,emitting |-> emitting
        ,writers |-> writers
        ,pc |-> pc
        ,version |-> version
        
        \* Put additional constant-, state-, and action-level expressions here:
        \* ,_stateNumber |-> _TEPosition
        \* ,_holderUnchanged |-> holder = holder'
        
        \* Format the `holder` variable as Json value.
        \* ,_holderJson |->
        \*     LET J == INSTANCE Json
        \*     IN J!ToJson(holder)
        
        \* Lastly, you may build expressions over arbitrary sets of states by
        \* leveraging the _TETrace operator.  For example, this is how to
        \* count the number of times a spec variable changed up to the current
        \* state in the trace.
        \* ,_holderModCount |->
        \*     LET F[s \in DOMAIN _TETrace] ==
        \*         IF s = 1 THEN 0
        \*         ELSE IF _TETrace[s].holder # _TETrace[s-1].holder
        \*             THEN 1 + F[s-1] ELSE F[s-1]
        \*     IN F[_TEPosition - 1]
    ]

=============================================================================



Parsing and semantic processing can take forever if the trace below is long.
 In this case, it is advised to uncomment the module below to deserialize the
 trace from a generated binary file.

\*
\*---- MODULE UIConc_TETrace ----
\*EXTENDS IOUtils, UIConc, TLC
\*
\*trace == IODeserialize("UIConc_TTrace_1790476202.bin", TRUE)
\*
\*=============================================================================
\*

---- MODULE UIConc_TETrace ----
EXTENDS UIConc, TLC

trace == 
    <<
    ([emitting |-> {},pc |-> [k1 |-> "want", k2 |-> "want", k3 |-> "want", l1 |-> "work", l2 |-> "work", poll |-> "want", feed |-> "work"],holder |-> "none",writers |-> {},done |-> {},version |-> 0]),
    ([emitting |-> {},pc |-> [k1 |-> "mutate", k2 |-> "want", k3 |-> "want", l1 |-> "work", l2 |-> "work", poll |-> "want", feed |-> "work"],holder |-> "k1",writers |-> {},done |-> {},version |-> 0]),
    ([emitting |-> {},pc |-> [k1 |-> "mutate", k2 |-> "want", k3 |-> "want", l1 |-> "work", l2 |-> "work", poll |-> "want", feed |-> "want"],holder |-> "k1",writers |-> {},done |-> {},version |-> 0]),
    ([emitting |-> {},pc |-> [k1 |-> "mutate", k2 |-> "want", k3 |-> "want", l1 |-> "work", l2 |-> "work", poll |-> "want", feed |-> "mutate"],holder |-> "k1",writers |-> {},done |-> {},version |-> 0]),
    ([emitting |-> {},pc |-> [k1 |-> "mutate", k2 |-> "want", k3 |-> "want", l1 |-> "work", l2 |-> "work", poll |-> "want", feed |-> "mutating"],holder |-> "k1",writers |-> {"feed"},done |-> {},version |-> 0])
    >>
----


=============================================================================

---- CONFIG UIConc_TTrace_1790476202 ----
CONSTANTS
    Keys = { "k1" , "k2" , "k3" }
    Loads = { "l1" , "l2" }
    Variant = "pinned"

INVARIANT
    _inv

CHECK_DEADLOCK
    \* CHECK_DEADLOCK off because of PROPERTY or INVARIANT above.
    FALSE

INIT
    _init

NEXT
    _next

CONSTANT
    _TETrace <- _trace

ALIAS
    _expression
=============================================================================
\* Generated on Sun Sep 27 02:30:05 UTC 2026