SPECIFICATION Spec
CONSTANTS
  Variant = "fixed"
  GenOn = FALSE
INVARIANT SinkClean
CHECK_DEADLOCK FALSE
