---- MODULE MC_Paging_TTrace_1790466501 ----
EXTENDS Sequences, TLCExt, Toolbox, Naturals, TLC, MC_Paging

_expression ==
    LET MC_Paging_TEExpression == INSTANCE MC_Paging_TEExpression
    IN MC_Paging_TEExpression!expression
----

_trace ==
    LET MC_Paging_TETrace == INSTANCE MC_Paging_TETrace
    IN MC_Paging_TETrace!trace
----

_inv ==
    ~(
        TLCGet("level") = Len(_TETrace)
        /\
        pages = (<<[n |-> 0, next |-> 2], [n |-> 0, next |-> 3], [n |-> 0, next |-> 4], [n |-> 1, next |-> 5], [n |-> 0, next |-> 0]>>)
        /\
        calls = (<<[n |-> 1, items |-> <<<<4, 1>>>>, err |-> TRUE, done |-> TRUE, visits |-> 5]>>)
        /\
        cont = (<<>>)
    )
----

_init ==
    /\ cont = _TETrace[1].cont
    /\ pages = _TETrace[1].pages
    /\ calls = _TETrace[1].calls
----

_next ==
    /\ \E i,j \in DOMAIN _TETrace:
        /\ \/ /\ j = i + 1
              /\ i = TLCGet("level")
        /\ cont  = _TETrace[i].cont
        /\ cont' = _TETrace[j].cont
        /\ pages  = _TETrace[i].pages
        /\ pages' = _TETrace[j].pages
        /\ calls  = _TETrace[i].calls
        /\ calls' = _TETrace[j].calls

\* Uncomment the ASSUME below to write the states of the error trace
\* to the given file in Json format. Note that you can pass any tuple
\* to `JsonSerialize`. For example, a sub-sequence of _TETrace.
    \* ASSUME
    \*     LET J == INSTANCE Json
    \*         IN J!JsonSerialize("MC_Paging_TTrace_1790466501.json", _TETrace)

=============================================================================

 Note that you can extract this module `MC_Paging_TEExpression`
  to a dedicated file to reuse `expression` (the module in the 
  dedicated `MC_Paging_TEExpression.tla` file takes precedence 
  over the module `MC_Paging_TEExpression` below).

---- MODULE MC_Paging_TEExpression ----
EXTENDS Sequences, TLCExt, Toolbox, Naturals, TLC, MC_Paging

expression == 
    [
        \* To hide variables of the `MC_Paging` spec from the error trace,
        \* remove the variables below.  The trace will be written in the order
        \* of the fields of this record.
        cont |-> cont
        ,pages |-> pages
        ,calls |-> calls
        
        \* Put additional constant-, state-, and action-level expressions here:
        \* ,_stateNumber |-> _TEPosition
        \* ,_contUnchanged |-> cont = cont'
        
        \* Format the `cont` variable as Json value.
        \* ,_contJson |->
        \*     LET J == INSTANCE Json
        \*     IN J!ToJson(cont)
        
        \* Lastly, you may build expressions over arbitrary sets of states by
        \* leveraging the _TETrace operator.  For example, this is how to
        \* count the number of times a spec variable changed up to the current
        \* state in the trace.
        \* ,_contModCount |->
        \*     LET F[s \in DOMAIN _TETrace] ==
        \*         IF s = 1 THEN 0
        \*         ELSE IF _TETrace[s].cont # _TETrace[s-1].cont
        \*             THEN 1 + F[s-1] ELSE F[s-1]
        \*     IN F[_TEPosition - 1]
    ]

=============================================================================



Parsing and semantic processing can take forever if the trace below is long.
 In this case, it is advised to uncomment the module below to deserialize the
 trace from a generated binary file.

\*
\*---- MODULE MC_Paging_TETrace ----
\*EXTENDS IOUtils, TLC, MC_Paging
\*
\*trace == IODeserialize("MC_Paging_TTrace_1790466501.bin", TRUE)
\*
\*=============================================================================
\*

---- MODULE MC_Paging_TETrace ----
EXTENDS TLC, MC_Paging

trace == 
    <<
    ([pages |-> <<[n |-> 0, next |-> 2], [n |-> 0, next |-> 3], [n |-> 0, next |-> 4], [n |-> 1, next |-> 5], [n |-> 0, next |-> 0]>>,calls |-> <<>>,cont |-> <<1, 0>>]),
    ([pages |-> <<[n |-> 0, next |-> 2], [n |-> 0, next |-> 3], [n |-> 0, next |-> 4], [n |-> 1, next |-> 5], [n |-> 0, next |-> 0]>>,calls |-> <<[n |-> 1, items |-> <<<<4, 1>>>>, err |-> TRUE, done |-> TRUE, visits |-> 5]>>,cont |-> <<>>])
    >>
----


=============================================================================

---- CONFIG MC_Paging_TTrace_1790466501 ----
CONSTANTS
    Variant = "pinned"
    MaxPages = 8
    MaxItems = 1
    MaxN = 4
    MaxCalls = 2
    GenOn = FALSE
    Shape = "chain"

INVARIANT
    _inv

CHECK_DEADLOCK
    \* CHECK_DEADLOCK off because of PROPERTY or INVARIANT above.
    FALSE

INIT
    _init

NEXT
    _next

CONSTANT
    _TETrace <- _trace

ALIAS
    _expression
=============================================================================
\* Generated on Sat Sep 26 23:48:23 UTC 2026