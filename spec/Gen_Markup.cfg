SPECIFICATION Spec
CONSTANTS
  Variant = "fixed"
  CacheVariant = "ok"
  GenOn = TRUE
  Mode = "docs"
CONSTRAINTS GenEmit GenWidths
CHECK_DEADLOCK FALSE
