SPECIFICATION Spec
CONSTANTS
  MaxItems = 99
  MaxChunk = 2
  GenDepth = 5
CONSTRAINTS GenBound GenEmit
CHECK_DEADLOCK FALSE
