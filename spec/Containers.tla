---------------------------- MODULE Containers ----------------------------
(* Reference models of servitor's two containers (history/history.go, feed/feed.go) as pure
   operators on records, so that the same definitions are used by
     - MC_History / MC_Feed : the state machines TLC explores exhaustively,
     - T_Containers         : the trace specification that judges executions of the Go code.

   History: a list with a cursor.   [elems : Seq(Item), idx : 0..Len(elems)]  (idx = 0 iff empty)
   Feed   : a contiguous two-sided sequence with absolute positions around the opened item
            (position 0), exclusive bounds lo < p < hi, and a cursor.
            [items : (lo+1..hi-1) -> Item, lo, hi, cur]                                         *)
EXTENDS Integers, Sequences, FiniteSets

None == -1     \* "no item" in observations (items are natural numbers)

\* ---------------- History
HEmpty == [elems |-> <<>>, idx |-> 0]

HAdd(h, e)   == [elems |-> Append(SubSeq(h.elems, 1, h.idx), e), idx |-> h.idx + 1]
HBack(h)     == IF h.idx > 1 THEN [h EXCEPT !.idx = h.idx - 1] ELSE h
HForward(h)  == IF h.idx < Len(h.elems) THEN [h EXCEPT !.idx = h.idx + 1] ELSE h
HIsEmpty(h)  == h.elems = <<>>
HCurrent(h)  == IF h.idx >= 1 THEN h.elems[h.idx] ELSE None

HTypeOK(h)   == /\ h.idx \in 0..Len(h.elems)
                /\ (h.idx = 0) <=> (h.elems = <<>>)

(* step properties, phrased on (before, after) pairs *)
HAddKeepsPrefix(h, g) ==            \* g = HAdd(h, e): everything up to the cursor survives, forward part is gone
    /\ Len(g.elems) = h.idx + 1 /\ g.idx = h.idx + 1
    /\ SubSeq(g.elems, 1, h.idx) = SubSeq(h.elems, 1, h.idx)
HMoveKeepsElems(h, g) == g.elems = h.elems /\ g.idx \in {h.idx - 1, h.idx, h.idx + 1}

\* ---------------- Feed
Range(f)       == (f.lo + 1)..(f.hi - 1)
FCreate(x)     == [items |-> [p \in {0} |-> x], lo |-> -1, hi |-> 1, cur |-> 0]
FCreateList(s) == [items |-> [p \in 1..Len(s) |-> s[p]], lo |-> 0, hi |-> 1 + Len(s), cur |-> 1]

FAppend(f, s)  == [f EXCEPT !.items = [p \in (f.lo + 1)..(f.hi - 1 + Len(s)) |->
                                          IF p < f.hi THEN f.items[p] ELSE s[p - f.hi + 1]],
                            !.hi = f.hi + Len(s)]
FPrepend(f, s) == [f EXCEPT !.items = [p \in (f.lo + 1 - Len(s))..(f.hi - 1) |->
                                          IF p > f.lo THEN f.items[p] ELSE s[f.lo - p + 1]],
                            !.lo = f.lo - Len(s)]

FContains(f, off) == f.cur + off \in Range(f)
FGet(f, off)      == IF FContains(f, off) THEN f.items[f.cur + off] ELSE None
FCurrent(f)       == FGet(f, 0)
FIsParent(f, off) == f.cur + off < 0
FIsChild(f, off)  == f.cur + off > 0

FMoveUp(f)        == IF FContains(f, -1) THEN [f EXCEPT !.cur = f.cur - 1] ELSE f
FMoveDown(f)      == IF FContains(f, 1)  THEN [f EXCEPT !.cur = f.cur + 1] ELSE f
FMoveToCenter(f)  == IF 0 \in Range(f)   THEN [f EXCEPT !.cur = 0] ELSE f

FTypeOK(f) == /\ f.lo < f.hi /\ DOMAIN f.items = Range(f)
(* the cursor is on an item whenever the feed was created around one *)
FCursorInBounds(f) == (f.cur \in Range(f)) \/ (Range(f) = {}) \/ (f.cur = 1 /\ f.hi = 1)

(* appending / prepending never moves or loses existing items, nor the cursor *)
FGrowStable(f, g) == /\ \A p \in Range(f) : p \in Range(g) /\ g.items[p] = f.items[p]
                     /\ g.cur = f.cur
FMoveStable(f, g) == /\ g.items = f.items /\ g.lo = f.lo /\ g.hi = f.hi
                     /\ g.cur \in Range(f) \/ g.cur = f.cur
=============================================================================
