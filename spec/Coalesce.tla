------------------------------ MODULE Coalesce ------------------------------
(* Coalescing of simultaneous fetches of one address (client.FetchURL: singleflight.Group.Do followed,
   in every caller, by group.Forget).  Not one of the listed properties; the comment in client.go states
   the intent: "no two requests are made simultaneously".

   A flight is one run of the fetch function.  Do(key): a caller that finds a flight registered for the
   key joins it, otherwise it registers a new flight and runs it.  When the function returns the flight is
   deregistered (only if it is still the one registered) and every member gets its result.  Each caller
   then calls Forget(key), which deregisters WHATEVER flight is registered under the key at that moment.

   Result: every caller gets the result of the flight it joined (Agreement holds), but a slow caller's
   Forget can deregister a LATER flight that is still running, so that the next caller starts another
   one next to it (OneAtATime is refuted; TLC's counterexample needs four callers).  Variant "noforget"
   (callers do not Forget) satisfies both - the flight table cleans up after itself.                  *)
EXTENDS Integers, FiniteSets, Sequences, TLC
CONSTANTS Callers, Variant, MaxFlights

VARIABLES pc,        \* caller -> "idle" | "in" | "back" | "done"
          mine,      \* caller -> flight it joined (0 = none)
          running,   \* set of flights whose function has not returned yet
          reg,       \* the flight registered under the key (0 = none)
          next,      \* next flight id
          got        \* caller -> flight whose result it was handed (0 = none)
vars == <<pc, mine, running, reg, next, got>>

Init == /\ pc = [c \in Callers |-> "idle"] /\ mine = [c \in Callers |-> 0] /\ got = [c \in Callers |-> 0]
        /\ running = {} /\ reg = 0 /\ next = 1

Do(c) == /\ pc[c] = "idle"
         /\ IF reg # 0 THEN /\ mine' = [mine EXCEPT ![c] = reg] /\ UNCHANGED <<running, reg, next>>
            ELSE /\ next <= MaxFlights
                 /\ mine' = [mine EXCEPT ![c] = next] /\ running' = running \cup {next}
                 /\ reg' = next /\ next' = next + 1
         /\ pc' = [pc EXCEPT ![c] = "in"] /\ UNCHANGED got
(* the fetch function of flight f returns *)
Land(f) == /\ f \in running /\ running' = running \ {f}
           /\ reg' = IF reg = f THEN 0 ELSE reg
           /\ UNCHANGED <<pc, mine, next, got>>
(* a member of a landed flight is handed the result *)
Return(c) == /\ pc[c] = "in" /\ mine[c] \notin running
             /\ got' = [got EXCEPT ![c] = mine[c]]
             /\ pc' = [pc EXCEPT ![c] = IF Variant = "noforget" THEN "done" ELSE "back"]
             /\ UNCHANGED <<mine, running, reg, next>>
Forget(c) == /\ pc[c] = "back" /\ reg' = 0 /\ pc' = [pc EXCEPT ![c] = "done"]
             /\ UNCHANGED <<mine, running, next, got>>
Next == (\E c \in Callers : Do(c) \/ Return(c) \/ Forget(c)) \/ (\E f \in running : Land(f))
Spec == Init /\ [][Next]_vars /\ WF_vars(Next)

Agreement  == \A c \in Callers : got[c] # 0 => got[c] = mine[c]
OneAtATime == Cardinality(running) <= 1
Everyone   == <>(\A c \in Callers : pc[c] = "done" \/ (pc[c] = "idle" /\ next > MaxFlights /\ reg = 0))
=============================================================================
