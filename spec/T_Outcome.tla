------------------------------ MODULE T_Outcome ------------------------------
(* Trace specification for C06: every `render` line is one generated JSON value turned into an item by
   the real constructors and exercised through every method a frame may call, at widths from negative
   to large; e.ms is the duration of the slowest single call (construction, one String, one Preview).
   Accepted iff everything returned normally and every call promptly (MC_Width gives the design-level reason
   why size and time stay polynomial in depth).                                                  *)
EXTENDS Integers, Sequences, TLC, Json
Log == ndJsonDeserialize("trace.ndjson")
LimitMs == 5000       \* "within seconds": low single digits; the slowest call of the current tree is under 1 s on this machine, also under load
FewKilobytes == 8192  \* the promptness promise is about documents of a few kilobytes; larger ones must still return (watchdog)
VARIABLES l, bad
vars == <<l, bad>>
Why(e) == IF e.outcome = "panic" THEN "panic"
          ELSE IF e.outcome = "timeout" THEN "did not return (hang or runaway rendering)"
          ELSE IF e.ms > LimitMs /\ e.bytes <= FewKilobytes THEN "took longer than the time bound"
          ELSE ""
Init == l = 1 /\ bad = <<>>
Step == /\ l <= Len(Log) /\ l' = l + 1
        /\ LET e == Log[l] IN
           IF e.ev = "render" /\ Why(e) # "" THEN bad' = Append(bad, [line |-> l, why |-> Why(e)]) ELSE UNCHANGED bad
Spec == Init /\ [][Step]_vars
Done == (l = Len(Log) + 1) => PrintT("VERDICT " \o ToJson([consumed |-> l - 1, bad |-> bad]))
=============================================================================
