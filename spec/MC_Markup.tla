------------------------------ MODULE MC_Markup ------------------------------
(* All documents of bounded shape: NumberingOK for the numbering as coded; enumeration for the driver.
   And all width sequences for the render cache.                                                      *)
EXTENDS Markup, TLC, Json
CONSTANTS Variant, CacheVariant, GenOn, Mode
VARIABLES doc, ws, cache, outs

Leaves == {[t |-> "txt"], [t |-> "img"]}
Inner == {"a", "sty", "blk"}
T1 == Leaves \cup {[t |-> k, kids |-> s] : k \in Inner, s \in UNION {[1..n -> Leaves] : n \in 1..2}}
T2 == Leaves \cup {[t |-> k, kids |-> s] : k \in Inner, s \in UNION {[1..n -> T1] : n \in 1..2}}
Docs == {<<x>> : x \in T2} \cup {<<x, y>> : x \in T1, y \in T1}

Widths == {1, 2, 80, 81}
R == [w \in Widths |-> w]              \* the rendering at width w, abstractly
Init == /\ IF Mode = "docs" THEN doc \in Docs ELSE doc = <<>>
        /\ ws = <<>> /\ cache = CacheInit(R) /\ outs = <<>>
Resize == /\ Mode = "cache" /\ Len(ws) < 5
          /\ \E w \in Widths : LET r == CacheRender(CacheVariant, R, cache, w) IN
                /\ ws' = Append(ws, w) /\ outs' = Append(outs, r.out) /\ cache' = r.c
          /\ UNCHANGED doc
Next == Resize
Spec == Init /\ [][Next]_<<doc, ws, cache, outs>>

Numbering == Mode = "docs" => NumberingOK(Render(Variant, doc))
(* the result of a render call is a function of the width alone, whatever was rendered before *)
CacheTransparent == \A i \in 1..Len(ws) : outs[i] = R[ws[i]]
GenEmit == (GenOn /\ Mode = "docs") => PrintT("GEN " \o ToJson(doc))
GenWidths == (GenOn /\ Mode = "cache" /\ Len(ws) = 5) => PrintT("GEN " \o ToJson(ws))
=============================================================================
