------------------------------ MODULE MC_Values ------------------------------
EXTENDS Values, Json
VARIABLES a, c
Init == a \in Accessors /\ c \in Classes
Next == UNCHANGED <<a, c>>
Spec == Init /\ [][Next]_<<a, c>>
Total == Allowed(a, c) # {} /\ Allowed(a, c) \subseteq {"value", "absent", "error"}
(* absent and value are never both allowed except for the empty list, and an error is never allowed together with absent *)
Exclusive == /\ ("absent" \in Allowed(a, c) /\ "value" \in Allowed(a, c)) => (a = "GetList" /\ c = "arr_empty")
             /\ ~("absent" \in Allowed(a, c) /\ "error" \in Allowed(a, c))
GenEmit == PrintT("GEN " \o ToJson([acc |-> a, class |-> c]))
=============================================================================
