"""Shared machinery for the servitor TLA+ conformance checks.

Everything here is plain python3 (stdlib only).  A check is a python module
checks/<id>.py exposing run(ctx) -> Result; bin/check drives it.
"""
import hashlib
import json
import os
import re
import shutil
import subprocess
import sys
import tempfile
import time

VERIF = os.path.dirname(os.path.dirname(os.path.abspath(__file__)))
REPO = os.environ.get("VERIF_REPO", "/repo")
SPEC = os.path.join(VERIF, "spec")
HARNESS = os.path.join(VERIF, "harness")
TLA_JAR = "/opt/veriftools/tla/tla2tools.jar"
TLA_CP = TLA_JAR + ":/opt/veriftools/tla/CommunityModules-deps.jar"
NCPU = os.cpu_count() or 4


class Inconclusive(Exception):
    """The machinery itself failed (build error, TLC crash, timeout).  Exit code 2."""


def log(*a):
    print(*a, flush=True)


# --------------------------------------------------------------------------- context

class Ctx:
    def __init__(self, pid, tier, seed):
        self.pid = pid
        self.tier = tier
        self.seed = seed
        self.t0 = time.time()
        base = os.environ.get("VERIF_TMP") or tempfile.gettempdir()
        self.scratch = tempfile.mkdtemp(prefix="verif-%s-" % pid, dir=base)
        self.quick = tier == "quick"
        self._overlay = None
        self._n = 0

    def sub(self, name):
        self._n += 1
        d = os.path.join(self.scratch, "%02d-%s" % (self._n, name))
        os.makedirs(d)
        return d

    def cleanup(self):
        shutil.rmtree(self.scratch, ignore_errors=True)

    # ---------------------------------------------------------------- Go side
    def go_env(self, extra=None):
        env = dict(os.environ)
        env.update({
            "GOFLAGS": "-mod=mod", "GOPROXY": "off", "GOSUMDB": "off",
            "GOTOOLCHAIN": "local", "CGO_ENABLED": env.get("CGO_ENABLED", "1"),
        })
        # a private, empty configuration directory unless the check provides one
        cfgdir = os.path.join(self.scratch, "xdg")
        os.makedirs(os.path.join(cfgdir, "servitor"), exist_ok=True)
        env["XDG_CONFIG_HOME"] = cfgdir
        for k, v in go_dirs().items():
            env[k] = v
        env["HOME"] = self.scratch
        env["VERIF_SEED"] = str(self.seed)
        env["VERIF_TIER"] = self.tier
        if extra:
            env.update({k: str(v) for k, v in extra.items()})
        return env

    def write_config(self, text):
        """servitor configuration file read by config.init() of every harness process."""
        cfgdir = os.path.join(self.scratch, "xdg", "servitor")
        os.makedirs(cfgdir, exist_ok=True)
        with open(os.path.join(cfgdir, "config.toml"), "w") as f:
            f.write(text)

    def overlay(self):
        """Map every file under harness/<pkg>/ into REPO/<pkg>/ (go -overlay)."""
        if self._overlay:
            return self._overlay
        repl = {}
        for root, _dirs, files in os.walk(HARNESS):
            rel = os.path.relpath(root, HARNESS)
            for fn in files:
                if not fn.endswith(".go"):
                    continue
                repl[os.path.normpath(os.path.join(REPO, rel, fn))] = os.path.join(root, fn)
        path = os.path.join(self.scratch, "overlay.json")
        with open(path, "w") as f:
            json.dump({"Replace": repl}, f)
        self._overlay = path
        return path

    def go_test(self, pkg, run, env=None, race=False, timeout=900, args=()):
        """Run one harness test of package `pkg` of the working tree with the verif overlay.

        Returns (returncode, combined output).  A build failure raises Inconclusive."""
        cmd = ["go", "test", "-tags", "verif", "-vet=off", "-count=1",
               "-overlay", self.overlay(), "-run", "^%s$" % run,
               "-timeout", "%ds" % timeout]
        if race:
            cmd.append("-race")
        cmd.append("./" + pkg)
        cmd += list(args)
        t = time.time()
        try:
            p = subprocess.run(cmd, cwd=REPO, env=self.go_env(env), stdout=subprocess.PIPE,
                               stderr=subprocess.STDOUT, timeout=timeout + 60)
        except subprocess.TimeoutExpired:
            raise Inconclusive("go test %s %s: harness timed out" % (pkg, run))
        out = p.stdout.decode("utf-8", "replace")
        if "[build failed]" in out or "[setup failed]" in out or re.search(r"^# servitor", out, re.M) and p.returncode != 0 and "--- FAIL" not in out and "panic:" not in out:
            raise Inconclusive("harness does not build against %s:\n%s" % (REPO, out[-3000:]))
        if "no tests to run" in out:
            raise Inconclusive("harness test %s not found in %s" % (run, pkg))
        log("  go test %s %s: rc=%d %.1fs" % (pkg, run, p.returncode, time.time() - t))
        return p.returncode, out

    def go_test_binary(self, pkg):
        """Compile the harness test binary of `pkg` once (for checks that start many processes)."""
        out = os.path.join(self.scratch, pkg.replace("/", "_") + ".test")
        if os.path.exists(out):
            return out
        cmd = ["go", "test", "-c", "-tags", "verif", "-vet=off", "-overlay", self.overlay(), "-o", out, "./" + pkg]
        p = subprocess.run(cmd, cwd=REPO, env=self.go_env(), stdout=subprocess.PIPE, stderr=subprocess.STDOUT)
        if p.returncode != 0 or not os.path.exists(out):
            raise Inconclusive("harness does not build against %s:\n%s" % (REPO, p.stdout.decode("utf-8", "replace")[-3000:]))
        return out

    # ---------------------------------------------------------------- TLC side
    def spec_dir(self, name, files=None):
        """Scratch copy of the spec directory (TLC litters states/ etc.)."""
        d = self.sub(name)
        for fn in os.listdir(SPEC):
            if fn.endswith((".tla", ".cfg")):
                shutil.copy(os.path.join(SPEC, fn), d)
        for k, v in (files or {}).items():
            dst = os.path.join(d, k)
            if isinstance(v, (bytes, bytearray)):
                with open(dst, "wb") as f:
                    f.write(v)
            elif os.path.exists(str(v)) and not str(v).endswith((".tla", ".cfg")) and "\n" not in str(v):
                shutil.copy(v, dst)
            else:
                with open(dst, "w") as f:
                    f.write(v)
        return d

    def tlc(self, module, cfg, cwd=None, workers=None, simulate=None, depth=None,
            timeout=1500, extra=(), heap=None, dfs=False, consts=None, quiet=False):
        """Run TLC; returns a TlcResult.  `consts` patches `NAME = value` lines into a copy of cfg."""
        cwd = cwd or self.spec_dir(module)
        cfgpath = os.path.join(cwd, cfg)
        if consts:
            txt = open(cfgpath).read()
            for k, v in consts.items():
                txt, n = re.subn(r"(?m)^(\s*%s\s*=\s*).*$" % re.escape(k), lambda m: m.group(1) + str(v), txt)
                if n == 0:
                    raise Inconclusive("constant %s not in %s" % (k, cfg))
            cfg = "patched_" + cfg
            cfgpath = os.path.join(cwd, cfg)
            with open(cfgpath, "w") as f:
                f.write(txt)
        meta = os.path.join(cwd, "meta-%d" % int(time.time() * 1000 % 1e9))
        java = ["java", "-XX:+UseParallelGC", "-XX:ParallelGCThreads=4", "-Xss64m"]
        if heap:
            java.append("-Xmx%s" % heap)
        if dfs:
            java.append("-Dtlc2.tool.queue.IStateQueue=StateDeque")
        cmd = java + ["-cp", TLA_CP, "tlc2.TLC", "-metadir", meta, "-config", cfg,
                      "-workers", str(workers or "auto")]
        if simulate:
            cmd += ["-simulate", simulate]
            if depth:
                cmd += ["-depth", str(depth)]
            cmd += ["-seed", str(self.seed)]
        cmd += list(extra)
        cmd.append(module)
        t = time.time()
        try:
            p = subprocess.run(["timeout", str(timeout)] + cmd, cwd=cwd, stdout=subprocess.PIPE,
                               stderr=subprocess.STDOUT, timeout=timeout + 30)
        except subprocess.TimeoutExpired:
            subprocess.run(["pkill", "-f", "tlc2.TL[C]"])
            raise Inconclusive("TLC %s/%s timed out" % (module, cfg))
        out = p.stdout.decode("utf-8", "replace")
        shutil.rmtree(meta, ignore_errors=True)
        shutil.rmtree(os.path.join(cwd, "states"), ignore_errors=True)
        r = TlcResult(module, cfg, p.returncode, out, time.time() - t)
        if not quiet:
            log("  tlc %s %s: rc=%d gen=%d distinct=%d %.1fs%s" % (
                module, cfg, p.returncode, r.generated, r.distinct, r.wall,
                " ERROR" if r.error else ""))
        if p.returncode == 124:
            raise Inconclusive("TLC %s/%s timed out after %ds" % (module, cfg, timeout))
        return r


_GODIRS = None


def go_dirs():
    """GOPATH/GOCACHE/GOMODCACHE of the invoking user, pinned before HOME is redirected."""
    global _GODIRS
    if _GODIRS is None:
        out = subprocess.run(["go", "env", "GOPATH", "GOCACHE", "GOMODCACHE"], stdout=subprocess.PIPE,
                             env=dict(os.environ, GOTOOLCHAIN="local")).stdout.decode().split("\n")
        _GODIRS = {"GOPATH": out[0].strip(), "GOCACHE": out[1].strip(), "GOMODCACHE": out[2].strip()}
    return _GODIRS


class TlcResult:
    def __init__(self, module, cfg, rc, out, wall):
        self.module, self.cfg, self.rc, self.out, self.wall = module, cfg, rc, out, wall
        m = re.findall(r"(\d+) states generated, (\d+) distinct states found", out)
        self.generated, self.distinct = (int(m[-1][0]), int(m[-1][1])) if m else (0, 0)
        m = re.search(r"The depth of the complete state graph search is (\d+)", out)
        self.depth = int(m.group(1)) if m else 0
        self.error = None
        m = re.search(r"Error: (.*)", out)
        if m:
            self.error = m.group(1).strip()
        self.violated = re.findall(r"(?:Invariant|Action property|Temporal propert\w+) (\S+) (?:is|was) violated", out)
        if "Temporal properties were violated" in out:
            self.violated.append("<temporal>")
        if "Deadlock reached" in out:
            self.violated.append("<deadlock>")
        self.finished = "Model checking completed" in out or "Finished in" in out or simulate_done(out)

    def lines(self, prefix):
        """Payloads of PrintT("<prefix> " \\o json) lines."""
        res = []
        pat = re.compile(r'^"?%s (.*?)"?$' % re.escape(prefix))
        for ln in self.out.splitlines():
            m = pat.match(ln.strip())
            if m:
                s = m.group(1)
                if ln.strip().startswith('"'):
                    s = s.replace('\\"', '"').replace("\\\\", "\\")
                res.append(s)
        return res

    def json_lines(self, prefix, unique=True):
        """Payloads parsed as JSON; duplicates removed (TLC evaluates a constraint more than once per state)."""
        out, seen = [], set()
        for s in self.lines(prefix):
            if unique:
                if s in seen:
                    continue
                seen.add(s)
            out.append(json.loads(s))
        return out

    def require_clean(self, what=""):
        """For exhaustive model runs: anything but a completed, violation-free run is inconclusive
        (a model-level counterexample is only a candidate, never a verdict)."""
        if self.error or self.violated or self.rc != 0:
            raise Inconclusive("TLC %s/%s %s did not pass: rc=%d %s %s\n%s" % (
                self.module, self.cfg, what, self.rc, self.error, self.violated, self.out[-2500:]))
        return self


def simulate_done(out):
    return "The number of states generated" in out or "states checked" in out


# --------------------------------------------------------------------------- traces

def write_ndjson(path, events):
    with open(path, "w") as f:
        for e in events:
            f.write(json.dumps(e, separators=(",", ":"), ensure_ascii=True))
            f.write("\n")


def read_ndjson(path):
    out = []
    with open(path) as f:
        for ln in f:
            ln = ln.strip()
            if ln:
                out.append(json.loads(ln))
    return out


def split_log(events, max_lines):
    """Cut a log into pieces of at most about max_lines lines, only at session starts (reset / robj lines);
    logs without sessions may be cut anywhere.  Returns [(offset, lines)]."""
    if len(events) <= max_lines:
        return [(0, events)]
    starts = [i for i, e in enumerate(events) if e.get("ev") in ("reset", "robj")]
    if not starts:
        return [(i, events[i:i + max_lines]) for i in range(0, len(events), max_lines)]
    pieces, begin, prev = [], 0, None
    for c in starts + [len(events)]:
        if c - begin > max_lines and prev is not None and prev > begin:
            pieces.append((begin, events[begin:prev]))
            begin = prev
        prev = c
    pieces.append((begin, events[begin:]))
    return pieces


def judge(ctx, module, cfg, events, name=None, timeout=1500, heap=None, consts=None, max_lines=30000):
    """Trace validation: hand `events` (list of dicts; sessions start with {"ev":"reset"|"robj",..}) to the trace
    specification `module` and return (bad, result) where bad is the list of rejection records printed by
    the spec as  VERDICT <json>.  The trace spec consumes the whole log (rejected sessions are skipped to
    their end, so the rest is still examined).  Long logs are cut into pieces at session boundaries (any
    line for stateless specs) and validated piece by piece; line numbers are mapped back."""
    pieces = split_log(events, max_lines)
    all_bad, last, drift = [], None, []
    for k, (offset, part) in enumerate(pieces):
        if not part:
            continue
        d = ctx.spec_dir((name or module) + ("-%d" % k if len(pieces) > 1 else ""))
        write_ndjson(os.path.join(d, "trace.ndjson"), part)
        r = ctx.tlc(module, cfg, cwd=d, workers=1, timeout=timeout, heap=heap, consts=consts, quiet=len(pieces) > 3 and k > 0)
        verdicts = r.json_lines("VERDICT")
        if r.error or r.rc != 0 or not verdicts:
            raise Inconclusive("trace validation %s/%s failed to run: rc=%d %s\n%s" % (
                module, cfg, r.rc, r.error, r.out[-3000:]))
        v = verdicts[-1]
        if v.get("consumed") != len(part):
            raise Inconclusive("trace spec %s consumed %s of %d lines" % (module, v.get("consumed"), len(part)))
        for b in v.get("bad", []):
            b = dict(b)
            b["line"] = b["line"] + offset
            all_bad.append(b)
        drift += [x + offset for x in v.get("drift", [])]
        shutil.rmtree(d, ignore_errors=True)
        if last is None:
            last = r
        else:
            last.generated += r.generated
            last.distinct += r.distinct
            last.wall += r.wall
    if last is None:
        raise Inconclusive("no events to validate with %s" % module)
    last.verdict = {"consumed": len(events), "bad": all_bad, "drift": drift}
    return all_bad, last


# --------------------------------------------------------------------------- results

class Result:
    def __init__(self, ctx, level):
        self.ctx = ctx
        self.level = level
        self.states = 0
        self.transitions = 0
        self.traces = 0
        self.evaluations = 0
        self.distinct = set()
        self.samples = []
        self.rule = ""
        self.assumptions = []
        self.extra = {}
        self.violations = []   # (signature dict, replay path, text)
        self.known_hits = []
        self.exhaustive = None

    def add_tlc(self, r):
        self.states += r.distinct
        self.transitions += r.generated
        self.extra.setdefault("tlc_runs", []).append(
            {"module": r.module, "cfg": r.cfg, "generated": r.generated, "distinct": r.distinct,
             "depth": r.depth, "wall_s": round(r.wall, 1)})

    def case(self, key):
        self.evaluations += 1
        self.distinct.add(hashlib.sha1(json.dumps(key, sort_keys=True).encode()).hexdigest()[:16])

    def sample(self, s, limit=6):
        if len(self.samples) < limit:
            self.samples.append(s)


def load_known():
    p = os.path.join(VERIF, "known_findings.json")
    if not os.path.exists(p):
        return []
    return json.load(open(p))


def match_known(pid, sig):
    """A violation is 'known' only if a status=known entry of this property has a signature
    all of whose fields equal the violation's."""
    for k in load_known():
        if k.get("property") != pid or k.get("status") != "known":
            continue
        ksig = k.get("signature", {})
        if ksig and all(sig.get(f) == v for f, v in ksig.items()):
            return k
    return None


def save_replay(pid, name, obj):
    d = os.path.join(VERIF, "replays", "found")
    os.makedirs(d, exist_ok=True)
    path = os.path.join(d, "%s-%s.json" % (pid, name))
    with open(path, "w") as f:
        json.dump(obj, f, indent=1, sort_keys=True)
    return path


def finish(res):
    """Write evidence, print verdict lines, return exit code."""
    ctx = res.ctx
    new = []
    known_printed = set()
    # replay files carry what is needed to look for the same violation again
    for sig, replay, text in res.violations:
        try:
            obj = json.load(open(replay))
            if isinstance(obj, dict):
                obj.update({"_property": ctx.pid, "_signature": sig, "_seed": ctx.seed, "_tier": ctx.tier, "_text": text})
                json.dump(obj, open(replay, "w"), indent=1, sort_keys=True)
        except Exception:
            pass
    want = getattr(ctx, "replay_signature", None)
    if want is not None:
        hit = [v for v in res.violations if v[0] == want]
        log("REPLAY: %s" % ("reproduced: " + hit[0][2] if hit else "not reproduced (signature %s)" % want))
    for sig, replay, text in res.violations:
        k = match_known(ctx.pid, sig)
        if k:
            key = json.dumps(k.get("signature"), sort_keys=True)
            if key not in known_printed:
                known_printed.add(key)
                log("KNOWN-FINDING: property=%s %s" % (ctx.pid, k.get("what", "")))
        else:
            new.append((sig, replay, text))
    cov = {
        "evaluations": max(res.evaluations, 0),
        "distinct_nontrivial": len(res.distinct),
        "rule": res.rule,
        "samples": res.samples,
        "traces_validated_against_impl": res.traces,
        "states": res.states,
        "transitions": res.transitions,
    }
    if res.exhaustive is not None:
        cov["exhaustive"] = res.exhaustive
    cov.update(res.extra)
    ev = {
        "property_id": ctx.pid, "tier": ctx.tier, "seed": ctx.seed, "level": res.level,
        "coverage": cov, "assumptions": res.assumptions,
        "wall_s": round(time.time() - ctx.t0, 1), "violations": len(new),
        "known_findings_hit": len(known_printed),
    }
    # evidence/ describes runs against /repo itself; a run against a scratch copy (VERIF_REPO: seeded changes) keeps its own
    evdir = os.path.join(VERIF, "evidence") if REPO == "/repo" else os.path.join(VERIF, "evidence-scratch")
    os.makedirs(evdir, exist_ok=True)
    with open(os.path.join(evdir, ctx.pid + ".json"), "w") as f:
        json.dump(ev, f, indent=1)
    seen = set()
    for sig, replay, text in new:
        if replay in seen:
            continue
        seen.add(replay)
        log("VIOLATION property=%s replay=%s" % (ctx.pid, replay))
        log("  " + text)
        if len(seen) >= 10:
            break
    log("%s %s seed=%d: %d evaluations, %d distinct, %d traces validated, %d states; %d violation(s), %.1fs" % (
        ctx.pid, ctx.tier, ctx.seed, res.evaluations, len(res.distinct), res.traces, res.states,
        len(new), time.time() - ctx.t0))
    return 1 if new else 0
